#!/venv/bin/python
"""Print the keys of the violations currently reported for a property (triage aid)."""
import glob, json, sys
for f in sorted(glob.glob(f"/verif/replay/{sys.argv[1]}/*.json")):
    d = json.load(open(f))
    print(json.dumps({"property": d["property"], "rule": d["rule"], "key": d["key"], "site": d["site"]}))
