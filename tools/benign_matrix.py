#!/venv/bin/python
"""Run every check on scratch copies with one behaviour-preserving refactoring applied: any
non-zero exit is a false alarm of the checker."""
import json, os, re, shutil, subprocess, sys, tempfile
from concurrent.futures import ThreadPoolExecutor
from pathlib import Path

PROPS = [f"C{i:02d}" for i in range(1, 21)]


def run(patch: Path):
    tmp = Path(tempfile.mkdtemp(prefix="verif-benign-"))
    try:
        shutil.copytree("/repo/src", tmp / "repo" / "src")
        r = subprocess.run(["patch", "-p1", "-s", "-i", str(patch)], cwd=tmp / "repo", capture_output=True)
        if r.returncode:
            return patch, {"error": "patch does not apply"}
        res = {}
        for p in PROPS:
            env = dict(os.environ, VERIF_NO_EVIDENCE="1")
            r = subprocess.run(["/verif/check", p, "--repo", str(tmp / "repo")], capture_output=True, text=True, env=env)
            if r.returncode != 0:
                rules = sorted(set(re.findall(r"^  rule (\S+) ", r.stdout, re.M)))
                err = re.findall(r"^ANALYSIS-ERROR.*", r.stdout, re.M)
                res[p] = {"exit": r.returncode, "rules": rules, "error": err[:1]}
        return patch, res
    finally:
        shutil.rmtree(tmp, ignore_errors=True)


def main():
    root = Path(sys.argv[1]) if len(sys.argv) > 1 else Path("/verif/benign")
    patches = sorted(root.glob("**/*.diff"))
    only = sys.argv[2:] 
    if only:
        patches = [p for p in patches if any(o in p.name for o in only)]
    bad = 0
    with ThreadPoolExecutor(12) as ex:
        for patch, res in ex.map(run, patches):
            if res:
                bad += 1
            print(patch.name, "ALARM " + json.dumps(res) if res else "silent", flush=True)
    print(f"benign patches: {len(patches)}  with alarms: {bad}")


if __name__ == "__main__":
    main()
