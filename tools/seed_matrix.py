#!/venv/bin/python
"""Run every check against every seeded change (on scratch copies of /repo/src, never /repo itself)
and write /verif/seeded/MATRIX.json: which rules of which checks report each change."""
import json, os, re, shutil, subprocess, sys, tempfile
from concurrent.futures import ThreadPoolExecutor
from pathlib import Path

VERIF = Path("/verif")
PROPS = [f"C{i:02d}" for i in range(1, 21)]


def prefix_tree(patch: Path, tmp: Path) -> bool:
    """copy /repo/src; if the patch does not apply, retry with the touched files taken from the pinned commit"""
    shutil.copytree("/repo/src", tmp / "repo" / "src")
    r = subprocess.run(["patch", "-p1", "-s", "--dry-run", "-i", str(patch)], cwd=tmp / "repo", capture_output=True)
    base = "current"
    if r.returncode:
        files = re.findall(r"^\+\+\+ b/(\S+)", patch.read_text(), re.M)
        for f in files:
            out = subprocess.run(["git", "-C", "/repo", "show", f"7f30534:{f}"], capture_output=True, text=True)
            (tmp / "repo" / f).write_text(out.stdout)
        base = "pinned-commit version of the touched files"
    r = subprocess.run(["patch", "-p1", "-s", "-i", str(patch)], cwd=tmp / "repo", capture_output=True)
    return (r.returncode == 0), base


def run_seed(sd: Path):
    tmp = Path(tempfile.mkdtemp(prefix="verif-seed-"))
    try:
        ok, base = prefix_tree(sd / "patch.diff", tmp)
        if not ok:
            return sd.name, {"error": "patch does not apply"}
        res = {"base": base, "checks": {}}
        for p in PROPS:
            env = dict(os.environ, VERIF_NO_EVIDENCE="1")
            r = subprocess.run([str(VERIF / "check"), p, "--repo", str(tmp / "repo")], capture_output=True, text=True, env=env)
            rules = sorted(set(re.findall(r"^  rule (\S+) ", r.stdout, re.M)))
            if r.returncode != 0:
                res["checks"][p] = {"exit": r.returncode, "rules": rules}
        return sd.name, res
    finally:
        shutil.rmtree(tmp, ignore_errors=True)


def main():
    seeds = sorted(d for d in (VERIF / "seeded").iterdir() if d.is_dir() and (d / "patch.diff").exists())
    if len(sys.argv) > 1:
        seeds = [s for s in seeds if any(a in s.name for a in sys.argv[1:])]
    out = {}
    mpath = VERIF / "seeded" / "MATRIX.json"
    if mpath.exists() and len(sys.argv) > 1:
        out = json.load(open(mpath))
    with ThreadPoolExecutor(10) as ex:
        for name, res in ex.map(run_seed, seeds):
            out[name] = res
            own = name.split("-")[0]
            caught = own in res.get("checks", {}) and res["checks"][own]["exit"] == 1
            print(name, "CAUGHT by own check" if caught else "MISSED by own check", {k: v["rules"] for k, v in res.get("checks", {}).items()}, flush=True)
    json.dump(out, open(mpath, "w"), indent=1, sort_keys=True)


if __name__ == "__main__":
    main()
