#!/bin/bash
# usage: try_patch.sh <patch.diff> <Cxx> [<Cyy> ...]   - analyse a scratch copy of /repo with the patch applied
set -u
patch=$1; shift
tmp=$(mktemp -d /tmp/trypatch.XXXXXX)
mkdir -p $tmp/repo && cp -r /repo/src $tmp/repo/src
( cd $tmp/repo && patch -p1 -s < "$patch" ) || { echo "PATCH FAILED"; rm -rf $tmp; exit 3; }
for p in "$@"; do
  VERIF_NO_EVIDENCE=1 /verif/check $p --repo $tmp/repo 2>&1 | grep -E "^(VIOLATION|  rule|ANALYSIS|C[0-9]+ \[)" | cut -c1-300
done
rm -rf $tmp
