#!/bin/bash
# run every check (quick by default) in parallel and validate manifest + evidence against the schemas
tier=${1:-quick}
cd /verif
ls sa/rules/c[0-9][0-9].py | sed 's/.*\/c\([0-9]*\)\.py/C\1/' | xargs -P 8 -I{} sh -c "./check {} --tier $tier > /tmp/verif-run-{}.log 2>&1; echo \"{} exit=\$? \$(tail -1 /tmp/verif-run-{}.log)\"" | sort
python3-vt - <<'PY'
import json, jsonschema, glob
jsonschema.validate(json.load(open('/verif/MANIFEST.json')), json.load(open('/root/.vp/MANIFEST.schema.json')))
sch = json.load(open('/root/.vp/EVIDENCE.schema.json'))
bad = 0
for f in sorted(glob.glob('/verif/evidence/*.json')):
    try:
        jsonschema.validate(json.load(open(f)), sch)
    except Exception as e:
        bad += 1; print("EVIDENCE INVALID", f, str(e)[:200])
print("manifest ok; evidence files:", len(glob.glob('/verif/evidence/*.json')), "invalid:", bad)
PY
