#!/venv/bin/python
"""E8 self-test: apply one textual edit per variant to a scratch copy of /repo/src and run
the named checks on it (never executing funtracks).  must-fire variants have to be reported
with the expected rule; must-stay-silent variants have to leave the check silent.

usage: selftest.py [--prop Cnn] [--jobs N] [--only id-substring]
exit 0 iff every applicable variant behaved as expected.
"""
import argparse, json, os, re, shutil, subprocess, sys, tempfile
from concurrent.futures import ThreadPoolExecutor
from pathlib import Path

VERIF = Path(__file__).resolve().parent.parent
REPO = Path(os.environ.get("VERIF_REPO", "/repo"))


def run_variant(v):
    tmp = Path(tempfile.mkdtemp(prefix="verif-selftest-"))
    try:
        shutil.copytree(REPO / "src", tmp / "repo" / "src")
        for ed in v["edits"]:
            f = tmp / "repo" / ed["file"]
            s = f.read_text()
            if ed["old"] not in s:
                return v, "skipped", f"anchor text not found in {ed['file']}"
            s = s.replace(ed["old"], ed["new"], ed.get("count", 1))
            f.write_text(s)
        # must still compile
        for ed in v["edits"]:
            r = subprocess.run(["/venv/bin/python", "-m", "py_compile", str(tmp / "repo" / ed["file"])], capture_output=True)
            if r.returncode:
                return v, "broken", "variant does not compile"
        out = {}
        for prop in v["props"]:
            env = dict(os.environ, VERIF_NO_EVIDENCE="1")
            r = subprocess.run([str(VERIF / "check"), prop, "--repo", str(tmp / "repo")], capture_output=True, text=True, env=env)
            rules = re.findall(r"^  rule (\S+) ", r.stdout, re.M)
            out[prop] = (r.returncode, sorted(set(rules)))
        return v, "ran", out
    finally:
        shutil.rmtree(tmp, ignore_errors=True)


def main():
    ap = argparse.ArgumentParser()
    ap.add_argument("--prop")
    ap.add_argument("--jobs", type=int, default=int(os.environ.get("VERIF_JOBS", "12")))
    ap.add_argument("--only")
    a = ap.parse_args()
    variants = []
    for f in sorted((VERIF / "selftest").glob("*.json")):
        variants += json.load(open(f))
    if a.prop:
        variants = [dict(v, props=[a.prop]) for v in variants if a.prop in v["props"]]
    if a.only:
        variants = [v for v in variants if a.only in v["id"]]
    bad = 0
    ran = 0
    with ThreadPoolExecutor(a.jobs) as ex:
        for v, status, out in ex.map(run_variant, variants):
            if status != "ran":
                print(f"SELFTEST {v['id']}: {status} ({out})")
                if status == "broken":
                    bad += 1
                continue
            ran += 1
            for prop, (rc, rules) in out.items():
                if v["kind"] == "fire":
                    want = v.get("rules", {}).get(prop) or v.get("rule")
                    wants = [want] if isinstance(want, str) else (want or [])
                    ok = rc == 1 and (not wants or any(w in rules for w in wants))
                else:
                    ok = rc == 0
                print(f"SELFTEST {v['id']} [{prop}] {'ok' if ok else 'FAILED'}: exit={rc} rules={rules}" + ("" if ok else f" expected {'fire ' + str(v.get('rule') or v.get('rules')) if v['kind']=='fire' else 'silent'}"))
                bad += 0 if ok else 1
    print(f"SELFTEST summary: variants={len(variants)} ran={ran} failed={bad}")
    return 1 if bad else 0


if __name__ == "__main__":
    sys.exit(main())
