#!/venv/bin/python
"""Regenerate /verif/MANIFEST.json from the table below (kept next to the checks so that the
claims stay in step with what the rules decide)."""
import json
from pathlib import Path

VERIF = Path(__file__).resolve().parent.parent

COMMON_NOTE = (
    "Trusted base: Python's ast module, the program model / CFG / abstract interpreter under /verif/sa, and "
    "the frozen tables named in DESIGN.md section 8 (axioms, E6 dependency table, mutator and copy tables, trusted "
    "third-party list, reviewed exceptions). Nothing of funtracks is imported or executed."
)

CHECKS = {
    "C01": ("part", "4 C01",
            "structural rules over primitives, group inverse, user-action path summaries and history methods (ast + path summaries + sequence algebra); truthiness lints on captured ids / values; argument terms of inlined constructions",
            "Decides the structural skeleton of invertibility on every path: each primitive has an inverse building its dual on the same "
            "target, duality is an involution, prior values are captured before the edit and every captured value reaches the inverse, the "
            "group inverse reverses, every constructed sub-edit is recorded in order, annotators react to inverses, and undo/redo apply the "
            "right recorded inverse once; captured ids and attribute values are tested only with `is None` (0 / 0.0 / False survive capture), and "
            "the paint-driven action hands every primitive the pixels its caller already changed, _apply never rewrites the fields the inverse is built from, and inverse() has no write effect on the recorded action. Does not decide equality of recomputed values. Shared obligations added late: one history step per top-level action (R02.6), and no query of the data model answers from a memo that some writer forgets to drop (memo discipline)."),
    "C02": ("part", "4 C02",
            "who-may-write analysis + symbolic sequence algebra over the history methods + per-path registration counting",
            "Decides stack ownership, the per-call shape of add_new_action / undo / redo as sequence expressions over the entry stacks "
            "(pending redo inverses are moved in order, never discarded or reversed), the pointer's linear form and that every user action "
            "registers exactly once per top-level use, never when nested or refused, and that inverse() leaves the recorded step unchanged (it is inverted again by later undos). Does not decide the induction over all sequences. Also carries the inverse-duality obligations R01.1-R01.5 (the timeline is only as good as the inverse that is replayed)."),
    "C03": ("core", "4 C03",
            "abstract interpretation of user-action constructors with inlined primitives; degree/time facts at every add_edge; who-may-call",
            "Decides that every place an edge can enter a solution graph carries the merge, division and strict time-order guards on every "
            "condition-consistent path (axioms AX-FOREST / AX-TRACKPATH at action start), that add_edge has a single gate, that the "
            "neighbour query is strict and returns the time-nearest members (list ordered by time before a positional choice), and that undo/redo keep timeline order. Shared obligations: one history step per top-level action (R02.6), inverse() leaves the recorded step alone (R02.8), no positional read of the per-track lists (R06.11), memo discipline of the data-model queries (Tracks.get_time is what the time-order guard reads)."),
    "C04": ("part", "4 C04",
            "classification of structural steps from interpreter terms/degree facts, matched against relabel primitives on the same path",
            "Decides that no edit path changes segment adjacency without the relabel it needs and that the ids used are fresh or read in "
            "the current state (stale reads are reported), and that the track neighbours used for splice / bridge are the time-nearest members. Does not decide the iff over all node pairs. Shared obligations: history shape, R02.6, R02.8, memo discipline, and the tracklet key threaded from the feature dictionary into the annotator."),
    "C05": ("core", "4 C05",
            "structural-step classification matched against lineage arguments; id-truthiness lint; worklist-loop shape of the lineage walk",
            "Decides that every edit path whose own effect joins or splits components carries a lineage update of the moved side, that a new "
            "node adopts a linked neighbour's lineage, that optional ids are not tested by truthiness and that the downstream lineage walk "
            "cannot stop early, and that bulk id writes pair each node with a value built from the same collection. Three genuine defects are listed as known findings. Shared obligations: history shape, R02.6, R02.8, no wholesale replacement of a per-id entry and the neighbour contract (R05.8), lineage key threaded into the annotator (R05.9)."),
    "C06": ("part", "4 C06",
            "effect analysis (who-may-write) + pairing rules inside the track annotator + CFG dominance in the id issuer",
            "Decides cache ownership, write=>bookkeeping pairing on the same node collection, handler exhaustiveness, monotone maxima and "
            "the reserve-then-draw discipline of new node ids, remove-before-add order of bookkeeping moves (old id == new id), the time ordering behind the neighbour query, that no entry is replaced wholesale, that no query picks list members by position, and that the track and lineage lookups are updated independently of each other. Does not decide that the lookup queries equal a scan of the graph. Also: memo discipline of the queries, key names threaded into the annotator, and the special keys of the feature dictionary survive dump_json/from_json (R06.15). A lookup that is handed out is a plain dict: no defaultdict leaves its function (R06.16)."),
    "C07": ("part", "4 C07",
            "effect analysis for the single writer, who-may-call, argument provenance, path counting of the paint decomposition, guard shape",
            "Decides who writes the array with which value coupled to which node-set change, that a stroke decomposes into exactly one "
            "sub-edit per label recording the pixel group of its own node (the painted label: all groups), previous labels released before the painted label is claimed, that deletion happens only when no pixel remains, that pixels reach the recording primitive unchanged, and the history shape behind undo. Shared obligations: R02.6, R02.8, memo discipline (get_time decides which frame get_pixels scans)."),
    "C08": ("part", "4 C08",
            "trigger matrix (primitive effects x annotator handlers), mutate-then-notify ordering, spacing provenance at kernel calls, own-pixels lint of the region measurement classes",
            "Decides that every mask change of a surviving node triggers recomputation after the array was written, through one kernel with "
            "the scale-derived spacing on both paths, that update() leaves early only for accepted reasons, that compute() keeps no memo of earlier computations that deactivation does not clear, that the paint update shrinks overlapped nodes before the painted node is measured, and that the per-region measurement objects look at the frame only through `== own label`. No numerical equality. Also: memo discipline, the position key threaded into the annotator, enable_features(recompute) computes every requested key (R08.10), and regionprops is handed the frame unchanged - no crop with a pixel offset (R08.11)."),
    "C09": ("part", "4 C09",
            "trigger matrix + provenance analysis of the two frame indices at every IoU kernel call against the edge endpoints; label-value taint analysis of the kernel; def-use memo detection",
            "Decides triggers, ordering, that bulk and incremental paths hand the kernel the source's and the target's own frames for every "
            "edge they write (also for frame-skipping edges), that a value is matched on both labels, that the kernel does no arithmetic on label values in the image dtype, and that compute() is memoryless. Not the ratio's value. Also: memo discipline, enable_features(recompute) computes every requested key (R09.9), and the IoU write kernel reaches its catch-all loop on every path (R09.10, CFG must-pass)."),
    "C10": ("part", "4 C10",
            "provenance of the protected set, validate-then-change typestate, gating analysis of every annotator write",
            "Decides that all manageable features and time are protected (enabled or not), that unknown keys are rejected before any change, "
            "that disabled features are never written by update/compute, activation <=> registration, that enabling recomputes every key, and that activate/deactivate change the flags of the requested keys only. Also: removing a requested key cannot raise half-way for a key that is valid but not listed (R10.10), and the IoU write kernel writes every edge it is handed (R10.11)."),
    "C11": ("whole*", "4 C11",
            "typestate (clean -> dirty) abstract interpretation over every path of user-action and primitive constructors with inlined callees",
            "Decides that no explicit raise/assert, opaque raising callee or modelled graph lookup on an unvalidated id is reachable after "
            "the first state change (with an inductive step over loops on caller-supplied lists), and that registration/notification come last. Seven families of genuine defects are listed as known "
            "findings (13 keys). *Exceptions outside the modelled families are not decided. Also decides (effect analysis) that the queries an edit consults before it has validated write nothing (R11.4). No auto-inserting map is handed out as a lookup (R11.5): a refused edit that only looked must not insert a key."),
    "C12": ("part", "4 C12",
            "CFG dominance and must-pass-through (validation before construction, uniqueness before renumbering, each structural validator), error-discipline check of validator verdicts, id-truthiness lint",
            "Decides the rejection half: malformed sources cannot reach construction, no validator verdict is dropped, renumbering uses one "
            "mapping after the uniqueness check without silently losing links, renaming reads from the original container, source ids are never tested by truthiness, a structural validator can be skipped only for a reason about its own input, a builder's header is read on every path before build(), and columns of different dtypes are combined by promotion (never cast to the first column's dtype). Also: the missing-value mask travels with its values (R12.11), the names offered for mapping are the table's own (R12.12), integer ids are renumbered only because of the id column (R12.13)."),
    "C13": ("core", "4 C13",
            "fresh-destination / source-only-read discipline, time-index agreement, guard-shape of the relabel shortcut",
            "Decides the no-chaining mechanism (fresh zero destination, masks read only from the source at the written frame), the joint "
            "offset of graph and id array, that relabelling is skipped only for position-wise equal ids, that the seg-id lookup of a frame is built inside that frame's iteration, and that per-frame image files are stacked in numeric order. Not pixel equality. Also: the relabelled array is never cast back to a narrow dtype (R13.7) and a loaded seg-id property is not dropped before the relabel decision (R13.8)."),
    "C14": ("part", "4 C14",
            "writer/reader table agreement with constant folding of the axis tables; guard-shape of per-key id detection; id-truthiness lint",
            "Decides that writer and reader agree on attribute keys, registry schema, file names, axis order (ndim 3 and 4) and CSV keys, and "
            "that loaded ids are kept per key, that the missing-value mask of a loaded property survives renaming, that ids read back are not tested by truthiness, and that a rebuilt export graph keeps edge attributes. Does not decide value equality or third-party formats. Also: columns are combined by promotion (R14.10) and integer ids are not renumbered on the way back in (R14.11)."),
    "C15": ("core", "4 C15",
            "taint analysis of the selection parameter, identity of the closed set across outputs, loop shape / loop invariant of the closure",
            "Decides that the selection reaches rows, subgraph and mask only as its ancestor closure (one set everywhere, membership mask for "
            "pixels) and that the closure adds the ancestors of every selected node (nx.ancestors per node, a verified worklist helper, or a hand-written parent walk decided by its loop invariant), that facades forward the selection unchanged, and that the export modules keep no memo between exports. Also: the parent of a row is never decided by truthiness of the parent id (R15.6), and the membership mask uses np.isin without assume_unique / invert on pixel blocks."),
    "C16": ("whole*", "4 C16",
            "interprocedural write-effect analysis over access paths rooted at the tracks object (aliases, views, copies by depth)",
            "Decides that no read-only entry point (exporters, savers, ~50 query methods) can write storage reachable from the tracks object; "
            "order-only writes only in the id->nodes lists. *Third-party callees are trusted by list. No auto-inserting map is handed out as a lookup (R16.4): a read with a missing id must not write."),
    "C17": ("core", "4 C17",
            "linear-resource pairing of stores/removals with dominating-guard check; threading and order of the pipeline",
            "Decides consume<=>assign (including that every non-empty accumulator entry is flushed), no overwrite, threading and step order of the inference pipeline. Five genuine overwrite defects are "
            "listed as known findings; two unguarded stores are reviewed exceptions with witnesses. Also: the computed-feature table handed to the display-name steps shares no key with the standard keys (R17.8)."),
    "C18": ("part", "4 C18",
            "use-based reaching definitions on the CFG of every frame loop; sibling agreement of frame keys; accumulator discipline; provenance of the container / scale handed to the node extractors",
            "Decides the gap clause: no loop-carried source variable can survive an iteration un-refreshed; both siblings select node sets "
            "by (frame, frame+1); the IoU table accumulates; the IoU kernel does no arithmetic on labels in the image dtype; the builders hand the caller's own container and scale to the extractors (no crop, re-ordering or dropped scale), a given scale is replaced by unit spacing only when it is None, and a node's time attribute is the frame it is filed under. Not distances or IoU values. Also: building the graph only reads the caller's detections (R18.8, effect analysis) and the IoU pass writes every visited pair that is an edge (R18.9, CFG must-pass)."),
    "C19": ("part", "4 C19",
            "monotone-form check of the running offset, dtype discipline, fresh-destination per-frame masking of relabel-by-track, producer/consumer agreement on the time attribute",
            "Decides that the offset never decreases, that every path into the frame loop has widened the labels to 64 bit and the result stays wide, and that relabel-by-track "
            "writes per-frame source-only masks into a fresh zero array, one label per component, and that the time attribute it indexes the array with is, at its producers, the frame index of the caller's own (un-cropped) array. The running offset is initialised outside every loop (one offset across frames and hypotheses); building the candidate graph only reads the caller's label array (R19.6, effect analysis)."),
    "C20": ("whole", "4 C20",
            "per-path counting of signal emissions in user-action constructors (nested actions inlined) and the undo/redo facade; who-may-emit",
            "Decides the counting statement per path: 1 emission for a top-level success, 0 when nested or refused, emission last and "
            "carrying the created node; nobody else emits; undo/redo emit iff the history call succeeded."),
}


def main() -> None:
    props = [json.loads(x) for x in open(VERIF / "properties.jsonl")]
    checks = []
    for p in props:
        pid = p["id"]
        if pid not in CHECKS:
            continue
        scope, ref, tech, text = CHECKS[pid]
        checks.append({
            "property_id": pid,
            "quick_cmd": f"./check {pid} --tier quick",
            "thorough_cmd": f"./check {pid} --tier thorough",
            "evidence_file": f"/verif/evidence/{pid}.json",
            "replay_cmd_template": f"./check {pid} --replay {{path}}",
            "engine": "sa",
            "level_claimed": {
                "category": "other",
                "text": f"Static analysis (scope: {scope}). {text} A PASS means the structural clauses hold on every analysed path of the "
                        "current /repo source; it does not mean the behaviour was observed.",
                "design_ref": f"DESIGN.md section {ref}",
            },
            "level_note": COMMON_NOTE,
            "technique": "static analysis: " + tech,
        })
    m = {
        "version": 1,
        "setup_cmd": "true",
        "hooks": {
            "guard": "FUNTRACKS_VERIF",
            "enable": "none: static analysis reads /repo/src as it is; no instrumentation, no hook commits",
            "baseline_off_cmd": "cd /repo && /venv/bin/python -m pytest -q -p no:cacheprovider --timeout=900",
            "source_commits": [],
            "add_only": True,
        },
        "engines": [{
            "name": "sa", "path": "/verif/sa",
            "serves_properties": sorted(CHECKS),
            "kind_free_text": "repository-specific static analyser: program model, CFG + dataflow, condition-consistent path "
                              "enumeration, abstract interpreter with inlining (facts over value-numbered terms), interprocedural "
                              "write-effect analysis, trigger matrix, self-test harness",
        }],
        "checks": checks,
        "notes": "Every check is `./check <id>` (python, /venv/bin/python, ast only). quick: loop unrolling 1; thorough: unrolling 2 plus "
                 "the checker's self-test (must-fire / must-stay-silent variants analysed on scratch copies, never executed). "
                 "Known findings: /verif/known_findings.json (reproducers under /verif/findings). Fixes made: see `fixed:` entries there.",
        "not_applicable": [
            {"property_id": p["id"], "reason": "no check built"} for p in props if p["id"] not in CHECKS
        ],
    }
    (VERIF / "MANIFEST.json").write_text(json.dumps(m, indent=1))
    print(f"MANIFEST.json: {len(checks)} checks, {len(m['not_applicable'])} not applicable")


if __name__ == "__main__":
    main()
