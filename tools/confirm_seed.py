#!/venv/bin/python
"""Confirm seeded changes delivered by a sub-agent (out/patch_X.diff, demo_X.py, meta_X.json) in a private scratch
copy of /repo's HEAD: demo passes clean, demo fails with the patch, the whole suite passes with the patch.
Confirmed seeds are stored as /verif/seeded/<prop>-<suffix>/.   usage: confirm_seed.py <outdir> <prop> a:c b:d"""
import json, re, shutil, subprocess, sys, tempfile
from pathlib import Path


def sh(cmd, cwd, env=None):
    r = subprocess.run(cmd, cwd=cwd, capture_output=True, text=True, env=env)
    tail = [l for l in (r.stdout + r.stderr).splitlines() if l.strip()]
    return r.returncode, (tail[-1] if tail else "")


def main():
    out, prop = Path(sys.argv[1]), sys.argv[2]
    head = subprocess.run(["git", "-C", "/repo", "rev-parse", "--short", "HEAD"], capture_output=True, text=True).stdout.strip()
    for pair in sys.argv[3:]:
        src, dst = pair.split(":")
        patch, demo, meta = out / f"patch_{src}.diff", out / f"demo_{src}.py", out / f"meta_{src}.json"
        if not (patch.exists() and demo.exists()):
            print(prop, src, "MISSING files")
            continue
        tmp = Path(tempfile.mkdtemp(prefix="verif-confirm-"))
        try:
            wt = tmp / "wt"
            subprocess.run(["git", "-C", "/repo", "worktree", "add", "--detach", "-q", str(wt), "HEAD"], check=True)
            import os
            env = dict(os.environ, PYTHONPATH=str(wt / "src"))
            shutil.copy(demo, wt / "demo_seed.py")
            py = ["/venv/bin/python", "-m", "pytest", "-q", "-p", "no:cacheprovider"]
            c0, t0 = sh(py + ["demo_seed.py"], wt, env)
            a = subprocess.run(["git", "apply", str(patch.resolve())], cwd=wt, capture_output=True, text=True)
            if a.returncode:
                print(prop, src, "PATCH DOES NOT APPLY", a.stderr[:200])
                continue
            c1, t1 = sh(py + ["demo_seed.py"], wt, env)
            c2, t2 = sh(py + ["-n", "6", "tests"], wt, env)
            ok = c0 == 0 and c1 != 0 and c2 == 0 and "431 passed" in t2
            print(prop, src, "CONFIRMED" if ok else "REJECTED", "| clean:", t0, "| patched:", t1, "| suite:", t2)
            if ok:
                d = Path("/verif/seeded") / f"{prop}-{dst}"
                d.mkdir(parents=True, exist_ok=True)
                shutil.copy(patch, d / "patch.diff")
                shutil.copy(demo, d / "demo.py")
                m = json.loads(meta.read_text()) if meta.exists() else {}
                m = {"property": prop, "origin": f"fresh sub-agent given only the property record and a scratch worktree of HEAD ({head})",
                     **{k: v for k, v in m.items() if k in ("summary", "site", "needs_to_manifest")},
                     "confirmed_by_me": {"worktree": f"private scratch worktree at {head}", "demo_on_clean_tree": t0, "demo_with_patch": t1, "full_suite_with_patch": t2},
                     "detected_by": "see /verif/seeded/MATRIX.json (written by tools/seed_matrix.py)"}
                (d / "meta.json").write_text(json.dumps(m, indent=1))
        finally:
            subprocess.run(["git", "-C", "/repo", "worktree", "remove", "--force", str(tmp / "wt")], capture_output=True)
            shutil.rmtree(tmp, ignore_errors=True)


main()
