#!/venv/bin/python
"""Regenerate the seeded-change catch table of DESIGN.md (between the CATCH-TABLE markers) from
seeded/*/meta.json and seeded/MATRIX.json."""
import json, re
from pathlib import Path

V = Path("/verif")
M = json.load(open(V / "seeded" / "MATRIX.json"))
rows = ["| seed | site | what the change does (suite stays green) | caught by (rules) | also reported by |", "|---|---|---|---|---|"]
n_own = 0
for name in sorted(M):
    meta = json.load(open(V / "seeded" / name / "meta.json"))
    own = name.split("-")[0]
    checks = M[name].get("checks", {})
    own_rules = checks.get(own, {}).get("rules", []) if checks.get(own, {}).get("exit") == 1 else []
    others = {k: v["rules"] for k, v in checks.items() if k != own and v.get("exit") == 1 and v["rules"]}
    n_own += bool(own_rules)
    site = (meta.get("site") or "").replace("src/funtracks/", "")
    site = site.split(":")[-1] if ":" in site else site
    summ = re.sub(r"\s+", " ", meta.get("summary", "")).strip()
    summ = summ[:230] + ("…" if len(summ) > 230 else "")
    summ = summ.replace("|", "\\|")
    base = "" if M[name].get("base") == "current" else " (pre-fix file)"
    rows.append(f"| {name}{base} | `{site[:60]}` | {summ} | {own + ': ' + ', '.join(own_rules) if own_rules else '**missed**'} | {'; '.join(k + ': ' + ', '.join(v) for k, v in sorted(others.items())) or '-'} |")
txt = "\n".join(rows) + f"\n\n{n_own} of {len(M)} seeded changes are reported by the check of their own property.\n"
d = (V / "DESIGN.md").read_text()
a, b = "<!-- CATCH-TABLE-BEGIN -->", "<!-- CATCH-TABLE-END -->"
if a in d and b in d:
    d = d[: d.index(a) + len(a)] + "\n" + txt + d[d.index(b):]
    (V / "DESIGN.md").write_text(d)
    print("DESIGN.md updated:", n_own, "/", len(M))
else:
    print(txt)
