"""D-C17a-e: the inferred name map loses source columns."""
from funtracks.import_export._name_mapping import infer_edge_name_map, infer_node_name_map
from funtracks.import_export._utils import get_default_key_to_feature_mapping

feats = get_default_key_to_feature_mapping(3, display_name=False)


def used(m):
    out = []
    for v in m.values():
        out += v if isinstance(v, list) else [v]
    return out


def node(name, cols):
    m = infer_node_name_map(cols, ["time"], feats)
    lost = [c for c in cols if used(m).count(c) != 1]
    print(("REPRODUCED " if lost else "not reproduced ") + name, cols, "->", m, "| not used exactly once:", lost)


def edge(name, cols):
    m = infer_edge_name_map(cols, feats)
    lost = [c for c in cols if used(m).count(c) != 1]
    print(("REPRODUCED " if lost else "not reproduced ") + name, cols, "->", m, "| not used exactly once:", lost)


edge("D-C17a", ["iou", "IoU"])
node("D-C17b", ["time", "y", "x", "Area", "area2"])
node("D-C17c", ["time", "yy", "Y", "x"])
node("D-C17d", ["time", "y", "x", "Y"])
node("D-C17e", ["time", "y", "x", "pos"])
