import warnings

import networkx as nx
import numpy as np

warnings.simplefilter("ignore")
from funtracks.data_model import SolutionTracks  # noqa: E402


def forest(nodes, edges, seg=False, ndim=3):
    """nodes: {id: time}; edges: [(u, v)]"""
    g = nx.DiGraph()
    for n, t in nodes.items():
        g.add_node(n, time=t, pos=[float(n), float(n)])
    g.add_edges_from(edges)
    segm = None
    if seg:
        T = max(nodes.values()) + 1
        segm = np.zeros((T, 40, 40), dtype=np.uint64)
        for n, t in nodes.items():
            segm[t, 3 * n:3 * n + 3, 3 * n:3 * n + 3] = n
        for n in g.nodes:
            del g.nodes[n]["pos"]
    return SolutionTracks(g, segmentation=segm, ndim=ndim)


def snapshot(t):
    return (
        sorted(t.graph.nodes), sorted(t.graph.edges),
        {n: dict(t.graph.nodes[n]) for n in t.graph.nodes} if False else None,
        len(t.action_history.undo_stack),
        None if t.segmentation is None else t.segmentation.copy().tobytes(),
    )


def components_vs_lineage(t):
    comp = {}
    for i, c in enumerate(nx.weakly_connected_components(t.graph)):
        for n in c:
            comp[n] = i
    lin = {n: t.get_lineage_id(n) for n in t.graph.nodes}
    bad = []
    nodes = sorted(t.graph.nodes)
    for a in nodes:
        for b in nodes:
            if a < b and (comp[a] == comp[b]) != (lin[a] == lin[b]):
                bad.append((a, b))
    return bad, lin
