"""D-C11a-f: a refused user action has already changed the tracks."""
import numpy as np
from _util import forest, snapshot

from funtracks.user_actions import UserAddEdge, UserAddNode, UserDeleteNode, UserUpdateSegmentation


def attempt(name, t, fn):
    before = snapshot(t)
    try:
        fn()
        print(f"not reproduced {name}: no exception")
        return
    except Exception as e:  # noqa: BLE001
        after = snapshot(t)
        print(("REPRODUCED " if before != after else "not reproduced ") + name, type(e).__name__, "| edges before", before[1], "after", after[1], "| nodes", after[0])


# a: no position, node falls on a skip edge
t = forest({1: 0, 3: 2}, [(1, 3)])
attempt("D-C11a", t, lambda: UserAddNode(t, 7, {"time": 1, "track_id": t.get_track_id(1)}))
# b: forced add-edge: target has a parent, source already has two children
t = forest({1: 0, 2: 1, 3: 1, 4: 0, 5: 1}, [(1, 2), (1, 3), (4, 5)])
attempt("D-C11b", t, lambda: UserAddEdge(t, (1, 5), force=True))
# c: paint a new label over part of a node; the chosen track divides upstream
t = forest({1: 0, 2: 1, 3: 1, 4: 1}, [(1, 2), (1, 3)], seg=True)
px = (np.array([1, 1]), np.array([12, 12]), np.array([12, 13]))
t.segmentation[px] = 9


def paint_c():
    UserUpdateSegmentation(t, 9, [(px, 4)], current_track_id=t.get_track_id(1))


attempt("D-C11c", t, paint_c)
# d: strokes over two time points
t = forest({1: 0, 2: 1}, [(1, 2)], seg=True)
p0 = (np.array([0]), np.array([3]), np.array([3]))
p1 = (np.array([1]), np.array([6]), np.array([6]))
t.segmentation[p0] = 9
t.segmentation[p1] = 9


def paint_d():
    UserUpdateSegmentation(t, 9, [(p0, 1), (p1, 2)], current_track_id=5)


attempt("D-C11d", t, paint_d)
# e / f: pixels handed to tracks that have no segmentation
t = forest({1: 0, 2: 1, 3: 2}, [(1, 2), (2, 3)])
attempt("D-C11e", t, lambda: UserDeleteNode(t, 2, pixels=(np.array([1]), np.array([0]), np.array([0]))))
t = forest({1: 0, 3: 2}, [(1, 3)])
attempt("D-C11f", t, lambda: UserAddNode(t, 7, {"time": 1, "track_id": t.get_track_id(1), "pos": [1.0, 1.0]}, pixels=(np.array([1]), np.array([0]), np.array([0]))))
# g: a change list whose SECOND previous label is not a node (invalid argument): the first entry's edit is applied,
#    then the lookup for the unknown label raises; nothing is recorded.  The array itself is the caller's to restore,
#    so compare node attributes (the first node's area / position were already recomputed).
t = forest({1: 0, 2: 0}, [], seg=True)
q1 = (np.array([0]), np.array([3]), np.array([3]))      # one pixel of node 1
q2 = (np.array([0]), np.array([30]), np.array([30]))    # a pixel the caller claims was label 99
t.segmentation[q1] = 0
t.segmentation[q2] = 0


def attrs(tr):
    return {n: {k: (v.tolist() if hasattr(v, "tolist") else v) for k, v in tr.graph.nodes[n].items()} for n in tr.graph.nodes}


before_g = (attrs(t), len(t.action_history.undo_stack))
try:
    UserUpdateSegmentation(t, 0, [(q1, 1), (q2, 99)], current_track_id=1)
    print("not reproduced D-C11g: no exception")
except Exception as e:  # noqa: BLE001
    after_g = (attrs(t), len(t.action_history.undo_stack))
    changed = [n for n in before_g[0] if before_g[0][n] != after_g[0].get(n)]
    print(("REPRODUCED " if before_g != after_g else "not reproduced ") + "D-C11g", type(e).__name__, "| nodes whose attributes changed:", changed, "| history entries", after_g[1])
