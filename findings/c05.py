"""D-C05a/b/c: lineage ids stop labelling the connected components."""
from _util import components_vs_lineage, forest

from funtracks.user_actions import UserAddEdge, UserDeleteEdge, UserDeleteNode

# a: remove one edge of a division
t = forest({1: 0, 2: 1, 3: 2, 4: 2, 5: 3}, [(1, 2), (2, 3), (2, 4), (3, 5)])
UserDeleteEdge(t, (2, 3))
bad, lin = components_vs_lineage(t)
print("REPRODUCED D-C05a" if bad else "not reproduced D-C05a", bad[:3], lin)
# b: create a division by adding an edge to a node that already has a child
t = forest({1: 0, 2: 1, 8: 1, 9: 2}, [(1, 2), (8, 9)])
UserAddEdge(t, (1, 8))
bad, lin = components_vs_lineage(t)
print("REPRODUCED D-C05b" if bad else "not reproduced D-C05b", bad[:3], lin)
# c: delete a dividing node
t = forest({1: 0, 2: 1, 3: 2, 4: 2}, [(1, 2), (2, 3), (2, 4)])
UserDeleteNode(t, 2)
bad, lin = components_vs_lineage(t)
print("REPRODUCED D-C05c" if bad else "not reproduced D-C05c", bad[:3], lin)
