"""C18 - candidate graph = all detections plus all near pairs in consecutive frames (gap clause).

R18.1 no stale loop-carried source: in the loops over frames of the candidate-graph package a
      variable that is (re)assigned inside the loop from something other than itself and read
      in a later iteration must be reassigned on EVERY path through an iteration (`continue`
      paths included)
R18.2 sibling agreement: edge construction and IoU annotation select the two node sets of an
      iteration by the same keys (frame, frame + 1)
R18.3 the per-label IoU table accumulates: an inner table is created only when missing
"""

from __future__ import annotations

import ast

from ..cfg import build_cfg, loads, reaching_definitions, stores
from ..model import AnalysisError, Program, call_name, norm
from ..report import Report


def loop_nodes(cfg, header: int) -> set[int]:
    """CFG nodes of the loop body (reachable from the true edge without passing the header)."""
    body_entry = [s for s in cfg.succ(header) if cfg.g.edges[header, s].get("label") == "true"]
    seen, todo = set(), list(body_entry)
    while todo:
        x = todo.pop()
        if x in seen or x == header:
            continue
        seen.add(x)
        todo.extend(cfg.succ(x))
    # keep only nodes that can come back to the header (inside the loop)
    return {n for n in seen if cfg.reachable(n, header) or header in cfg.succ(n)}


def stale_sources(fn: ast.FunctionDef):
    cfg = build_cfg(fn)
    rd = reaching_definitions(cfg)
    out = []
    checked = 0
    for node in cfg.nodes.values():
        if node.kind != "for":
            continue
        header = node.id
        inside = loop_nodes(cfg, header)
        if not inside:
            continue
        defs_in: dict[str, list[int]] = {}
        for n in inside:
            a = cfg.nodes[n].ast
            if a is None:
                continue
            for v in stores(a):
                defs_in.setdefault(v, []).append(n)
        loop_targets = stores(cfg.nodes[header].ast)
        for v, dnodes in defs_in.items():
            if v in loop_targets:
                continue
            # accumulator?  every in-loop definition mentions the variable itself
            plain = []
            for n in dnodes:
                a = cfg.nodes[n].ast
                self_ref = isinstance(a, ast.AugAssign) or v in loads(a)
                guarded_update = False
                if not self_ref:
                    plain.append(n)
            if not plain or len(plain) != len(dnodes):
                continue
            # carried use: a read inside the loop reached by a definition that is not from this iteration
            carried_uses = []
            body_entry0 = [s for s in cfg.succ(header) if cfg.g.edges[header, s].get("label") == "true"]
            for n in inside | {header}:
                a = cfg.nodes[n].ast
                if a is None or v not in loads(a):
                    continue
                # a use-before-definition within one iteration: some way from the start of the body to the use passes no
                # definition of v in this iteration (then the value comes from an earlier iteration or from before the loop)
                if n == header or any(b == n or (b not in dnodes and cfg.reachable(b, n, avoiding=set(dnodes))) for b in body_entry0):
                    carried_uses.append(n)
            if not carried_uses:
                continue
            # a carried value that is only used after it was validated against the CURRENT loop variable is a cache with a
            # tag, not a stale source:  `if tag == frame: use(cached)`  (tag and cached value are carried together)
            lt = sorted(stores(cfg.nodes[header].ast))
            validated = True
            for n in carried_uses:
                okn = False
                for t in inside:
                    ta = cfg.nodes[t].ast
                    if cfg.nodes[t].kind != "test" or ta is None:
                        continue
                    from ..cfg import header_expr as _hx

                    tx = _hx(ta)
                    eqs = [c_ for c_ in ast.walk(tx) if isinstance(c_, ast.Compare) and len(c_.ops) == 1 and isinstance(c_.ops[0], ast.Eq)
                           and any(norm(x_) in lt for x_ in (c_.left, c_.comparators[0]))] if tx is not None else []
                    if not eqs:
                        continue
                    ts = [s_ for s_ in cfg.succ(t) if cfg.g.edges[t, s_].get("label") == "true"]
                    if n == t or any(s_ == n or cfg.dominates(s_, n) for s_ in ts):
                        okn = True
                validated = validated and okn
            if validated:
                continue
            checked += 1
            # is there a way through one iteration that skips every definition?
            body_entry = [s for s in cfg.succ(header) if cfg.g.edges[header, s].get("label") == "true"]
            avoid = set(dnodes)
            skip = any(
                (b not in avoid) and (b == header or cfg.reachable(b, header, avoiding=avoid) or header in cfg.succ(b))
                for b in body_entry
            )
            out.append((v, cfg.nodes[header].ast, [cfg.nodes[u].ast for u in carried_uses], skip, [cfg.nodes[d].ast for d in dnodes]))
    return out, checked


def run(P: Program, R: Report, tier: str) -> None:
    R.explanation = (
        "Use-based reaching definitions on the control-flow graph of every frame loop of the "
        "candidate-graph package: a loop-carried source variable must be redefined on every path "
        "through an iteration; plus agreement of the frame keys used by the sibling functions."
    )
    R.decides += ["frames without detections cannot leave a stale 'previous frame' node set or KD-tree behind (no link across a gap, no missing link after it)",
                  "the builders hand the caller's own container and scale to the extractors (no crop, no re-ordering, no dropped scale); a node's time attribute is the frame it is filed under"]
    R.not_decided += ["the distance predicate, centroids and IoU values (runtime values)"]
    fns = [f for f in P.functions.values() if ".candidate_graph." in f.qname and f.parent is None]
    R.floor("R18.1", "candidate-graph functions", len(fns), 6)
    n_loops = 0
    for f in fns:
        n_loops += sum(1 for x in ast.walk(f.node) if isinstance(x, ast.For))
        res, checked = stale_sources(f.node)
        for v, loop, uses, skip, defs in res:
            R.check(not skip, "R18.1", f, uses[0], f"{f.short}: loop-carried `{v}` is refreshed on every path through an iteration",
                    f"`{v}` is read at line {getattr(uses[0], 'lineno', '?')} with a value from an earlier iteration, but an iteration can end "
                    f"(e.g. through `continue`) without reaching its reassignment at line {getattr(defs[0], 'lineno', '?')}: after a frame gap it describes the wrong frame",
                    via="reaching-definitions")
        if not res:
            R.ok("R18.1", f, f.node, f"{f.short}: no loop-carried source variable", via="reaching-definitions")
    R.floor("R18.1", "loops analysed", n_loops, 6)
    # ---- R18.2 sibling agreement
    from ..resolve import Resolver

    def frame_keys(name: str):
        f = P.func_named(name)
        rs = Resolver(P, f)
        keys = set()
        for s_ in ast.walk(f.node):
            if isinstance(s_, ast.Subscript) and norm(s_.value) == "node_frame_dict":
                keys.add(rs.text(s_.slice))
        loopvars = [lp.target.id for lp in ast.walk(f.node) if isinstance(lp, ast.For) and isinstance(lp.target, ast.Name) and "node_frame_dict" in rs.text(lp.iter)]
        return f, rs, keys, loopvars

    for fname in ("add_cand_edges", "add_iou"):
        f, rs, keys, loopvars = frame_keys(fname)
        if not loopvars:
            R.undecided("R18.2", f, f.node, f"{fname} loops over the frames of node_frame_dict", "loop not recognised")
            continue
        v = loopvars[0]
        R.check({v, f"{v} + 1"} <= keys, "R18.2", f, f.node, f"{fname} takes its two node sets from node_frame_dict[{v}] and [{v} + 1]",
                f"keys used: {sorted(keys)}", via="sibling-agreement")
        # the iteration body is skipped when the following frame has no detections
        guards = []
        for s_ in ast.walk(f.node):
            if isinstance(s_, ast.If):
                t = rs.text(s_.test)
                if "node_frame_dict" in t and f"{v} + 1" in t:
                    guards.append(t)
        R.check(bool(guards), "R18.2", f, f.node, f"{fname} handles a frame whose successor frame has no detections", "", via="syntax")
    # ---- R18.3 accumulation of the IoU table
    g = P.func_named("_get_iou_dict")
    tbl = None
    for s_ in ast.walk(g.node):
        if isinstance(s_, ast.Return) and isinstance(s_.value, ast.Name):
            tbl = s_.value.id
    if tbl is None:
        raise AnalysisError("_get_iou_dict: returned table not found")
    bulk = [c for c in ast.walk(g.node) if isinstance(c, ast.Call) and isinstance(c.func, ast.Attribute) and norm(c.func.value) == tbl and c.func.attr in ("update", "__setitem__")]
    R.check(not bulk, "R18.3", g, bulk[0] if bulk else g.node, "_get_iou_dict never replaces a label's inner table wholesale",
            "`update` overwrites the inner table of a label that overlaps several labels: all but one overlap are lost", via="accumulator")
    creates = [s_ for s_ in ast.walk(g.node) if isinstance(s_, ast.Assign) and isinstance(s_.targets[0], ast.Subscript) and norm(s_.targets[0].value) == tbl]
    from .util import guards_of

    for s_ in creates:
        key = norm(s_.targets[0].slice)
        gs = [x.replace(" ", "") for x in guards_of(g, s_)]
        guarded = f"{key}notin{tbl}".replace(" ", "") in gs
        empty = isinstance(s_.value, ast.Dict) and not s_.value.keys
        R.check(guarded and empty, "R18.3", g, s_, "_get_iou_dict creates the inner table of a label only when it is missing",
                f"`{norm(s_)}` can replace an existing inner table", via="accumulator")
    inner = [s_ for s_ in ast.walk(g.node) if isinstance(s_, ast.Assign) and isinstance(s_.targets[0], ast.Subscript) and (
        (isinstance(s_.targets[0].value, ast.Subscript) and norm(s_.targets[0].value.value) == tbl)
        or (isinstance(s_.targets[0].value, ast.Call) and call_name(s_.targets[0].value) == "setdefault" and norm(s_.targets[0].value.func.value) == tbl))]
    R.check(bool(inner), "R18.3", g, g.node, "_get_iou_dict adds overlaps entry by entry", "", via="accumulator")
    # ---- R18.4 the IoU kernel of the candidate graph treats labels as names (no arithmetic in the image dtype)
    from .labels import labels_are_names

    ks = [f for f in P.find_funcs("_compute_ious") if ".candidate_graph." in f.qname and f.parent is None]
    if len(ks) != 1:
        raise AnalysisError(f"IoU kernel of the candidate-graph package: found {len(ks)}")
    labels_are_names(P, R, ks[0], "R18.4")
    callers_container(P, R, "R18.5")
    scale_default_only_for_none(P, R, "R18.6")
    time_is_frame_index(P, R, "R18.7")
    callers_container_untouched(P, R, "R18.8")
    from .annot import nested_total_write

    nested_total_write(P, R, P.func_named("add_iou"), "R18.9")


# ---------------------------------------------------------------------------------------------------------------------
# R18.5 - R18.7: the graph is about the CALLER's container (also used as R19.4 / R19.5)

def _builders(P: Program):
    """(builder, call, extractor) for every top-level function of the candidate-graph package that hands a parameter of
    its own to a `nodes_from_*` extractor of the package"""
    out = []
    for f in P.functions.values():
        if ".candidate_graph." not in f.qname or f.parent is not None or f.name.startswith("nodes_from_"):
            continue
        for c in ast.walk(f.node):
            if isinstance(c, ast.Call) and isinstance(c.func, ast.Name) and c.func.id.startswith("nodes_from_"):
                g = P.functions.get(P.resolve_name(f.module, c.func.id) or "")
                if g is not None:
                    out.append((f, c, g))
    return out


def callers_container(P: Program, R: Report, rule: str, only_seg: bool = False) -> None:
    """The builders hand their caller's container itself to the node extractor (and to the IoU pass): node ids are row
    indices of the caller's list, node times are frame indices of the caller's array; cropping / sorting / filtering
    before extraction gives a self-consistent graph about another container."""
    from .provenance import bound_args, classify

    bs = _builders(P)
    if not bs:
        R.undecided(rule, "candidate_graph", "", "builders hand the caller's container to the node extractor", "no builder found")
        return
    for f, c, g in bs:
        ba = bound_args(g, c)
        gparams = [p for p in g.params]
        if not gparams:
            continue
        first = gparams[0]
        if only_seg and "seg" not in first:
            continue
        todo = [(first, "container")]
        if not only_seg and "scale" in gparams:
            todo.append(("scale", "scale"))
        for pname, what in todo:
            a = ba.get(pname)
            label = f"{f.name}: the caller's {what} reaches {g.name} unchanged"
            if a is None:
                if what == "scale" and "scale" in f.params:
                    R.fail(rule, f, c, label, f"`{norm(c)[:80]}` does not pass the scale on: positions (and areas) stay in pixel units while the maximum distance is in world units")
                continue
            v, why = classify(P, f, a, c.lineno)
            if v == "ident":
                R.ok(rule, f, c, label, f"`{norm(a)}` is the parameter `{why}`", via="provenance")
            elif v == "bad":
                R.fail(rule, f, c, label, f"{why}: the graph describes another {what} than the one the caller holds (node ids / times are indices into the handed-on one)")
            else:
                R.undecided(rule, f, c, label, why)
        # a later pass over the same container (IoU) gets the same object as the extractor
        for c2 in ast.walk(f.node):
            if isinstance(c2, ast.Call) and isinstance(c2.func, ast.Name) and c2 is not c and not c2.func.id.startswith("nodes_from_"):
                h = P.functions.get(P.resolve_name(f.module, c2.func.id) or "")
                if h is None or ".candidate_graph." not in h.qname:
                    continue
                for hp, a2 in bound_args(h, c2).items():
                    if "seg" in hp:
                        v1 = classify(P, f, ba.get(first), c.lineno) if ba.get(first) is not None else ("unknown", "")
                        v2 = classify(P, f, a2, c2.lineno)
                        label = f"{f.name}: {h.name} reads the same array the nodes were extracted from"
                        if v2[0] == "bad":
                            R.fail(rule, f, c2, label, v2[1])
                        elif v1[0] == "ident" and v2[0] == "ident":
                            R.check(v1[1] == v2[1], rule, f, c2, label, f"extractor got `{v1[1]}`, {h.name} gets `{v2[1]}`", via="provenance")
                        else:
                            R.undecided(rule, f, c2, label, v2[1] or v1[1])


def scale_default_only_for_none(P: Program, R: Report, rule: str) -> None:
    """`scale=None` means unit spacing.  A scale the caller DID give is never replaced: a re-binding of the parameter
    is reached only under `scale is None`."""
    from .util import guards_of

    n = 0
    for g in P.functions.values():
        if ".candidate_graph." not in g.qname or g.parent is not None or "scale" not in g.params:
            continue
        for s_ in ast.walk(g.node):
            tg = s_.targets if isinstance(s_, ast.Assign) else [s_.target] if isinstance(s_, (ast.AugAssign, ast.AnnAssign)) and getattr(s_, "value", None) is not None else []
            if not any(isinstance(t, ast.Name) and t.id == "scale" for t in tg):
                continue
            n += 1
            gs = [x.replace(" ", "") for x in guards_of(g, s_)]
            label = f"{g.name}: a scale given by the caller is never replaced"
            val = s_.value
            mentions = any(isinstance(x, ast.Name) and x.id == "scale" for x in ast.walk(val))
            if gs == ["scaleisNone"] or gs == ["not(scaleisnotNone)"]:
                R.ok(rule, g, s_, label, "re-bound only under `scale is None`", via="dominating-guard")
            elif mentions and isinstance(val, ast.Call) and isinstance(val.func, ast.Name) and P.functions.get(P.resolve_name(g.module, val.func.id) or "") is not None:
                # `scale = _resolve(scale, ..)`: the helper returns its parameter, or a default under `<param> is None` only
                h = P.functions[P.resolve_name(g.module, val.func.id)]
                from .provenance import bound_args

                hp = next((p_ for p_, a_ in bound_args(h, val).items() if norm(a_) == "scale"), None)
                verdict = "ok" if hp else "unknown"
                why = ""
                for r_ in [x for x in ast.walk(h.node) if isinstance(x, ast.Return) and x.value is not None] if hp else []:
                    if norm(r_.value) in (hp, f"list({hp})", f"tuple({hp})"):
                        continue
                    hg = [x.replace(" ", "") for x in guards_of(h, r_)]
                    if hg in ([f"{hp}isNone"], [f"not({hp}isnotNone)"]):
                        continue
                    if isinstance(r_.value, ast.IfExp) and norm(r_.value.test).replace(" ", "") in (f"{hp}isNone", f"{hp}isnotNone"):
                        continue
                    if not any(f"{hp}isNone" in x for x in hg) and not any(isinstance(x, ast.Name) and x.id == hp for x in ast.walk(r_.value)):
                        verdict, why = "bad", f"{h.name} returns `{norm(r_.value)[:40]}` under {hg or 'no condition'}"
                    elif verdict != "bad":
                        verdict, why = "unknown", f"{h.name}: `return {norm(r_.value)[:40]}` under {hg}"
                if verdict == "ok":
                    R.ok(rule, g, s_, label, f"{h.name} hands the given scale back and substitutes the default only for None", via="dominating-guard")
                elif verdict == "bad":
                    R.fail(rule, g, s_, label, why + ": a non-None scale is thrown away - positions and areas stay in pixel units")
                else:
                    R.undecided(rule, g, s_, label, why or "helper not recognised")
            elif isinstance(val, ast.IfExp) and norm(val.test).replace(" ", "") in ("scaleisNone", "scaleisnotNone"):
                R.ok(rule, g, s_, label, "default chosen by `scale is None`", via="dominating-guard")
            elif mentions:
                from .provenance import classify

                v_, why_ = classify(P, g, val, s_.lineno)
                if v_ == "ident":
                    R.ok(rule, g, s_, label, f"`{norm(val)[:40]}` keeps the given scale", via="provenance")
                else:
                    R.undecided(rule, g, s_, label, why_)
            elif not any("scaleisNone" in x or "notscale" in x for x in gs) or any("or" in x.replace("scaleisNone", "") and "scaleisNone" in x for x in gs):
                R.fail(rule, g, s_, label, f"`{norm(s_)[:70]}` runs under {gs or 'no condition'}: a non-None scale (for example an isotropic, non-unit pixel size) is "
                       "thrown away - positions and areas stay in pixel units, and are compared with a maximum distance in world units")
            else:
                R.undecided(rule, g, s_, label, f"guards {gs} not recognised")
        # the per-frame measurement receives the spatial part of the scale
        for c in ast.walk(g.node):
            if isinstance(c, ast.Call) and (call_name(c) or "").startswith("regionprops"):
                sp = next((k.value for k in c.keywords if k.arg == "spacing"), None)
                label = f"{g.name}: centroids and areas are measured with the spatial part of the scale"
                if sp is None:
                    R.fail(rule, g, c, label, f"`{norm(c)[:70]}` has no spacing: centroids and areas are in pixel units")
                else:
                    from ..resolve import Resolver

                    t = Resolver(P, g).text(sp).replace(" ", "")
                    if "scale[1:]" in t:
                        R.ok(rule, g, c, label, f"spacing = `{t[:50]}`", via="dataflow")
                    elif "scale" not in t:
                        R.fail(rule, g, c, label, f"spacing `{t[:50]}` does not come from the scale")
                    else:
                        R.undecided(rule, g, c, label, f"spacing `{t[:50]}` not recognised")
    if n == 0:
        R.ok(rule, "candidate_graph", "", "no extractor re-binds its scale parameter", via="syntax")


def time_is_frame_index(P: Program, R: Report, rule: str, only_seg: bool = False) -> None:
    """A node's time attribute is the key under which it is filed in node_frame_dict (edges are built between the
    dict's keys t and t + 1, consumers read the attribute); for the segmentation extractor both are the index of the
    frame in the caller's array - the relabelling utility indexes the array with it."""
    from ..resolve import Resolver

    for g in P.functions.values():
        if ".candidate_graph." not in g.qname or g.parent is not None or not g.name.startswith("nodes_from_"):
            continue
        if only_seg and "seg" not in g.params[0]:
            continue
        rs = Resolver(P, g)
        # the time attribute
        tvals = []
        for d in ast.walk(g.node):
            if isinstance(d, ast.Dict):
                for k, v in zip(d.keys, d.values, strict=True):
                    if k is not None and rs.text(k).strip("'\"") in ("time", "NodeAttr.TIME.value"):
                        tvals.append((d, v))
            if isinstance(d, ast.Assign) and isinstance(d.targets[0], ast.Subscript) and rs.text(d.targets[0].slice).strip("'\"") in ("time", "NodeAttr.TIME.value"):
                tvals.append((d, d.value))
            if isinstance(d, ast.Call) and call_name(d) == "add_node":
                for k in d.keywords:
                    if k.arg == "time":
                        tvals.append((d, k.value))
        keys = []
        for s_ in ast.walk(g.node):
            if isinstance(s_, ast.Subscript) and isinstance(s_.ctx, ast.Store) and norm(s_.value) == "node_frame_dict":
                keys.append(s_.slice)
            if isinstance(s_, ast.Call) and isinstance(s_.func, ast.Attribute) and s_.func.attr == "setdefault" and norm(s_.func.value) == "node_frame_dict" and s_.args:
                keys.append(s_.args[0])
        label = f"{g.name}: a node's time attribute is the frame it is filed under"
        if not tvals or not keys:
            R.undecided(rule, g, g.node, label, "time attribute or frame dictionary write not found")
            continue
        for d, v in tvals:
            tv = norm(v)
            kt = {norm(k) for k in keys}
            if kt == {tv}:
                R.ok(rule, g, d, label, f"both are `{tv}`", via="sibling-agreement")
            elif isinstance(v, ast.BinOp) and any(norm(x) in kt for x in ast.walk(v)):
                R.fail(rule, g, d, label, f"time attribute is `{tv}` but the node is filed under `{sorted(kt)[0]}`: consumers that index the array (or the frame "
                       "dictionary) with the attribute look into another frame")
            else:
                R.undecided(rule, g, d, label, f"attribute `{tv}`, keys {sorted(kt)}")
        if "seg" in g.params[0]:
            # the frame index: loop variable of range(len(seg)) / range(seg.shape[0]) / enumerate(seg), and the frame measured is seg[t]
            seg = g.params[0]
            lv = None
            for lp in ast.walk(g.node):
                if isinstance(lp, ast.For):
                    it = norm(lp.iter).replace("tqdm(", "")
                    if isinstance(lp.target, ast.Name) and (f"range(len({seg}))" in it or f"range({seg}.shape[0])" in it):
                        lv = lp.target.id
                    elif isinstance(lp.target, ast.Tuple) and f"enumerate({seg}" in it and "start" not in it and isinstance(lp.target.elts[0], ast.Name):
                        lv = lp.target.elts[0].id
            label = f"{g.name}: the time attribute is the index of the frame in the caller's array"
            if lv is None:
                R.undecided(rule, g, g.node, label, "frame loop not recognised")
                continue
            for d, v in tvals:
                tv = rs.text(v)
                if tv in (lv, f"int({lv})"):
                    R.ok(rule, g, d, label, f"`{tv}` is the loop variable of the frame loop", via="dataflow")
                elif isinstance(v, ast.BinOp) or (isinstance(rs.expand(v), ast.BinOp)):
                    R.fail(rule, g, d, label, f"time is `{tv}`, not the frame index `{lv}`: relabel_segmentation_with_track_id and the IoU pass index the array with it")
                else:
                    R.undecided(rule, g, d, label, f"time is `{tv}`")


def callers_container_untouched(P: Program, R: Report, rule: str) -> None:
    """Building a candidate graph reads the detections; it does not change the caller's array or list.  A parameter that
    is re-bound to `np.asarray(param)` is still the caller's array whenever no conversion was needed (same dtype), so an
    in-place `*=` on it rescales the caller's detections - a second call on the same array sees them scaled twice."""
    from ..effects import Effects

    E = Effects(P)
    n = 0
    for f in P.functions.values():
        if ".candidate_graph." not in f.qname or f.parent is not None or not f.params:
            continue
        for p_ in f.params:
            if not any(k in p_ for k in ("seg", "points", "frame")):
                continue
            n += 1
            eff = [(pa, w) for pa, k, w in E.effects_on(f, p_) if k == "content"]
            label = f"{f.short}: the caller's `{p_}` is only read"
            if eff:
                pa, w = eff[0]
                R.fail(rule, f, w, label, f"`{p_}{''.join('.' + x for x in pa)}` is written at {w}: the caller's detections are changed by building the graph "
                       "(an alias through np.asarray / a view is still the caller's storage)")
            else:
                R.ok(rule, f, f.node, label, via="effect-analysis")
    R.floor(rule, "container parameters of the candidate-graph package", n, 4)
