"""C18 - candidate graph = all detections plus all near pairs in consecutive frames (gap clause).

R18.1 no stale loop-carried source: in the loops over frames of the candidate-graph package a
      variable that is (re)assigned inside the loop from something other than itself and read
      in a later iteration must be reassigned on EVERY path through an iteration (`continue`
      paths included)
R18.2 sibling agreement: edge construction and IoU annotation select the two node sets of an
      iteration by the same keys (frame, frame + 1)
R18.3 the per-label IoU table accumulates: an inner table is created only when missing
"""

from __future__ import annotations

import ast

from ..cfg import build_cfg, loads, reaching_definitions, stores
from ..model import AnalysisError, Program, call_name, norm
from ..report import Report


def loop_nodes(cfg, header: int) -> set[int]:
    """CFG nodes of the loop body (reachable from the true edge without passing the header)."""
    body_entry = [s for s in cfg.succ(header) if cfg.g.edges[header, s].get("label") == "true"]
    seen, todo = set(), list(body_entry)
    while todo:
        x = todo.pop()
        if x in seen or x == header:
            continue
        seen.add(x)
        todo.extend(cfg.succ(x))
    # keep only nodes that can come back to the header (inside the loop)
    return {n for n in seen if cfg.reachable(n, header) or header in cfg.succ(n)}


def stale_sources(fn: ast.FunctionDef):
    cfg = build_cfg(fn)
    rd = reaching_definitions(cfg)
    out = []
    checked = 0
    for node in cfg.nodes.values():
        if node.kind != "for":
            continue
        header = node.id
        inside = loop_nodes(cfg, header)
        if not inside:
            continue
        defs_in: dict[str, list[int]] = {}
        for n in inside:
            a = cfg.nodes[n].ast
            if a is None:
                continue
            for v in stores(a):
                defs_in.setdefault(v, []).append(n)
        loop_targets = stores(cfg.nodes[header].ast)
        for v, dnodes in defs_in.items():
            if v in loop_targets:
                continue
            # accumulator?  every in-loop definition mentions the variable itself
            plain = []
            for n in dnodes:
                a = cfg.nodes[n].ast
                self_ref = isinstance(a, ast.AugAssign) or v in loads(a)
                guarded_update = False
                if not self_ref:
                    plain.append(n)
            if not plain or len(plain) != len(dnodes):
                continue
            # carried use: a read inside the loop reached by a definition that is not from this iteration
            carried_uses = []
            for n in inside | {header}:
                a = cfg.nodes[n].ast
                if a is None or v not in loads(a):
                    continue
                reach = rd[n].get(v, set())
                # definitions reaching through the back edge or from before the loop
                if any(d not in inside for d in reach) or any(
                    d in inside and cfg.reachable(d, header, avoiding=set()) and not cfg.dominates(d, n) for d in reach
                ):
                    carried_uses.append(n)
            if not carried_uses:
                continue
            checked += 1
            # is there a way through one iteration that skips every definition?
            body_entry = [s for s in cfg.succ(header) if cfg.g.edges[header, s].get("label") == "true"]
            avoid = set(dnodes)
            skip = any(
                (b not in avoid) and (b == header or cfg.reachable(b, header, avoiding=avoid) or header in cfg.succ(b))
                for b in body_entry
            )
            out.append((v, cfg.nodes[header].ast, [cfg.nodes[u].ast for u in carried_uses], skip, [cfg.nodes[d].ast for d in dnodes]))
    return out, checked


def run(P: Program, R: Report, tier: str) -> None:
    R.explanation = (
        "Use-based reaching definitions on the control-flow graph of every frame loop of the "
        "candidate-graph package: a loop-carried source variable must be redefined on every path "
        "through an iteration; plus agreement of the frame keys used by the sibling functions."
    )
    R.decides += ["frames without detections cannot leave a stale 'previous frame' node set or KD-tree behind (no link across a gap, no missing link after it)"]
    R.not_decided += ["the distance predicate, centroids and IoU values (runtime values)"]
    fns = [f for f in P.functions.values() if ".candidate_graph." in f.qname and f.parent is None]
    R.floor("R18.1", "candidate-graph functions", len(fns), 6)
    n_loops = 0
    for f in fns:
        n_loops += sum(1 for x in ast.walk(f.node) if isinstance(x, ast.For))
        res, checked = stale_sources(f.node)
        for v, loop, uses, skip, defs in res:
            R.check(not skip, "R18.1", f, uses[0], f"{f.short}: loop-carried `{v}` is refreshed on every path through an iteration",
                    f"`{v}` is read at line {getattr(uses[0], 'lineno', '?')} with a value from an earlier iteration, but an iteration can end "
                    f"(e.g. through `continue`) without reaching its reassignment at line {getattr(defs[0], 'lineno', '?')}: after a frame gap it describes the wrong frame",
                    via="reaching-definitions")
        if not res:
            R.ok("R18.1", f, f.node, f"{f.short}: no loop-carried source variable", via="reaching-definitions")
    R.floor("R18.1", "loops analysed", n_loops, 6)
    # ---- R18.2 sibling agreement
    def frame_keys(name: str):
        f = P.func_named(name)
        keys = set()
        for s in ast.walk(f.node):
            if isinstance(s, ast.Subscript) and norm(s.value) == "node_frame_dict":
                keys.add(norm(s.slice))
        return f, keys

    f1, k1 = frame_keys("add_cand_edges")
    f2, k2 = frame_keys("add_iou")
    k1b = {k for k in k1 if "frame" in k}
    R.check({"frame", "frame + 1"} <= k1b, "R18.2", f1, f1.node, "add_cand_edges takes its two node sets from node_frame_dict[frame] and [frame + 1]",
            f"keys used: {sorted(k1)}", via="sibling-agreement")
    R.check({"frame", "frame + 1"} <= k2, "R18.2", f2, f2.node, "add_iou takes its two node sets from node_frame_dict[frame] and [frame + 1]",
            f"keys used: {sorted(k2)}", via="sibling-agreement")
    for f in (f1, f2):
        guard = any(isinstance(s, ast.If) and "frame + 1 not in node_frame_dict" in norm(s.test) and isinstance(s.body[0], ast.Continue) for s in ast.walk(f.node))
        R.check(guard, "R18.2", f, f.node, f"{f.short} skips a frame whose successor frame has no detections", "", via="syntax")
    # ---- R18.3 accumulation of the IoU table
    g = P.func_named("_get_iou_dict")
    tbl = None
    for s in ast.walk(g.node):
        if isinstance(s, ast.Return) and isinstance(s.value, ast.Name):
            tbl = s.value.id
    if tbl is None:
        raise AnalysisError("_get_iou_dict: returned table not found")
    creates = [s for s in ast.walk(g.node) if isinstance(s, ast.Assign) and isinstance(s.targets[0], ast.Subscript) and norm(s.targets[0].value) == tbl]
    bulk = [c for c in ast.walk(g.node) if isinstance(c, ast.Call) and isinstance(c.func, ast.Attribute) and norm(c.func.value) == tbl and c.func.attr in ("update", "__setitem__")]
    R.check(not bulk, "R18.3", g, bulk[0] if bulk else g.node, "_get_iou_dict never replaces a label's inner table wholesale",
            "`update` overwrites the inner table of a label that overlaps several labels: all but one overlap are lost", via="accumulator")
    for s in creates:
        key = norm(s.targets[0].slice)
        guarded = any(isinstance(i, ast.If) and s in i.body and norm(i.test) == f"{key} not in {tbl}" for i in ast.walk(g.node))
        empty = isinstance(s.value, ast.Dict) and not s.value.keys
        R.check(guarded and empty, "R18.3", g, s, f"_get_iou_dict creates the inner table of `{key}` only when it is missing",
                f"`{norm(s)}` can replace an existing inner table", via="accumulator")
    inner = [s for s in ast.walk(g.node) if isinstance(s, ast.Assign) and isinstance(s.targets[0], ast.Subscript) and isinstance(s.targets[0].value, ast.Subscript) and norm(s.targets[0].value.value) == tbl]
    R.check(bool(inner), "R18.3", g, g.node, "_get_iou_dict adds overlaps entry by entry", "", via="accumulator")
