"""C18 - candidate graph = all detections plus all near pairs in consecutive frames (gap clause).

R18.1 no stale loop-carried source: in the loops over frames of the candidate-graph package a
      variable that is (re)assigned inside the loop from something other than itself and read
      in a later iteration must be reassigned on EVERY path through an iteration (`continue`
      paths included)
R18.2 sibling agreement: edge construction and IoU annotation select the two node sets of an
      iteration by the same keys (frame, frame + 1)
R18.3 the per-label IoU table accumulates: an inner table is created only when missing
"""

from __future__ import annotations

import ast

from ..cfg import build_cfg, loads, reaching_definitions, stores
from ..model import AnalysisError, Program, call_name, norm
from ..report import Report


def loop_nodes(cfg, header: int) -> set[int]:
    """CFG nodes of the loop body (reachable from the true edge without passing the header)."""
    body_entry = [s for s in cfg.succ(header) if cfg.g.edges[header, s].get("label") == "true"]
    seen, todo = set(), list(body_entry)
    while todo:
        x = todo.pop()
        if x in seen or x == header:
            continue
        seen.add(x)
        todo.extend(cfg.succ(x))
    # keep only nodes that can come back to the header (inside the loop)
    return {n for n in seen if cfg.reachable(n, header) or header in cfg.succ(n)}


def stale_sources(fn: ast.FunctionDef):
    cfg = build_cfg(fn)
    rd = reaching_definitions(cfg)
    out = []
    checked = 0
    for node in cfg.nodes.values():
        if node.kind != "for":
            continue
        header = node.id
        inside = loop_nodes(cfg, header)
        if not inside:
            continue
        defs_in: dict[str, list[int]] = {}
        for n in inside:
            a = cfg.nodes[n].ast
            if a is None:
                continue
            for v in stores(a):
                defs_in.setdefault(v, []).append(n)
        loop_targets = stores(cfg.nodes[header].ast)
        for v, dnodes in defs_in.items():
            if v in loop_targets:
                continue
            # accumulator?  every in-loop definition mentions the variable itself
            plain = []
            for n in dnodes:
                a = cfg.nodes[n].ast
                self_ref = isinstance(a, ast.AugAssign) or v in loads(a)
                guarded_update = False
                if not self_ref:
                    plain.append(n)
            if not plain or len(plain) != len(dnodes):
                continue
            # carried use: a read inside the loop reached by a definition that is not from this iteration
            carried_uses = []
            body_entry0 = [s for s in cfg.succ(header) if cfg.g.edges[header, s].get("label") == "true"]
            for n in inside | {header}:
                a = cfg.nodes[n].ast
                if a is None or v not in loads(a):
                    continue
                # a use-before-definition within one iteration: some way from the start of the body to the use passes no
                # definition of v in this iteration (then the value comes from an earlier iteration or from before the loop)
                if n == header or any(b == n or (b not in dnodes and cfg.reachable(b, n, avoiding=set(dnodes))) for b in body_entry0):
                    carried_uses.append(n)
            if not carried_uses:
                continue
            # a carried value that is only used after it was validated against the CURRENT loop variable is a cache with a
            # tag, not a stale source:  `if tag == frame: use(cached)`  (tag and cached value are carried together)
            lt = sorted(stores(cfg.nodes[header].ast))
            validated = True
            for n in carried_uses:
                okn = False
                for t in inside:
                    ta = cfg.nodes[t].ast
                    if cfg.nodes[t].kind != "test" or ta is None:
                        continue
                    from ..cfg import header_expr as _hx

                    tx = _hx(ta)
                    eqs = [c_ for c_ in ast.walk(tx) if isinstance(c_, ast.Compare) and len(c_.ops) == 1 and isinstance(c_.ops[0], ast.Eq)
                           and any(norm(x_) in lt for x_ in (c_.left, c_.comparators[0]))] if tx is not None else []
                    if not eqs:
                        continue
                    ts = [s_ for s_ in cfg.succ(t) if cfg.g.edges[t, s_].get("label") == "true"]
                    if n == t or any(s_ == n or cfg.dominates(s_, n) for s_ in ts):
                        okn = True
                validated = validated and okn
            if validated:
                continue
            checked += 1
            # is there a way through one iteration that skips every definition?
            body_entry = [s for s in cfg.succ(header) if cfg.g.edges[header, s].get("label") == "true"]
            avoid = set(dnodes)
            skip = any(
                (b not in avoid) and (b == header or cfg.reachable(b, header, avoiding=avoid) or header in cfg.succ(b))
                for b in body_entry
            )
            out.append((v, cfg.nodes[header].ast, [cfg.nodes[u].ast for u in carried_uses], skip, [cfg.nodes[d].ast for d in dnodes]))
    return out, checked


def run(P: Program, R: Report, tier: str) -> None:
    R.explanation = (
        "Use-based reaching definitions on the control-flow graph of every frame loop of the "
        "candidate-graph package: a loop-carried source variable must be redefined on every path "
        "through an iteration; plus agreement of the frame keys used by the sibling functions."
    )
    R.decides += ["frames without detections cannot leave a stale 'previous frame' node set or KD-tree behind (no link across a gap, no missing link after it)"]
    R.not_decided += ["the distance predicate, centroids and IoU values (runtime values)"]
    fns = [f for f in P.functions.values() if ".candidate_graph." in f.qname and f.parent is None]
    R.floor("R18.1", "candidate-graph functions", len(fns), 6)
    n_loops = 0
    for f in fns:
        n_loops += sum(1 for x in ast.walk(f.node) if isinstance(x, ast.For))
        res, checked = stale_sources(f.node)
        for v, loop, uses, skip, defs in res:
            R.check(not skip, "R18.1", f, uses[0], f"{f.short}: loop-carried `{v}` is refreshed on every path through an iteration",
                    f"`{v}` is read at line {getattr(uses[0], 'lineno', '?')} with a value from an earlier iteration, but an iteration can end "
                    f"(e.g. through `continue`) without reaching its reassignment at line {getattr(defs[0], 'lineno', '?')}: after a frame gap it describes the wrong frame",
                    via="reaching-definitions")
        if not res:
            R.ok("R18.1", f, f.node, f"{f.short}: no loop-carried source variable", via="reaching-definitions")
    R.floor("R18.1", "loops analysed", n_loops, 6)
    # ---- R18.2 sibling agreement
    from ..resolve import Resolver

    def frame_keys(name: str):
        f = P.func_named(name)
        rs = Resolver(P, f)
        keys = set()
        for s_ in ast.walk(f.node):
            if isinstance(s_, ast.Subscript) and norm(s_.value) == "node_frame_dict":
                keys.add(rs.text(s_.slice))
        loopvars = [lp.target.id for lp in ast.walk(f.node) if isinstance(lp, ast.For) and isinstance(lp.target, ast.Name) and "node_frame_dict" in rs.text(lp.iter)]
        return f, rs, keys, loopvars

    for fname in ("add_cand_edges", "add_iou"):
        f, rs, keys, loopvars = frame_keys(fname)
        if not loopvars:
            R.undecided("R18.2", f, f.node, f"{fname} loops over the frames of node_frame_dict", "loop not recognised")
            continue
        v = loopvars[0]
        R.check({v, f"{v} + 1"} <= keys, "R18.2", f, f.node, f"{fname} takes its two node sets from node_frame_dict[{v}] and [{v} + 1]",
                f"keys used: {sorted(keys)}", via="sibling-agreement")
        # the iteration body is skipped when the following frame has no detections
        guards = []
        for s_ in ast.walk(f.node):
            if isinstance(s_, ast.If):
                t = rs.text(s_.test)
                if "node_frame_dict" in t and f"{v} + 1" in t:
                    guards.append(t)
        R.check(bool(guards), "R18.2", f, f.node, f"{fname} handles a frame whose successor frame has no detections", "", via="syntax")
    # ---- R18.3 accumulation of the IoU table
    g = P.func_named("_get_iou_dict")
    tbl = None
    for s_ in ast.walk(g.node):
        if isinstance(s_, ast.Return) and isinstance(s_.value, ast.Name):
            tbl = s_.value.id
    if tbl is None:
        raise AnalysisError("_get_iou_dict: returned table not found")
    bulk = [c for c in ast.walk(g.node) if isinstance(c, ast.Call) and isinstance(c.func, ast.Attribute) and norm(c.func.value) == tbl and c.func.attr in ("update", "__setitem__")]
    R.check(not bulk, "R18.3", g, bulk[0] if bulk else g.node, "_get_iou_dict never replaces a label's inner table wholesale",
            "`update` overwrites the inner table of a label that overlaps several labels: all but one overlap are lost", via="accumulator")
    creates = [s_ for s_ in ast.walk(g.node) if isinstance(s_, ast.Assign) and isinstance(s_.targets[0], ast.Subscript) and norm(s_.targets[0].value) == tbl]
    from .util import guards_of

    for s_ in creates:
        key = norm(s_.targets[0].slice)
        gs = [x.replace(" ", "") for x in guards_of(g, s_)]
        guarded = f"{key}notin{tbl}".replace(" ", "") in gs
        empty = isinstance(s_.value, ast.Dict) and not s_.value.keys
        R.check(guarded and empty, "R18.3", g, s_, "_get_iou_dict creates the inner table of a label only when it is missing",
                f"`{norm(s_)}` can replace an existing inner table", via="accumulator")
    inner = [s_ for s_ in ast.walk(g.node) if isinstance(s_, ast.Assign) and isinstance(s_.targets[0], ast.Subscript) and (
        (isinstance(s_.targets[0].value, ast.Subscript) and norm(s_.targets[0].value.value) == tbl)
        or (isinstance(s_.targets[0].value, ast.Call) and call_name(s_.targets[0].value) == "setdefault" and norm(s_.targets[0].value.func.value) == tbl))]
    R.check(bool(inner), "R18.3", g, g.node, "_get_iou_dict adds overlaps entry by entry", "", via="accumulator")
    # ---- R18.4 the IoU kernel of the candidate graph treats labels as names (no arithmetic in the image dtype)
    from .labels import labels_are_names

    ks = [f for f in P.find_funcs("_compute_ious") if ".candidate_graph." in f.qname and f.parent is None]
    if len(ks) != 1:
        raise AnalysisError(f"IoU kernel of the candidate-graph package: found {len(ks)}")
    labels_are_names(P, R, ks[0], "R18.4")
