"""C20 - exactly one refresh notification per successful change.

R20.1  per path through every user-action constructor (nested actions inlined): a normal
       exit emits the refresh signal exactly once when the action is the user's own step and
       not at all when it is a sub-step; a refused action (raise exit) has emitted nothing.
R20.2  nobody else emits: the only emitting functions are user-action constructors, the
       undo/redo facade and the listed legacy controller method; the facade emits exactly
       when the history reports success.
R20.3  the emission follows every sub-edit and the history registration.
R20.4  when the path creates a node, the emitted argument is that node.
"""

from __future__ import annotations

import ast

from ..actions import ActionAnalysis, cond_outcome, strip, trail_text
from ..model import Program, call_name
from ..report import Report

LEGACY_EMITTERS = {
    # one listed site: deprecated controller method, one group, one registration, one emit
    "TracksController.update_node_attrs",
}


def run(P: Program, R: Report, tier: str) -> None:
    R.explanation = (
        "Counts refresh emissions along every condition-consistent path of every user-action "
        "constructor (nested user actions and primitives inlined, `_top_level` constants "
        "propagated) and of the undo/redo facade; plus a whole-program who-may-emit check."
    )
    R.decides += [
        "emit count per path is 1 for a top-level success, 0 for a nested use and 0 before any raise",
        "no other function of the package emits the signal; undo/redo emit iff the history call succeeded",
        "the emission comes after all sub-edits and after registration, and carries the created node",
    ]
    R.not_decided += ["signal delivery semantics of psygnal (third party)"]
    A = ActionAnalysis(P, loop_iters=1 if tier == "quick" else 2)
    E0 = None
    keep = lambda e: e.kind in ("emit", "hist", "raise") or (  # noqa: E731
        e.kind == "cond" and e.xdepth == 0
    ) or (e.kind == "mut" and e.name == "add_node") or e.kind == "construct"
    for c in A.user_actions:
        f = A.init_of(c)
        E, results = A.run(f)
        E0 = E
        tp = A.top_param(c)
        R.count("paths", len(results))
        for pr in results:
            for seq in pr.sequences(keep):
                emits = [e for e in seq if e.kind == "emit"]
                n = len(emits)
                if pr.kind == "raise":
                    R.check(n == 0, "R20.1", f, emits[0].where() if emits else f.loc,
                            "refused path emits nothing", f"{n} emission(s) before the raise", via="path-count")
                    continue
                top = True if tp is None else cond_outcome(seq, tp)
                site = emits[0].where() if emits else f.loc
                if top is True:
                    R.check(n == 1, "R20.1", f, site, "top-level success emits exactly once",
                            f"path emits {n} time(s): " + "; ".join(e.where() for e in emits),
                            via="path-count", path=trail_text(pr.trail))
                elif top is False:
                    R.check(n == 0, "R20.1", f, site, f"nested use ({tp}=False) emits nothing",
                            f"path emits {n} time(s) although {tp} is false: " + "; ".join(e.where() for e in emits),
                            via="path-count", path=trail_text(pr.trail))
                else:
                    # the flag is never consulted on this path: both uses take it
                    R.fail("R20.1", f, site, f"emission count depends on {tp}",
                           f"path never tests `{tp}` and emits {n} time(s): a nested use would emit "
                           f"{n}, a top-level use {n} - one of them is wrong", path=trail_text(pr.trail))
                if pr.kind != "raise" and emits and top is not False:
                    # R20.3 order
                    idx = seq.index(emits[0])
                    later = [e for e in seq[idx + 1:] if e.kind in ("construct", "hist") or (e.kind == "mut")]
                    hist_before = any(e.kind == "hist" for e in seq[:idx])
                    R.check(not later and hist_before, "R20.3", f, emits[0].where(),
                            "emission after all sub-edits and after registration",
                            "emitted before " + (later[0].brief()[:100] if later else "the history registration"),
                            via="path-order")
                    # R20.4 carries the created node
                    created = [e.args["node"] for e in seq if e.kind == "mut" and e.name == "add_node"]
                    if created:
                        arg = emits[0].args.get("arg")
                        R.check(arg in created, "R20.4", f, emits[0].where(),
                                "emission carries the created node",
                                f"emitted {strip(str(arg))} but the path created {created}", via="dataflow")
    R.floor("R20.1", "user actions", len(A.user_actions), 5)

    # ---- R20.2 who may emit
    signals = E0.signals
    allowed_roles = {A.init_of(c).qname for c in A.user_actions}
    # helper methods of the group hierarchy (their emissions are counted per path by R20.1)
    allowed_roles |= {m.qname for c in P.subclasses("ActionGroup", strict=False) for m in c.methods.values()}
    tracks = P.class_named("Tracks")
    facade = {}
    for name, m in tracks.methods.items():
        # calls a method of the history, or hands one of its bound methods on (self.action_history.undo as an argument)
        calls_hist = any(
            isinstance(n, ast.Attribute) and isinstance(n.value, ast.Attribute) and n.value.attr == "action_history"
            and n.attr not in ("undo_stack", "redo_stack")
            for n in ast.walk(m.node)
        )
        if calls_hist:
            facade[m.qname] = m
    n_sites = 0
    for fn in P.functions.values():
        for n in ast.walk(fn.node):
            if (
                isinstance(n, ast.Call) and call_name(n) == "emit"
                and isinstance(n.func, ast.Attribute) and isinstance(n.func.value, ast.Attribute)
                and n.func.value.attr in signals
            ):
                # nested defs are walked with their parent too: attribute to the innermost
                if any(n in list(ast.walk(sub.node)) for sub in fn.locals_.values()):
                    continue
                n_sites += 1
                ok = fn.qname in allowed_roles or fn.qname in facade or fn.short in LEGACY_EMITTERS
                if not ok and fn.cls is not None and P.is_subclass(fn.cls.qname, "Tracks"):
                    # a private helper of the facade: every call site is inside a facade method
                    callers = [g for g in P.functions.values() if g is not fn and any(
                        isinstance(c, ast.Call) and call_name(c) == fn.name and isinstance(c.func, ast.Attribute) for c in ast.walk(g.node))]
                    ok = bool(callers) and all(g.qname in facade for g in callers)
                R.check(ok, "R20.2", fn, n, f"emit site in {fn.short} is an allowed emitter",
                        "only user-action constructors, the undo/redo facade and the listed legacy "
                        "controller method may emit the refresh signal",
                        via="exception:legacy-controller" if fn.short in LEGACY_EMITTERS else "who-may-call")
    R.floor("R20.2", "emit sites", n_sites, 3)
    check_facade(R, A, facade)
    R.floor("R20.2", "facade methods", len(facade), 2)


def find_facade(P: Program) -> dict:
    tracks = P.class_named("Tracks")
    facade = {}
    for name, m in tracks.methods.items():
        calls_hist = any(
            isinstance(n, ast.Call) and isinstance(n.func, ast.Attribute)
            and isinstance(n.func.value, ast.Attribute) and n.func.value.attr == "action_history"
            for n in ast.walk(m.node)
        )
        if calls_hist:
            facade[m.qname] = m
    return facade


def check_facade(R: Report, A: ActionAnalysis, facade: dict) -> None:
    for m in facade.values():
        E, results = A.run(m)
        for pr in results:
            if pr.kind == "raise":
                continue
            for seq in pr.sequences(lambda e: e.kind in ("emit", "histcall", "hist", "cond")):
                n = sum(1 for e in seq if e.kind == "emit")
                hc = [e for e in seq if e.kind in ("histcall", "hist")]
                ret = pr.data.ret if pr.kind == "return" else "None"
                # outcome of the test of the history call's result on this path
                tested = None
                for e in seq:
                    if e.kind == "cond" and ("ActionHistory." in e.args.get("term", "") or "action_history" in e.name):
                        if "stack" in e.name and "(" not in e.name.split("stack")[0][-25:]:
                            continue
                        tested = e.args["outcome"]
                if not hc:
                    ok = n == 0 and ret in ("False", "None")
                    R.check(ok, "R20.2", m, m.loc, "path without a history call emits nothing and reports failure",
                            f"emits {n}, returns {ret}", via="path-count")
                    continue
                if n == 1:
                    ok = tested is True
                    R.check(ok, "R20.2", m, m.loc, "facade emits only on the branch where the history call returned true",
                            f"emits once but the history result was {'not tested' if tested is None else 'false'} on this path (returns {ret})",
                            via="path-count", path=trail_text(pr.trail))
                    R.check(ret == "True" or "ActionHistory." in str(ret), "R02.7", m, m.loc,
                            "facade reports success when it emitted", f"returns {ret}", via="dataflow")
                elif n == 0:
                    ok = tested is False
                    R.check(ok, "R20.2", m, m.loc, "facade stays silent exactly when the history call returned false",
                            f"no emission although the history result was {'not tested' if tested is None else 'true'} (returns {ret})",
                            via="path-count", path=trail_text(pr.trail))
                    R.check(ret == "False" or "ActionHistory." in str(ret), "R02.7", m, m.loc,
                            "facade reports failure when it did not emit", f"returns {ret}", via="dataflow")
                else:
                    R.fail("R20.2", m, m.loc, "facade emits more than once", f"{n} emissions")
