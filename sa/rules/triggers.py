"""E6 - primitive x annotator trigger matrix, derived from the tree on every run.

effects(X)   from the abstract interpretation of X's constructor (which inlines _apply):
             node+ node- edge+ edge- mask attr delegated(=only notifies)
handled(A)   primitives named in isinstance tests on the action parameter of A.update
depends(A)   frozen, hand-confirmed table (what each annotator's features are a function of)
rule         effects(X) & depends(A) != {} and not exempt  =>  X in handled(A)
exemptions   derived, not tabulated: `node-` removes the carrier of node features and (by the
             primitive's precondition) has no incident edge; `node+` has no incident edge yet.
"""

from __future__ import annotations

import ast

from ..actions import ActionAnalysis
from ..model import AnalysisError, ClassInfo, Program, call_name, norm
from ..report import Report

DEPENDS = {
    "RegionpropsAnnotator": {"mask"},
    "EdgeAnnotator": {"edge+", "mask"},
    "TrackAnnotator": {"node+", "node-", "delegated"},
}
NODE_FEATURE_ANNOTATORS = {"RegionpropsAnnotator"}
EDGE_FEATURE_ANNOTATORS = {"EdgeAnnotator"}


def effects_of(A: ActionAnalysis, c: ClassInfo) -> tuple[set[str], list]:
    init = A.init_of(c)
    _, results = A.run(init)
    eff: set[str] = set()
    orders = []
    for pr in results:
        if pr.kind == "raise":
            continue
        for seq in pr.sequences(lambda e: e.kind == "mut"):
            names = []
            for e in seq:
                if e.name == "add_node":
                    eff.add("node+")
                elif e.name == "remove_node":
                    eff.add("node-")
                elif e.name == "add_edge":
                    eff.add("edge+")
                elif e.name == "remove_edge":
                    eff.add("edge-")
                elif e.name == "store":
                    t = e.args.get("target", "")
                    if ".segmentation[" in t:
                        eff.add("mask")
                    elif ".graph.nodes[" in t:
                        eff.add("attr")
                names.append(e.name)
            orders.append((pr, seq))
    # stores after the first one are not recorded as events: look at the source as well
    for m in ("_apply", "__init__"):
        f = A.P.lookup_method(c.qname, m)
        if f is None:
            continue
        for n in ast.walk(f.node):
            if isinstance(n, ast.Call) and call_name(n) == "set_pixels":
                eff.add("mask")
            if isinstance(n, ast.Call) and call_name(n) in ("_set_node_attr", "_set_nodes_attr", "_set_node_attributes"):
                eff.add("attr")
    if not eff - {"attr"} and not eff:
        eff.add("delegated")
    return eff, orders


def _isinstance_names(P: Program, upd, test: ast.expr, action: str) -> set[str] | None:
    """class names of `isinstance(action, X)` / `isinstance(action, (X, Y))`, else None"""
    if isinstance(test, ast.Call) and call_name(test) == "isinstance" and len(test.args) == 2 and isinstance(test.args[0], ast.Name) and test.args[0].id == action:
        t = test.args[1]
        out = set()
        if isinstance(t, ast.Name):
            q0 = P.resolve_name(upd.module, t.id)
            if q0 and q0 in P.constants and isinstance(P.constants[q0], ast.Tuple):
                t = P.constants[q0]
        for x in (t.elts if isinstance(t, ast.Tuple) else [t]):
            q = P.resolve_expr_name(upd.module, x)
            if q in P.classes:
                out.add(P.classes[q].name)
                out |= {c.name for c in P.subclasses(P.classes[q].name)}
        return out
    return None


def handled_by(P: Program, a: ClassInfo) -> set[str] | None:
    """Primitive class names that get past the type filters of the annotator's update();
    None = no type filter at all."""
    upd = a.methods.get("update")
    if upd is None:
        return set()
    action = upd.params[1] if len(upd.params) > 1 else None
    prims = {c.name for c in P.primitives()}
    alive = set(prims)
    found = False
    for s in upd.node.body:
        if not isinstance(s, ast.If):
            continue
        # early exit:  if not isinstance(action, T): return
        t = s.test
        if isinstance(t, ast.UnaryOp) and isinstance(t.op, ast.Not):
            names = _isinstance_names(P, upd, t.operand, action)
            if names is not None and len(s.body) == 1 and isinstance(s.body[0], ast.Return) and not s.orelse:
                found = True
                alive &= names
                continue
        # dispatch chain: if isinstance(..): .. elif isinstance(..): ..  [else: return]
        chain, cur, names_all, pure = [], s, set(), True
        while True:
            names = _isinstance_names(P, upd, cur.test, action)
            if names is None:
                pure = False
                break
            does_something = not all(isinstance(x, ast.Pass) for x in cur.body) or True
            names_all |= names
            if len(cur.orelse) == 1 and isinstance(cur.orelse[0], ast.If):
                cur = cur.orelse[0]
                continue
            tail = cur.orelse
            break
        if pure and names_all:
            found = True
            tail_returns = bool(tail) and isinstance(tail[-1], ast.Return)
            # a chain whose branches do the work (no else), or whose else returns: only named classes are handled
            last_stmt = s is upd.node.body[-1]
            if tail_returns or (not tail and last_stmt):
                alive &= names_all
    return alive if found else None


def matrix(P: Program, A: ActionAnalysis):
    prims = A.primitives
    anns = P.annotators()
    if len(anns) < 3:
        raise AnalysisError(f"only {len(anns)} annotators found (floor 3)")
    eff = {c.name: effects_of(A, c) for c in prims}
    cells = []
    for a in anns:
        dep = DEPENDS.get(a.name)
        h = handled_by(P, a)
        for c in prims:
            e = eff[c.name][0]
            hit = (dep or set()) & e
            exempt = None
            if hit:
                if "node-" in e and a.name in NODE_FEATURE_ANNOTATORS | EDGE_FEATURE_ANNOTATORS:
                    exempt = "node- removes the carrier (no incident edge by precondition)"
                elif "node+" in e and a.name in EDGE_FEATURE_ANNOTATORS:
                    exempt = "node+ concerns a node with no incident edge yet"
            cells.append((a, c, e, dep, hit, exempt, h is None or c.name in h))
    return eff, cells


def trigger_rules(P: Program, R: Report, A: ActionAnalysis, rule: str, only_annotators: set[str] | None = None,
                  only_pairs: set[tuple[str, str]] | None = None) -> int:
    eff, cells = matrix(P, A)
    n = 0
    for a, c, e, dep, hit, exempt, handled in cells:
        if only_annotators is not None and a.name not in only_annotators:
            continue
        if dep is None:
            R.undecided(rule, a.methods.get("update") or a.name, a.node, f"annotator {a.name} has no dependency entry",
                        "a new annotator: add its dependencies to the E6 table")
            continue
        if not hit:
            continue
        if only_pairs is not None and not any(c.name in p for p in only_pairs):
            continue
        n += 1
        upd = a.methods.get("update")
        cst = f"{a.name}.update reacts to {c.name} (effects {sorted(e)} meet dependencies {sorted(hit)})"
        if exempt:
            R.ok(rule, upd, upd.node, f"{a.name} need not react to {c.name}", exempt, via="derived-exemption")
        else:
            R.check(handled, rule, upd, upd.node, cst,
                    f"{c.name} changes {sorted(hit)} but {a.name}.update filters it out: the feature goes stale", via="trigger-matrix")
    return n


def notify_last(P: Program, R: Report, A: ActionAnalysis, rule: str) -> None:
    """Rxx.2: in every primitive all direct mutations precede the single notification."""
    for c in A.primitives:
        init = A.init_of(c)
        _, results = A.run(init)
        seen = False
        for pr in results:
            if pr.kind == "raise":
                continue
            for seq in pr.sequences(lambda e: e.kind == "mut" and e.name != "store"):
                names = [e.name for e in seq]
                k = names.count("notify")
                seen = True
                ok = k == 1 and names[-1] == "notify"
                site = seq[-1].where() if seq else init.loc
                R.check(ok, rule, init, site, f"{c.name}: mutate, then notify annotators exactly once, last",
                        f"order of effects on a path: {names}", via="path-order")
            # attribute / pixel stores are not kept as events after the first: check by source order
        ap = P.lookup_method(c.qname, "_apply")
        if ap is not None:
            body = [s for s in ast.walk(ap.node) if isinstance(s, ast.Expr) and isinstance(s.value, ast.Call)]
            idx_notify = [i for i, s in enumerate(ap.node.body) if "notify_annotators" in norm(s)]
            writes_after = [
                s for i, s in enumerate(ap.node.body)
                if idx_notify and i > idx_notify[-1] and any(
                    isinstance(x, ast.Call) and call_name(x) in ("set_pixels", "_set_node_attr", "_set_edge_attr", "add_node", "add_edge", "remove_node", "remove_edge")
                    for x in ast.walk(s)
                )
            ]
            last_is_notify = bool(idx_notify) and idx_notify[-1] == len(ap.node.body) - 1
            R.check(last_is_notify and not writes_after, rule, ap, ap.node,
                    f"{c.name}._apply ends with the notification", "a write follows notify_annotators, or it is missing", via="syntax-order")
        if not seen:
            raise AnalysisError(f"{c.name}: no normal path through the constructor")


def inverse_triggers(P: Program, R: Report, M: dict[str, str]) -> None:
    A = ActionAnalysis(P)
    pairs = {(x, y) for x, y in M.items()}
    n = trigger_rules(P, R, A, "R01.9", only_pairs=pairs)
    R.floor("R01.9", "matrix cells", n, 6)
