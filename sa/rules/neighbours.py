"""Contract of SolutionTracks.get_track_neighbors that the interpreter's axiom AX-TRACKPATH rests on:
the returned predecessor is the LATEST member of the track before `time`, the successor the EARLIEST after.

The members come from the annotator's per-track list, which is kept in the order in which nodes JOINED the track
(the bookkeeping appends / extends), not in time order.  A positional choice (first / last element, a scan that
overwrites and breaks) is therefore the nearest member only if the list was ordered by TIME first; a choice by
`min` / `max` with a time key needs no order.

  recognised good:  .sort(key=<time>) / sorted(.., key=<time>) dominating the positional choice,
                    or min/max(.., key=<time>) choices only
  recognised bad :  a positional choice with no ordering at all, or an ordering whose key is not the time
  anything else  :  not decided
"""

from __future__ import annotations

import ast

from ..cfg import build_cfg
from ..model import AnalysisError, Program, call_name, norm
from ..report import Report

TIME_WORDS = ("get_time", "time_key", "get_times", "times[", "time_of", ".time")


def _mentions_time(e: ast.AST | None, f: ast.FunctionDef, _depth: int = 0) -> bool:
    if e is None or _depth > 3:
        return False
    src = norm(e)
    if any(w in src for w in TIME_WORDS):
        return True
    # key=<table>.__getitem__ / <table>.get where the table was filled from the nodes' times
    if isinstance(e, ast.Attribute) and e.attr in ("__getitem__", "get") and isinstance(e.value, ast.Name):
        for s in ast.walk(f):
            if isinstance(s, ast.Assign) and any(isinstance(t, ast.Name) and t.id == e.value.id for t in s.targets):
                if _mentions_time(s.value, f, _depth + 1):
                    return True
    # key=<local function / lambda bound to a name>
    if isinstance(e, ast.Name):
        for s in ast.walk(f):
            if isinstance(s, ast.Assign) and any(isinstance(t, ast.Name) and t.id == e.id for t in s.targets):
                return _mentions_time(s.value, f)
            if isinstance(s, ast.FunctionDef) and s.name == e.id and s is not f:
                return any(w in norm(s) for w in TIME_WORDS)
    return False


def follow_delegation(P: Program, f, depth: int = 0):
    """If `f` only hands its arguments on (`return self.x.m(a, b)`), the function that does the work."""
    body = [s_ for s_ in f.node.body if not (isinstance(s_, ast.Expr) and isinstance(s_.value, ast.Constant))]
    if depth < 3 and len(body) == 1 and isinstance(body[0], ast.Return) and isinstance(body[0].value, ast.Call):
        tgt = P.resolve_call(body[0].value, P.local_env(f), f, count=False)
        if tgt and tgt[0] == "func" and tgt[1][0] is not f:
            return follow_delegation(P, tgt[1][0], depth + 1)
    return f


def nearest_neighbour(P: Program, R: Report, rule: str) -> None:
    gtn = follow_delegation(P, P.func_named("get_track_neighbors", "SolutionTracks"))
    fn = gtn.node
    # the candidate list: locals (transitively) derived from the annotator's per-track map
    cands: set[str] = set()
    changed = True
    while changed:
        changed = False
        for s in ast.walk(fn):
            if isinstance(s, ast.Assign) and len(s.targets) == 1 and isinstance(s.targets[0], ast.Name) and s.targets[0].id not in cands:
                src = norm(s.value)
                if "_to_nodes[" in src or "_to_nodes.get(" in src or "_to_node[" in src or "_to_node." in src or any(isinstance(x, ast.Name) and x.id in cands for x in ast.walk(s.value)):
                    cands.add(s.targets[0].id)
                    changed = True
    if not cands and not any(("_to_nodes[" in norm(x) or "_to_node[" in norm(x)) for x in ast.walk(fn) if isinstance(x, (ast.For, ast.Call, ast.Subscript))):
        R.undecided(rule, gtn, fn, "get_track_neighbors picks the time-nearest members of the track", "the list of the track's members was not recognised")
        return

    def about_cands(e: ast.AST) -> bool:
        return any(isinstance(x, ast.Name) and x.id in cands for x in ast.walk(e)) or "_to_nodes[" in norm(e) or "_to_node[" in norm(e)

    orderings: list[tuple[ast.AST, bool]] = []  # (site, key is time)
    choices_keyed: list[tuple[ast.AST, bool]] = []
    positional: list[ast.AST] = []
    for s in ast.walk(fn):
        if isinstance(s, ast.Call):
            nm = call_name(s)
            key = next((k.value for k in s.keywords if k.arg == "key"), None)
            if nm == "sort" and isinstance(s.func, ast.Attribute) and about_cands(s.func.value):
                orderings.append((s, _mentions_time(key, fn)))
            elif nm == "sorted" and s.args and about_cands(s.args[0]):
                # sorted(pairs of (time, node)) orders by time as well
                first = s.args[0]
                by_pair = isinstance(first, (ast.ListComp, ast.GeneratorExp)) and isinstance(first.elt, ast.Tuple) and first.elt.elts and _mentions_time(first.elt.elts[0], fn)
                orderings.append((s, _mentions_time(key, fn) or (key is None and by_pair)))
            elif nm in ("argsort", "lexsort") and s.args and (about_cands(s.args[0]) or _mentions_time(s.args[0], fn)):
                orderings.append((s, _mentions_time(s.args[0], fn)))
            elif nm in ("min", "max") and s.args and about_cands(s.args[0]):
                choices_keyed.append((s, _mentions_time(key, fn)))
            elif nm in ("bisect", "bisect_left", "bisect_right", "searchsorted"):
                positional.append(s)
        if isinstance(s, ast.Subscript) and isinstance(s.value, ast.Name) and s.value.id in cands and isinstance(s.ctx, ast.Load):
            sl = s.slice
            if isinstance(sl, ast.Constant) or (isinstance(sl, ast.UnaryOp) and isinstance(sl.operand, ast.Constant)):
                positional.append(s)
        if isinstance(s, ast.For) and about_cands(s.iter):
            # a scan that keeps the last match / stops at the first one depends on the order
            stores = [x for x in ast.walk(s) if isinstance(x, ast.Assign) and any(isinstance(t, ast.Name) for t in x.targets)]
            if any(isinstance(x, ast.Break) for x in ast.walk(s)) or stores:
                positional.append(s)
        if isinstance(s, ast.Call) and call_name(s) == "next" and s.args and about_cands(s.args[0]):
            positional.append(s)

    if not positional and choices_keyed:
        for site, timed in choices_keyed:
            R.check(timed, rule, gtn, site, "get_track_neighbors chooses the neighbour by a min / max over time",
                    f"`{norm(site)[:70]}` does not compare times: the chosen member need not be the nearest in time", via="contract-shape")
        return
    if not positional:
        R.undecided(rule, gtn, fn, "get_track_neighbors picks the time-nearest members of the track", "no positional or keyed choice recognised")
        return
    # how the bookkeeping list is maintained: appended in joining order?
    unordered = False
    for c in P.annotators():
        for m in c.methods.values():
            for x in ast.walk(m.node):
                if isinstance(x, ast.Call) and call_name(x) in ("append", "extend") and isinstance(x.func, ast.Attribute) and "tracklet_id_to_nodes[" in norm(x.func.value):
                    unordered = True
    cfg = build_cfg(fn)

    stmt_of = cfg.node_containing

    for site in positional:
        ps = stmt_of(site)
        timed = [o for o, t in orderings if t]
        untimed = [o for o, t in orderings if not t]
        dom = []
        for o in timed:
            os_ = stmt_of(o)
            if os_ is not None and ps is not None and (os_ == ps or cfg.dominates(os_, ps)):
                dom.append(o)
        what = f"`{norm(site)[:60]}`" if not isinstance(site, ast.For) else f"the scan `for {norm(site.target)} in {norm(site.iter)[:40]}`"
        if dom:
            R.ok(rule, gtn, site, f"get_track_neighbors: {what} runs over the members ordered by time", f"ordered at line {dom[0].lineno}", via="contract-shape")
        elif untimed:
            R.fail(rule, gtn, untimed[0], "get_track_neighbors orders the track's members by TIME before it picks by position",
                   f"`{norm(untimed[0])[:70]}` orders by something else (node id): when ids are not monotone in time the scan returns a member that is not "
                   "the nearest; the next add / delete on that track is wired to the wrong neighbours")
        elif unordered:
            R.fail(rule, gtn, site, "get_track_neighbors orders the track's members by TIME before it picks by position",
                   f"{what} picks by position but nothing orders the list, and the bookkeeping appends nodes in the order they joined the track: after a node is "
                   "inserted before existing ones the neighbours returned are wrong (wrong bridge edge on delete, wrong splice on add)")
        else:
            R.undecided(rule, gtn, site, "get_track_neighbors picks by position from an ordered list", "how the bookkeeping list is kept ordered was not recognised")
