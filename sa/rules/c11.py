"""C11 - a refused edit changes nothing.

R11.1  validate before mutate: on no path through a user-action constructor (callees
       inlined) is an explicit raise / assert, an opaque may-raise callee or a modelled
       implicit raiser reachable once the tracks object has been changed.
R11.2  record and notify last: nothing that changes state or may raise follows the history
       registration / refresh emission, and every sub-edit precedes them.
R11.3  primitives validate first: the same typestate over each primitive's constructor.
"""

from __future__ import annotations

import ast

from ..absint import Event
from ..actions import ActionAnalysis, describe_mut, guard_signature, raise_key, strip, trail_text
from ..model import AnalysisError, Program, norm
from ..report import Report


def guard_of(events: list, ev: Event) -> str:
    """Normalised innermost test that led to `ev` (same inlining depth)."""
    last = None
    for e in events:
        if e is ev:
            break
        if isinstance(e, Event) and e.kind == "cond" and e.depth == ev.depth and e.ctx == ev.ctx:
            last = e
    if last is None:
        return ""
    return f" when {'' if last.args['outcome'] else 'not '}({strip(last.name)[:80]})"


def flat_tail(events: list) -> list:
    """Events of the path after its last merge point (plain Events only)."""
    out = []
    for e in reversed(events):
        if not isinstance(e, Event):
            break
        out.append(e)
    return list(reversed(out))


def typestate(R: Report, rule: str, f, engine, results, subject: str) -> None:
    n_raise_clean = 0
    for pr in results:
        d = pr.data
        if pr.kind == "raise":
            ev = pr.last
            if ev is None or ev.kind != "raise":
                continue
            tail = flat_tail(d.events)
            # what the deciding guard of this raise is about (last decision taken on the path before the raise)
            conds = [e for e in tail if e.kind == "cond" and e is not ev]
            cand_txts = [str(c_.args.get("term", "")) + " " + c_.name + " " + str(c_.args.get("def", "")) for c_ in reversed(conds[-3:])] if conds else [strip(t_[1]) for t_ in reversed(pr.trail[-3:])]
            # the most specific thing the last few decisions were about (fixed priority, independent of their order)
            words = {w_ for t_ in cand_txts for w_ in guard_signature(t_).split("+")}
            sig = next((w_ for w_ in ("outdeg", "indeg", "time", "edge", "node", "seg", "trackid", "key", "none") if w_ in words), "-")
            construct = raise_key(ev) + (f" [guard on {sig}]" if ev.name != "AssertionError" else "")
            if d.dirty:
                R.fail(
                    rule, f, ev.where(), f"{construct} after {describe_mut(d.dirty_at, ev)}",
                    detail=f"{subject} has already changed state ({d.dirty_at.brief()[:120] if d.dirty_at else '?'} "
                    f"at {d.dirty_at.where() if d.dirty_at else '?'}) when this raise is reachable: "
                    f"{strip(ev.args.get('stmt', ''))[:140]}",
                    path=trail_text(pr.trail),
                )
            else:
                n_raise_clean += 1
                R.ok(rule, f, ev.where(), construct + " before any mutation", via="typestate")
        # opaque may-raise callees and implicit raisers after the first mutation
        for seq in pr.sequences(lambda e: e.kind in ("mayraise", "query", "axiom_prune")):
            for e in seq:
                if e.kind == "mayraise":
                    c = f"call of {e.name} (may raise, not inlined) in {e.xctx[-1] if e.xctx else 'constructor body'}"
                    if e.dirty:
                        R.fail(rule, f, e.where(), c + " after mutation", detail="opaque raising callee after the first mutation")
                    else:
                        R.ok(rule, f, e.where(), c + " before any mutation", via="typestate")
                elif e.kind == "query" and e.dirty:
                    c = f"lookup {e.name}({canon_item(strip(e.args['node']))[:60]}) in {e.xctx[-1] if e.xctx else 'constructor body'}"
                    if not e.args["known"]:
                        R.fail(rule, f, e.where(), c + " on an id not known to be a node, after mutation",
                               detail="graph lookup raises for an unknown id (modelled implicit raiser)")
                    else:
                        R.ok(rule, f, e.where(), c + " on a validated id", via="facts")
                elif e.kind == "axiom_prune":
                    ax = e.name.split(":")[0]
                    R.ok(rule, f, e.where(), f"branch `{strip(e.args['test'])[:80]}` infeasible", detail=e.name[:200], via=f"axiom:{ax}")
    R.count("raise_exits_before_mutation", n_raise_clean)
    loop_induction(R, rule, f, results, engine)


def canon_item(term: str) -> str:
    """`$items[0][1]`, `$items[1][1]` -> `$items[i][1]`: which element of a caller-supplied list is meant does not matter"""
    import re

    return re.sub(r"(\$?\b\w+)\[\d+\](?=\[)", r"\1[i]", term)


def loop_induction(R: Report, rule: str, f, results, engine=None) -> None:
    """Inductive step for loops over a caller-supplied collection, so that the verdict does not depend on how often the
    loop is unrolled: if one iteration of the body can change state, and the body's FIRST look-up of the current item's
    id - or a refusal (raise) decided by a test on the current item - happens inside the body (nothing validated the
    items before the loop), then in the next iteration that look-up / refusal comes after an applied change.  Facts of
    iteration k say nothing about item k+1, so no guard of the earlier iteration can discharge it."""
    import re

    holders = [f] + ([m for m in f.cls.methods.values() if m is not f and m.name != "__init__"] if f.cls is not None else [])
    if not any(isinstance(lp, ast.For) for g in holders for lp in ast.walk(g.node)):
        return
    item_rx = re.compile(r"\[0\]")
    all_seqs = [seq for pr in results for seq in pr.sequences(lambda e: e.kind in ("mut", "query"))]
    try:
        all_seqs += [seq for pr in results if pr.kind == "raise" and not pr.data.dirty for seq in pr.sequences(
            lambda e: e.kind in ("mut", "raise") or (e.kind == "cond" and item_rx.search(str(e.args.get("term", ""))) is not None))]
    except AnalysisError:  # too many alternatives: the raise part of the inductive step is skipped, the unrolled analysis stands
        R.notes.append(f"loop induction over refusals skipped for {f.short}: too many event alternatives")
    # fields of the object that hold a constructor argument as it was passed in
    passed_in = set()
    init_ = f.cls.methods.get("__init__") if f.cls is not None else None
    if init_ is not None:
        for s_ in ast.walk(init_.node):
            if isinstance(s_, ast.Assign) and isinstance(s_.value, ast.Name) and s_.value.id in init_.params:
                passed_in |= {norm(t) for t in s_.targets if isinstance(t, ast.Attribute)}
    for g in holders:
        # only loops over a CALLER-SUPPLIED collection: items of a list the constructor built itself may have been
        # validated while it was built
        def caller_supplied(it: ast.expr) -> bool:
            return any((isinstance(x, ast.Name) and x.id in g.params and x.id != "self") or (isinstance(x, ast.Attribute) and norm(x) in passed_in) for x in ast.walk(it))

        loops = [lp for lp in ast.walk(g.node) if isinstance(lp, ast.For) and caller_supplied(lp.iter)]
        for lp in loops:
            lo, hi = lp.body[0].lineno, max(getattr(s_, "end_lineno", lp.end_lineno) for s_ in lp.body)

            def line_in_g(e):
                if getattr(e, "origin", None) is g:
                    return getattr(e.node, "lineno", 0)
                if g is f:
                    s0 = getattr(e, "_site0", None)
                    return s0[0] if s0 else 0
                return 0

            body_mut = None
            item_q = {}
            item_raises = {}
            for _once in (0,):
                for seq in all_seqs:
                    last_item_cond = None
                    in_body = False
                    for e in seq:
                        ln = line_in_g(e)
                        inside = lo <= ln <= hi
                        if ln:
                            in_body = inside  # events of g itself say where we are; events of inlined callees keep the position
                        if e.kind == "mut" and e.name != "notify" and body_mut is None and (inside or in_body):
                            body_mut = e
                        if not inside:
                            continue
                        if e.kind == "cond" and re.search(r"\[0\]", str(e.args.get("term", ""))):
                            last_item_cond = e
                        if e.kind == "query" and not e.args.get("known") and not e.dirty and re.search(r"\$\w+\[0\]\[", str(e.args.get("node", ""))):
                            item_q.setdefault((e.name, e.args["node"], e.ctx), e)
                        if e.kind == "raise" and not e.dirty and last_item_cond is not None:
                            item_raises.setdefault((raise_key(e), getattr(e.node, "lineno", 0)), (e, last_item_cond))
            if body_mut is None and engine is not None and (item_q or item_raises):
                # the body changes state through a call whose events carry no position in g: ask the call graph
                env = engine.P.local_env(g)
                for c_ in [x for st_ in lp.body for x in ast.walk(st_) if isinstance(x, ast.Call)]:
                    tgt = engine.P.resolve_call(c_, env, g, count=False)
                    if tgt and tgt[0] == "func" and engine.flags(tgt[1][0])[1]:
                        body_mut = Event("mut", f"call:{tgt[1][0].short}", {}, c_, 0, (), False, None, g)
                        break
                    if tgt and tgt[0] == "class" and tgt[1].qname in engine.action_base:
                        body_mut = Event("mut", f"construct:{tgt[1].name}", {}, c_, 0, (), False, None, g)
                        break
            if body_mut is None:
                continue
            first = {}
            for (name, node, ctx), e in item_q.items():
                if node not in first or (line_in_g(e), getattr(e.node, "lineno", 0)) < (line_in_g(first[node]), getattr(first[node].node, "lineno", 0)):
                    first[node] = e
            for node, e in first.items():
                c = f"lookup {e.name}({canon_item(strip(node))[:60]}) in {e.xctx[-1] if e.xctx else 'constructor body'}"
                R.fail(rule, f, e.where(), c + " on an id not known to be a node, after mutation",
                       detail=f"graph lookup raises for an unknown id (modelled implicit raiser); reached in iteration k+1 of the loop at line {lp.lineno} "
                              f"after iteration k applied {body_mut.brief()[:80]} (inductive step over the caller-supplied list)")
            for (rk, _ln), (e, cnd) in item_raises.items():
                sig = guard_signature(str(cnd.args.get("term", "")) + " " + cnd.name).split("+")[0]
                construct = rk + f" [guard on {sig}] after an earlier iteration's {body_mut.name}"
                R.fail(rule, f, e.where(), construct,
                       detail=f"the refusal is decided by a test on the current item (`{strip(cnd.name)[:70]}`) inside the loop at line {lp.lineno} of {g.short}; iteration k may "
                              f"already have applied {body_mut.brief()[:80]}: a request whose later item is refused leaves the earlier items' changes in place")


def order_rule(R: Report, f, results) -> None:
    """R11.2: after hist/emit no mutation, construction or raise; they are dominated by all sub-edits."""
    keep = lambda e: e.kind in ("hist", "emit", "mut", "construct", "raise", "mayraise")  # noqa: E731
    for pr in results:
        for seq in pr.sequences(keep):
            first = next((i for i, e in enumerate(seq) if e.kind in ("hist", "emit")), None)
            if first is None:
                continue
            anchor = seq[first]
            later = [e for e in seq[first + 1:] if e.kind not in ("hist", "emit")]
            bad = [e for e in later if e.kind in ("mut", "construct", "raise", "mayraise")]
            c = f"{anchor.kind} is the last effect of the constructor"
            if bad:
                b = bad[0]
                R.fail("R11.2", f, b.where(), f"{b.kind} {b.name} follows {anchor.kind}",
                       detail=f"{b.brief()[:160]} happens after the action was registered / announced at {anchor.where()}")
            else:
                R.ok("R11.2", f, anchor.where(), c, via="typestate")


def queries_are_pure(P: Program, R: Report, rule: str) -> None:
    from ..effects import Effects
    from .c16 import entry_points

    used: set[str] = set()
    for f in P.functions.values():
        if ".user_actions." not in f.qname and ".actions." not in f.qname:
            continue
        for c in ast.walk(f.node):
            if isinstance(c, ast.Call) and isinstance(c.func, ast.Attribute) and norm(c.func.value).endswith("tracks"):
                used.add(c.func.attr)
    E = Effects(P)
    n = 0
    for q, root in entry_points(P):
        if q.cls is None or q.name not in used or not any(k in q.cls.qname for k in (".data_model.",)):
            continue
        n += 1
        eff = [(pa, w) for pa, k, w in E.effects_on(q, root) if k == "content" and not (pa and pa[0].startswith("_") and not pa[0].startswith("__"))]
        label = f"{q.short}: a query the edits consult before they have validated changes nothing"
        if not eff:
            R.ok(rule, q, q.node, label, via="effect-analysis")
        else:
            pa, w = eff[0]
            R.fail(rule, q, w, label, f"{q.name} writes `{root}.{'.'.join(pa)}` ({w}): an edit that calls it and is then refused leaves that write behind - "
                   "the next identical call gets a different answer (e.g. another track id)")
    R.floor(rule, "queries consulted by the edits", n, 5)


def run(P: Program, R: Report, tier: str) -> None:
    R.explanation = (
        "Typestate analysis (clean -> dirty) over every path of every user-action and primitive "
        "constructor of /repo/src, with internal callees inlined and infeasible branches pruned by "
        "guard-derived facts; static, nothing is executed."
    )
    R.decides += [
        "no explicit raise/assert, opaque raising callee or modelled graph-lookup on an unvalidated id "
        "is reachable after the first state change of a user action or primitive",
        "history registration and refresh come after every sub-edit and nothing follows them",
    ]
    R.decides += ['the data-model queries an edit consults before it has validated write nothing (effect analysis)']
    R.not_decided += [
        "exceptions outside the modelled families (numpy indexing errors, third-party callees, annotator updates)",
        "equality of state after a refusal (follows from 'nothing was changed' only for the modelled writes)",
    ]
    R.assumptions += [
        "AX-FOREST: every node of a solution has in-degree <= 1 and out-degree <= 2 when a user action starts",
        "AX-TRACKPATH: nodes sharing a track id form one path; time-consecutive members are adjacent",
        "AX-SOLN-KEYS: SolutionTracks.features.tracklet_key is set",
        "distinct terms denote distinct nodes unless the code compares them",
        "loops are unrolled %d time(s); callees inlined to depth 8" % (1 if tier == "quick" else 2),
    ]
    A = ActionAnalysis(P, loop_iters=1 if tier == "quick" else 2)
    for c in A.user_actions:
        f = A.init_of(c)
        E, results = A.run(f)
        R.count("user_action_paths", len(results))
        R.count("inlined_functions", len(E.inlined_functions))
        typestate(R, "R11.1", f, E, results, "the tracks object")
        order_rule(R, f, results)
    R.floor("R11.1", "user actions", len(A.user_actions), 5)
    for c in A.primitives:
        f = A.init_of(c)
        E, results = A.run(f)
        R.count("primitive_paths", len(results))
        typestate(R, "R11.3", f, E, results, "the primitive")
    R.floor("R11.3", "primitives", len(A.primitives), 6)
    R.floor("R11.1", "obligations", len(R.obligations), 20)
    # ---- R11.4 the queries an edit consults while it is still deciding are pure.  The typestate above treats calls such as
    # get_next_track_id() / has_track_id_at_time() / get_track_neighbors() as reads; a query that moves a counter or fills a
    # registry changes state BEFORE the edit has validated its arguments, and a refusal then leaves that change behind.
    queries_are_pure(P, R, "R11.4")
    # ---- R11.5 a lookup that is handed out is a plain dict: reading a missing id must not insert it
    from .memo import no_autoinsert_lookup

    no_autoinsert_lookup(P, R, "R11.5")
