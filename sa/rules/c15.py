"""C15 - subset export is closed under ancestors and contains nothing else (mechanism).

R15.1 taint: the `node_ids` selection reaches the outputs only through the ancestor closure
R15.2 one closed set feeds the rows / the subgraph / the segmentation mask; the exported
      segmentation keeps a label iff it is in that set (boolean membership mask)
R15.3 the closure is the union of the selection and nx.ancestors of EVERY selected node
"""

from __future__ import annotations

import ast

from ..model import AnalysisError, Program, call_name, norm
from ..report import Report

CLOSURE = "filter_graph_with_ancestors"


def uses_of(fn: ast.FunctionDef, name: str):
    return [n for n in ast.walk(fn) if isinstance(n, ast.Name) and n.id == name and isinstance(n.ctx, ast.Load)]


def parent_map(fn):
    pm = {}
    for n in ast.walk(fn):
        for c in ast.iter_child_nodes(n):
            pm[c] = n
    return pm


def run(P: Program, R: Report, tier: str) -> None:
    R.explanation = (
        "Taint analysis of the selection parameter in both exporters (it may flow only into the "
        "ancestor closure and `is None` tests), identity of the set that feeds every output, the "
        "membership-mask form of the segmentation filter and the loop shape of the closure."
    )
    R.decides += [
        "the selection reaches rows, subgraph and mask only as its ancestor closure, the same closed set everywhere",
        "the closure adds nx.ancestors of every selected node and removes nothing",
    ]
    R.not_decided += ["contents of the written files"]
    exporters = [P.func_named("export_to_csv"), P.func_named("export_to_geff")]
    for f in exporters:
        if "node_ids" not in f.params:
            raise AnalysisError(f"{f.short} has no node_ids parameter")
        pm = parent_map(f.node)
        closure_vars = set()
        n_use = 0
        for u in uses_of(f.node, "node_ids"):
            n_use += 1
            par = pm.get(u)
            ok = False
            if isinstance(par, ast.Compare) and len(par.ops) == 1 and isinstance(par.ops[0], (ast.Is, ast.IsNot)) and norm(par.comparators[0]) == "None":
                ok = True
            if isinstance(par, ast.Call) and call_name(par) == CLOSURE and u in par.args[1:2]:
                ok = True
                asg = pm.get(par)
                if isinstance(asg, ast.Assign) and isinstance(asg.targets[0], ast.Name):
                    closure_vars.add(asg.targets[0].id)
            if isinstance(par, ast.keyword) and par.arg in ("node_ids", "nodes_to_keep"):
                gp = pm.get(par)
                ok = isinstance(gp, ast.Call) and call_name(gp) in (CLOSURE, "export_to_csv", "export_to_geff")
            R.check(ok, "R15.1", f, u, f"{f.short}: `node_ids` is used only for the closure or an `is None` test",
                    f"`node_ids` flows into `{norm(par)[:80]}`: selected nodes reach an output without their ancestors", via="taint")
        R.floor("R15.1", f"uses of node_ids in {f.name}", n_use, 2)
        R.check(len(closure_vars) == 1, "R15.2", f, f.node, f"{f.short}: one variable holds the closed set", f"{sorted(closure_vars)}", via="dataflow")
        if not closure_vars:
            continue
        cv = next(iter(closure_vars))
        first_arg_ok = all(
            norm(c.args[0]) == "tracks.graph" for c in ast.walk(f.node) if isinstance(c, ast.Call) and call_name(c) == CLOSURE
        )
        R.check(first_arg_ok, "R15.2", f, f.node, f"{f.short}: the closure is taken in the tracks graph", "", via="dataflow")
        if f.name == "export_to_csv":
            loops = [lp for lp in ast.walk(f.node) if isinstance(lp, ast.For) and any(isinstance(c, ast.Call) and call_name(c) == "append" and "rows" in norm(c.func.value) for c in ast.walk(lp))]
            R.check(len(loops) == 1 and norm(loops[0].iter) == cv, "R15.2", f, loops[0] if loops else f.node,
                    "CSV rows iterate the closed set", f"rows iterate `{norm(loops[0].iter) if loops else '?'}`", via="dataflow")
            # the relabelled segmentation maps only exported ids
            ma = [c for c in ast.walk(f.node) if isinstance(c, ast.Call) and call_name(c) == "map_array"]
            if ma:
                iv = norm(ma[0].args[1])
                d = [s for s in ast.walk(f.node) if isinstance(s, ast.Assign) and norm(s.targets[0]) == iv]
                R.check(bool(d) and "df[" in norm(d[0].value) and "id" in norm(d[0].value), "R15.2", f, ma[0],
                        "the exported label image maps only the exported rows' ids (others fall to background)", norm(d[0].value)[:80] if d else "", via="dataflow")
        else:
            sub = [c for c in ast.walk(f.node) if isinstance(c, ast.Call) and call_name(c) == "subgraph"]
            R.check(len(sub) == 1 and norm(sub[0].args[0]) == cv, "R15.2", f, sub[0] if sub else f.node,
                    "the exported graph is the subgraph induced by the closed set", norm(sub[0])[:80] if sub else "no subgraph call", via="dataflow")
            if sub:
                g = pm.get(pm.get(sub[0]))
                copied = any(isinstance(c, ast.Call) and call_name(c) == "copy" and sub[0] in list(ast.walk(c)) for c in ast.walk(f.node))
                R.check(copied, "R15.2", f, sub[0], "the subgraph is copied (the tracks graph is left alone)", "", via="syntax")
            # segmentation: boolean membership mask of the closed set
            writes = [s for s in ast.walk(f.node) if isinstance(s, ast.Assign) and isinstance(s.targets[0], ast.Subscript) and norm(s.targets[0].value) == "z"]
            filt = [s for s in writes if norm(s.targets[0].slice) == "slices"]
            R.check(len(filt) == 1, "R15.2", f, f.node, "one chunk-wise filtered write of the segmentation", f"{len(filt)}", via="syntax")
            for s in filt:
                val = s.value
                if isinstance(val, ast.Name):
                    d = [x for x in ast.walk(f.node) if isinstance(x, ast.Assign) and isinstance(x.targets[0], ast.Name) and x.targets[0].id == val.id]
                    val = d[0].value if len(d) == 1 else val
                txt = norm(val)
                mask_ok = False
                if isinstance(val, ast.Call) and call_name(val) == "where" and len(val.args) == 3 and norm(val.args[2]) == "0":
                    m = val.args[0]
                    if isinstance(m, ast.Name):
                        d = [x for x in ast.walk(f.node) if isinstance(x, ast.Assign) and isinstance(x.targets[0], ast.Name) and x.targets[0].id == m.id]
                        m = d[0].value if len(d) == 1 else m
                    mask_ok = isinstance(m, ast.Call) and call_name(m) == "isin" and norm(m.args[1]) == cv and norm(m.args[0]) == norm(val.args[1])
                R.check(mask_ok, "R15.2", f, s, "a pixel keeps its label iff the label is in the closed set (np.where(np.isin(block, closed), block, 0))",
                        f"filtered block is `{txt[:110]}`: labels outside the closed set can survive or be renamed", via="guard-shape")
            # the view of the live array is not written
            blk = [x for x in ast.walk(f.node) if isinstance(x, ast.Assign) and isinstance(x.targets[0], ast.Name) and "seg_data[" in norm(x.value)]
            for b in blk:
                nm = b.targets[0].id
                st = [x for x in ast.walk(f.node) if isinstance(x, (ast.Assign, ast.AugAssign)) and any(isinstance(t, ast.Subscript) and norm(t.value) == nm for t in (x.targets if isinstance(x, ast.Assign) else [x.target]))]
                R.check(not st, "R15.2", f, st[0] if st else b, "the chunk read from the live segmentation is not written in place", "", via="syntax")
    # ---- R15.3 closure shape
    c = P.func_named(CLOSURE)
    sel = c.params[1]
    rets = [s for s in ast.walk(c.node) if isinstance(s, ast.Return)]
    acc = None
    for s in ast.walk(c.node):
        if isinstance(s, ast.Assign) and isinstance(s.targets[0], ast.Name) and norm(s.value) in (f"set({sel})", f"set({sel}).copy()"):
            acc = s.targets[0].id
    R.check(acc is not None, "R15.3", c, c.node, "the result starts as a copy of the selection", "", via="syntax")
    loops = [lp for lp in ast.walk(c.node) if isinstance(lp, ast.For)]
    ok_loop = False
    for lp in loops:
        if norm(lp.iter) == sel and isinstance(lp.target, ast.Name):
            v = lp.target.id
            body = norm(ast.Module(lp.body, []))
            straight = not any(isinstance(x, (ast.If, ast.Continue, ast.Break, ast.While, ast.Return)) for s in lp.body for x in ast.walk(s))
            adds = f"nx.ancestors({c.params[0]}, {v})" in body and (f"{acc}.update(" in body or f"{acc} |=" in body)
            ok_loop = straight and adds
            R.check(straight, "R15.3", c, lp, "every selected node is processed unconditionally",
                    "a branch / early exit inside the closure loop lets some selected node's ancestors be skipped", via="loop-shape")
            R.check(adds, "R15.3", c, lp, "nx.ancestors of the node is added to the result", body[:100], via="loop-shape")
    R.check(any(norm(lp.iter) == sel for lp in loops), "R15.3", c, c.node, "the closure loops over the whole selection", "", via="loop-shape")
    R.check(bool(rets) and acc is not None and acc in norm(rets[-1].value), "R15.3", c, rets[-1] if rets else c.node, "the accumulated set is returned", "", via="syntax")
    removes = [x for x in ast.walk(c.node) if isinstance(x, ast.Call) and call_name(x) in ("remove", "discard", "difference_update", "pop", "clear")]
    R.check(not removes, "R15.3", c, removes[0] if removes else c.node, "nothing is removed from the closed set", "", via="syntax")
