"""C15 - subset export is closed under ancestors and contains nothing else (mechanism).

R15.1 taint: the `node_ids` selection reaches the outputs only through the ancestor closure
R15.2 one closed set feeds the rows / the subgraph / the segmentation mask; the exported
      segmentation keeps a label iff it is in that set (boolean membership mask)
R15.3 the closure is the union of the selection and nx.ancestors of EVERY selected node
"""

from __future__ import annotations

import ast

from ..model import AnalysisError, Program, call_name, norm
from ..report import Report

CLOSURE = "filter_graph_with_ancestors"


def uses_of(fn: ast.FunctionDef, name: str):
    return [n for n in ast.walk(fn) if isinstance(n, ast.Name) and n.id == name and isinstance(n.ctx, ast.Load)]


def parent_map(fn):
    pm = {}
    for n in ast.walk(fn):
        for c in ast.iter_child_nodes(n):
            pm[c] = n
    return pm


def worklist_ancestors(h) -> bool | None:
    """True if `h` is the textbook search:  queue = [start]; while queue: cur = queue.pop*(); for p in parents(cur):
    if p is new: mark it, add it to the result, enqueue it  -  with no other way out of the loops."""
    whiles = [w for w in ast.walk(h.node) if isinstance(w, ast.While)]
    if len(whiles) != 1:
        return None
    w = whiles[0]
    q = norm(w.test)
    if not isinstance(w.test, ast.Name):
        return None
    if any(isinstance(x, (ast.Break, ast.Return)) for x in ast.walk(w)):
        return None
    pops = [s_ for s_ in w.body if isinstance(s_, ast.Assign) and isinstance(s_.value, ast.Call) and call_name(s_.value) in ("pop", "popleft") and norm(s_.value.func.value) == q]
    fors = [f_ for f_ in w.body if isinstance(f_, ast.For)]
    if len(pops) != 1 or len(fors) != 1 or not isinstance(fors[0].target, ast.Name):
        return None
    cur, par = norm(pops[0].targets[0]), fors[0].target.id
    if cur not in norm(fors[0].iter):
        return None
    adds = {norm(x.func.value) for x in ast.walk(fors[0]) if isinstance(x, ast.Call) and call_name(x) in ("add", "append") and x.args and norm(x.args[0]) == par}
    rets = {norm(r.value) for r in ast.walk(h.node) if isinstance(r, ast.Return) and r.value is not None}
    if q not in adds or not (adds & rets):
        return None
    # the only skip is "already seen"
    for i in ast.walk(fors[0]):
        if isinstance(i, ast.If):
            t = norm(i.test).replace(" ", "")
            seen_sets = {a_ for a_ in adds}
            if not any(t in (f"{par}in{s_}", f"{par}notin{s_}") for s_ in seen_sets):
                return None
    return True


def explicit_walk(P: Program, R: Report, c, gparam: str, sel: str) -> None:
    """R15.4 - a hand-written parent walk instead of nx.ancestors.

    Invariant that makes such a walk a closure: when the function returns, every node in the result has its
    parent in the result (or has none).  A walk upwards from a node may therefore stop only
      (a) when there is no parent,
      (b) at a parent that is already in the RESULT - sound iff everything already in the result satisfies the
          invariant, i.e. iff every other way of stopping is sound too,
      (c) at a parent that is in the SELECTION - sound iff every selected node gets its own walk, i.e. iff the
          outer loop does not skip selected nodes that are already in the result.
    (c) together with such a skip is the recognised-bad combination: a selected inner node that is first reached
    from a selected descendant is added, the walk stops there, and its own walk is skipped.
    Any exit that is none of (a)-(c) is not decided."""
    from ..resolve import Resolver

    rs = Resolver(P, c)
    ret = [r for r in ast.walk(c.node) if isinstance(r, ast.Return) and r.value is not None]
    result = None
    for r in ret:
        v = r.value
        while isinstance(v, ast.Call) and call_name(v) in ("list", "sorted", "set") and v.args:
            v = v.args[0]
        if isinstance(v, ast.Name):
            result = v.id
    sel_names = {sel} | {n for n, d in rs._defs.items() if len(d) == 1 and norm(d[0]) in (f"set({sel})", f"list({sel})", f"frozenset({sel})", sel)}
    outer = [lp for lp in ast.walk(c.node) if isinstance(lp, ast.For) and norm(lp.iter) in sel_names | {f"set({sel})", f"list({sel})"} and isinstance(lp.target, ast.Name)]
    whiles = [w for lp in outer for w in ast.walk(lp) if isinstance(w, ast.While)]
    if result is None or len(outer) != 1 or len(whiles) != 1:
        R.undecided("R15.4", c, c.node, "the closure is computed by an explicit walk over predecessors", "walk shape not recognised: not decided")
        return
    lp, w = outer[0], whiles[0]
    node = lp.target.id

    def classify(cond: ast.expr, negate: bool) -> str:
        """kind of the exit condition (the condition under which the walk stops)"""
        if isinstance(cond, ast.UnaryOp) and isinstance(cond.op, ast.Not):
            return classify(cond.operand, not negate)
        if isinstance(cond, ast.Compare) and len(cond.ops) == 1:
            op, rhs = cond.ops[0], norm(cond.comparators[0])
            stop_is = isinstance(op, ast.Is) != negate if isinstance(op, (ast.Is, ast.IsNot)) else None
            if isinstance(op, (ast.Is, ast.IsNot)) and rhs == "None":
                return "none" if stop_is else "unknown"
            if isinstance(op, (ast.In, ast.NotIn)):
                stop_in = isinstance(op, ast.In) != negate
                if not stop_in:
                    return "unknown"
                if rhs == result:
                    return "result"
                if rhs in sel_names:
                    return "selection"
        return "unknown"

    exits: list[tuple[str, ast.AST, str]] = []
    # the loop test: the walk stops when any conjunct is false
    conj = w.test.values if isinstance(w.test, ast.BoolOp) and isinstance(w.test.op, ast.And) else [w.test]
    if isinstance(w.test, ast.BoolOp) and isinstance(w.test.op, ast.Or):
        exits.append(("unknown", w, norm(w.test)))
    elif not (isinstance(w.test, ast.Constant) and w.test.value is True):
        for cj in conj:
            exits.append((classify(cj, True), w, f"not ({norm(cj)})"))
    pm = parent_map(w)
    for b in ast.walk(w):
        if isinstance(b, (ast.Break, ast.Return)):
            g = pm.get(b)
            if isinstance(g, ast.If) and b in g.body and not (isinstance(g.test, ast.BoolOp)):
                exits.append((classify(g.test, False), b, norm(g.test)))
            else:
                exits.append(("unknown", b, norm(g.test) if isinstance(g, ast.If) else "?"))
        if isinstance(b, ast.Raise):
            exits.append(("unknown", b, "raise"))
    skip = False
    for st in lp.body:
        if st is w or any(x is w for x in ast.walk(st)):
            break
        if isinstance(st, ast.If) and any(isinstance(x, ast.Continue) for x in st.body):
            k = classify(st.test, False)
            if k == "result":
                skip = True
            else:
                exits.append(("unknown", st, norm(st.test)))
    # every node the walk stands on is added to the result
    step_vars = {t.id for st in ast.walk(w) if isinstance(st, ast.Assign) for t in st.targets if isinstance(t, ast.Name) and "predecessors" in norm(st.value)}
    added = {norm(x.args[0]) for x in ast.walk(lp) if isinstance(x, ast.Call) and call_name(x) == "add" and norm(x.func.value) == result and x.args}
    seeds_result = any(norm(d) in (f"set({sel})", f"{sel}.copy()") for d in rs._defs.get(result, []))
    if not step_vars or not step_vars <= added or not (node in added or seeds_result):
        R.undecided("R15.4", c, w, "the walk adds every node it visits to the result", f"visited {sorted(step_vars)}, added {sorted(added)}: not decided")
        return
    kinds = {k for k, _, _ in exits}
    if "unknown" in kinds:
        bad = [t for k, _, t in exits if k == "unknown"]
        R.undecided("R15.4", c, w, "the parent walk stops only where the ancestors are collected", f"exit conditions not recognised: {bad}")
        return
    if "none" not in kinds:
        R.undecided("R15.4", c, w, "the parent walk stops at a root", "no `is None` exit recognised")
        return
    for k, site, txt in exits:
        if k == "selection":
            R.check(not skip, "R15.4", c, site, "a walk may stop at a selected ancestor only if every selected node still gets its own walk",
                    f"the walk stops at `{txt}` while the outer loop skips selected nodes already in `{result}`: a selected inner node first reached "
                    "from a selected descendant never has its ancestors collected (exported rows then name a parent that is not exported)", via="loop-invariant")
        else:
            R.ok("R15.4", c, site, f"walk exit `{txt}` leaves the closure invariant intact", f"kind {k}", via="loop-invariant")


def run(P: Program, R: Report, tier: str) -> None:
    R.explanation = (
        "Taint analysis of the selection parameter in both exporters (it may flow only into the "
        "ancestor closure and `is None` tests), identity of the set that feeds every output, the "
        "membership-mask form of the segmentation filter and the loop shape of the closure."
    )
    R.decides += [
        "the selection reaches rows, subgraph and mask only as its ancestor closure, the same closed set everywhere",
        "the closure adds nx.ancestors of every selected node and removes nothing",
    ]
    R.decides += ['the parent of a row is never decided by truthiness of the parent id; the membership mask is np.isin without assume_unique / invert']
    R.not_decided += ["contents of the written files"]
    # the exporters and every facade of the same name that takes the selection (deprecated import locations forward it)
    exporters = [f for nm in ("export_to_csv", "export_to_geff") for f in P.find_funcs(nm) if f.parent is None and f.cls is None and "node_ids" in f.params]
    mains = [f for f in exporters if any(isinstance(c, ast.Call) and call_name(c) == CLOSURE for c in ast.walk(f.node))]
    if len(mains) < 2:
        raise AnalysisError(f"exporters that take the ancestor closure of a selection: found {len(mains)}")
    for f in [x for x in exporters if x not in mains]:
        # a facade: the selection is handed on unchanged (or only tested with `is None`)
        pm = parent_map(f.node)
        for u in uses_of(f.node, "node_ids"):
            par = pm.get(u)
            ok = isinstance(par, ast.keyword) and par.arg == "node_ids" or (isinstance(par, ast.Call) and u in par.args) or (
                isinstance(par, ast.Compare) and len(par.ops) == 1 and isinstance(par.ops[0], (ast.Is, ast.IsNot)) and norm(par.comparators[0]) == "None")
            R.check(ok, "R15.1", f, u, f"{f.short} (facade): the selection is forwarded as it is",
                    f"`node_ids` is used in `{norm(par)[:80]}`: a facade that tests or rewrites the selection changes which nodes are exported "
                    "(an empty selection tested by truthiness becomes 'no selection' = everything)", via="taint")
    for f in mains:
        if "node_ids" not in f.params:
            raise AnalysisError(f"{f.short} has no node_ids parameter")
        pm = parent_map(f.node)
        closure_vars = set()
        n_use = 0
        for u in uses_of(f.node, "node_ids"):
            n_use += 1
            par = pm.get(u)
            ok = False
            if isinstance(par, ast.Compare) and len(par.ops) == 1 and isinstance(par.ops[0], (ast.Is, ast.IsNot)) and norm(par.comparators[0]) == "None":
                ok = True
            if isinstance(par, ast.Call) and call_name(par) == CLOSURE and u in par.args[1:2]:
                ok = True
                asg = pm.get(par)
                while asg is not None and not isinstance(asg, ast.stmt):
                    asg = pm.get(asg)
                if isinstance(asg, ast.Assign) and isinstance(asg.targets[0], ast.Name):
                    closure_vars.add(asg.targets[0].id)
            if isinstance(par, ast.keyword) and par.arg in ("node_ids", "nodes_to_keep"):
                gp = pm.get(par)
                ok = isinstance(gp, ast.Call) and call_name(gp) in (CLOSURE, "export_to_csv", "export_to_geff")
            R.check(ok, "R15.1", f, u, f"{f.short}: `node_ids` is used only for the closure or an `is None` test",
                    f"`node_ids` flows into `{norm(par)[:80]}`: selected nodes reach an output without their ancestors", via="taint")
        R.floor("R15.1", f"uses of node_ids in {f.name}", n_use, 2)
        R.check(len(closure_vars) == 1, "R15.2", f, f.node, f"{f.short}: one variable holds the closed set", f"{sorted(closure_vars)}", via="dataflow")
        if not closure_vars:
            continue
        cv = next(iter(closure_vars))
        from ..resolve import Resolver as _Rs15

        rs15 = _Rs15(P, f)
        first_arg_ok = all(
            rs15.text(c.args[0]) == "tracks.graph" for c in ast.walk(f.node) if isinstance(c, ast.Call) and call_name(c) == CLOSURE
        )
        R.check(first_arg_ok, "R15.2", f, f.node, f"{f.short}: the closure is taken in the tracks graph", "", via="dataflow")
        if f.name == "export_to_csv":
            loops = [lp for lp in ast.walk(f.node) if isinstance(lp, ast.For) and any(isinstance(c, ast.Call) and call_name(c) == "append" and "rows" in norm(c.func.value) for c in ast.walk(lp))]
            iters = [norm(lp.iter) for lp in loops]
            # rows = [row(n) for n in <closed set>]
            for st_ in ast.walk(f.node):
                if isinstance(st_, (ast.Assign, ast.AnnAssign)) and st_.value is not None and isinstance(st_.value, (ast.ListComp, ast.GeneratorExp)) and "row" in norm(
                        st_.targets[0] if isinstance(st_, ast.Assign) else st_.target):
                    iters.append(norm(st_.value.generators[0].iter))
                    loops.append(st_)
            if not iters:
                R.undecided("R15.2", f, f.node, "CSV rows iterate the closed set", "construction of the rows not recognised")
            else:
                R.check(set(iters) == {cv}, "R15.2", f, loops[0], "CSV rows iterate the closed set", f"rows iterate `{iters}`", via="dataflow")  # one loop per output mode is fine: each iterates the closed set
            # the relabelled segmentation maps only exported ids
            ma = [c for c in ast.walk(f.node) if isinstance(c, ast.Call) and call_name(c) == "map_array"]
            if ma:
                iv = norm(ma[0].args[1])
                d = [s for s in ast.walk(f.node) if isinstance(s, ast.Assign) and norm(s.targets[0]) == iv]
                R.check(bool(d) and "df[" in norm(d[0].value) and "id" in norm(d[0].value), "R15.2", f, ma[0],
                        "the exported label image maps only the exported rows' ids (others fall to background)", norm(d[0].value)[:80] if d else "", via="dataflow")
        else:
            sub = [c for c in ast.walk(f.node) if isinstance(c, ast.Call) and call_name(c) == "subgraph"]
            R.check(len(sub) == 1 and norm(sub[0].args[0]) == cv, "R15.2", f, sub[0] if sub else f.node,
                    "the exported graph is the subgraph induced by the closed set", norm(sub[0])[:80] if sub else "no subgraph call", via="dataflow")
            if sub:
                g = pm.get(pm.get(sub[0]))
                copied = any(isinstance(c, ast.Call) and call_name(c) == "copy" and sub[0] in list(ast.walk(c)) for c in ast.walk(f.node))
                R.check(copied, "R15.2", f, sub[0], "the subgraph is copied (the tracks graph is left alone)", "", via="syntax")
            # segmentation: boolean membership mask of the closed set (in the exporter or in a helper it calls)
            def mask_sites(fn, closed, depth=0):
                out = []
                for st in ast.walk(fn.node):
                    if isinstance(st, ast.Assign) and isinstance(st.targets[0], ast.Subscript) and isinstance(st.targets[0].value, ast.Name):
                        val = st.value
                        if isinstance(val, ast.Name):
                            d = [x for x in ast.walk(fn.node) if isinstance(x, ast.Assign) and isinstance(x.targets[0], ast.Name) and x.targets[0].id == val.id]
                            val = d[0].value if len(d) == 1 else val
                        if isinstance(val, ast.Call) and call_name(val) in ("where", "minimum", "take", "choose") or "isin(" in norm(val) or (isinstance(val, ast.Subscript) and "[" in norm(val) and "block" in norm(val)):
                            out.append((fn, st, val, closed))
                if depth < 2:
                    for c in ast.walk(fn.node):
                        if isinstance(c, ast.Call) and isinstance(c.func, ast.Name):
                            q = P.resolve_name(fn.module, c.func.id)
                            callee = P.functions.get(q) if q else None
                            if callee is None or callee is fn:
                                continue
                            for pn, a in list(zip(callee.params, c.args, strict=False)) + [(k.arg, k.value) for k in c.keywords if k.arg]:
                                # `closed`, or `closed if <selection given> else None`
                                cands = [a.body, a.orelse] if isinstance(a, ast.IfExp) else [a]
                                cands = [x for x in cands if not (isinstance(x, ast.Constant) and x.value is None)]
                                if len(cands) == 1 and isinstance(cands[0], ast.Name) and cands[0].id == closed:
                                    out += mask_sites(callee, pn, depth + 1)
                return out

            sites = [x for x in mask_sites(f, cv) if "z[:]" not in norm(x[1])]
            if not sites:
                R.undecided("R15.2", f, f.node, "the exported segmentation is filtered chunk-wise through a membership mask", "no filtered write found")
            for fn, st, val, closed in sites:
                mask_ok = False
                aliases = {closed}
                for x in ast.walk(fn.node):
                    if isinstance(x, ast.Assign) and isinstance(x.targets[0], ast.Name) and isinstance(x.value, ast.Call) and call_name(x.value) in ("asarray", "array", "list", "fromiter", "sorted", "set", "tuple"):
                        inner_ = x.value.args[0] if x.value.args else None
                        while isinstance(inner_, ast.Call) and call_name(inner_) in ("list", "tuple", "sorted", "set") and inner_.args:
                            inner_ = inner_.args[0]
                        if isinstance(inner_, ast.Name) and inner_.id in aliases:
                            aliases.add(x.targets[0].id)
                if isinstance(val, ast.Call) and call_name(val) == "where" and len(val.args) == 3 and norm(val.args[2]) == "0":
                    m = val.args[0]
                    if isinstance(m, ast.Name):
                        d = [x for x in ast.walk(fn.node) if isinstance(x, ast.Assign) and isinstance(x.targets[0], ast.Name) and x.targets[0].id == m.id]
                        m = d[0].value if len(d) == 1 else m
                    mask_ok = isinstance(m, ast.Call) and call_name(m) == "isin" and norm(m.args[1]) in aliases and norm(m.args[0]) == norm(val.args[1])
                    flags = [k for k in m.keywords if k.arg in ("assume_unique", "invert") and not (isinstance(k.value, ast.Constant) and k.value.value is False)] if mask_ok else []
                    if flags:
                        R.fail("R15.2", fn, st, "the membership mask is computed for an array with repeated labels",
                               f"`{norm(m)[:80]}`: `{flags[0].arg}` changes the answer for a pixel block - assume_unique promises that BOTH arrays have no repeated "
                               "values, a block of pixels is full of them, and numpy's sort-based path then marks runs of unselected labels as contained")
                        continue
                R.check(mask_ok, "R15.2", fn, st, "a pixel keeps its label iff the label is in the closed set (np.where(np.isin(block, closed), block, 0))",
                        f"filtered block is `{norm(val)[:110]}`: labels outside the closed set can survive or be renamed", via="guard-shape")
                # the view of the live array is not written in place
                blk = [x for x in ast.walk(fn.node) if isinstance(x, ast.Assign) and isinstance(x.targets[0], ast.Name) and isinstance(x.value, ast.Subscript) and "slices" in norm(x.value.slice)]
                for b_ in blk:
                    nm = b_.targets[0].id
                    stores = [x for x in ast.walk(fn.node) if isinstance(x, (ast.Assign, ast.AugAssign)) and any(isinstance(t, ast.Subscript) and norm(t.value) == nm for t in (x.targets if isinstance(x, ast.Assign) else [x.target]))]
                    R.check(not stores, "R15.2", fn, stores[0] if stores else b_, "the chunk read from the live segmentation is not written in place", "", via="syntax")
    # ---- R15.3 closure shape
    c = P.func_named(CLOSURE)
    gparam, sel = c.params[0], c.params[1]
    anc = [x for x in ast.walk(c.node) if isinstance(x, ast.Call) and norm(x.func) in ("nx.ancestors", "networkx.ancestors", "ancestors")]
    # a module helper that computes the ancestors of ONE node by a complete worklist search counts as nx.ancestors
    for x in ast.walk(c.node):
        if isinstance(x, ast.Call) and isinstance(x.func, ast.Name) and len(x.args) >= 2:
            h = P.functions.get(P.resolve_name(c.module, x.func.id) or "")
            if h is not None and h is not c and "predecessors" in norm(h.node):
                v = worklist_ancestors(h)
                if v is True:
                    anc.append(x)
                    R.ok("R15.3", h, h.node, f"{h.short} collects every ancestor of its start node (complete worklist search)", via="loop-shape")
                else:
                    R.undecided("R15.3", h, h.node, f"{h.short} collects every ancestor of its start node", "worklist shape not recognised")
                    anc.append(x)
    if not anc:
        walks = [x for x in ast.walk(c.node) if isinstance(x, ast.Call) and call_name(x) in ("predecessors", "in_edges", "reverse")]
        if walks:
            explicit_walk(P, R, c, gparam, sel)
        else:
            R.fail("R15.3", c, c.node, "the closure adds the ancestors of the selected nodes", "no ancestor computation found")
    pmc = parent_map(c.node)
    for call in anc:
        node_arg = norm(call.args[1]) if len(call.args) > 1 else "?"
        R.check(norm(call.args[0]) == gparam, "R15.3", c, call, "ancestors are taken in the given graph", norm(call)[:60], via="dataflow")
        # the iteration that binds the node argument
        it, conds, cur = None, [], call
        while cur in pmc:
            par = pmc[cur]
            if isinstance(par, ast.For) and isinstance(par.target, ast.Name) and par.target.id == node_arg:
                it = par.iter
                idx = None
                for i_, st in enumerate(par.body):
                    if any(x is call for x in ast.walk(st)):
                        idx = i_
                early = [x for st in par.body[: (idx or 0) + 1] for x in ast.walk(st) if isinstance(x, (ast.Continue, ast.Break, ast.Return))]
                conds += [norm(x) for x in early]
                break
            if isinstance(par, (ast.GeneratorExp, ast.ListComp, ast.SetComp)):
                for g in par.generators:
                    if isinstance(g.target, ast.Name) and g.target.id == node_arg:
                        it = g.iter
                        conds += [norm(x) for x in g.ifs]
                if it is not None:
                    break
            if isinstance(par, ast.If):
                conds.append(norm(par.test))
            cur = par
        R.check(it is not None and norm(it) in (sel, f"set({sel})", f"list({sel})"), "R15.3", c, call, "ancestors are taken for every node of the selection",
                f"the node argument `{node_arg}` ranges over `{norm(it) if it is not None else '?'}`", via="loop-shape")
        R.check(not conds, "R15.3", c, call, "every selected node is processed unconditionally",
                f"conditions / early exits on the way: {conds}: some selected node's ancestors can be skipped", via="loop-shape")
    src = norm(c.node)
    starts = f"set({sel})" in src or f"{sel}.copy()" in src or f"{sel} |" in src or f"| {sel}" in src or f".union({sel}" in src
    R.check(starts, "R15.3", c, c.node, "the result contains the selection itself", "", via="syntax")
    removes = [x for x in ast.walk(c.node) if isinstance(x, ast.Call) and call_name(x) in ("remove", "discard", "difference_update", "pop", "clear", "difference", "intersection", "intersection_update")]
    R.check(not removes, "R15.3", c, removes[0] if removes else c.node, "nothing is removed from the closed set", "", via="syntax")
    exporters_keep_no_memo(P, R, "R15.5")
    # ---- R15.6 (= R14.7) "no parent" is decided by `is None` / emptiness, never by truthiness of the parent id: node 0 is a
    # legal parent, and `parent or ""` writes its children as roots - an exported node with a missing parent link
    from .c05 import id_truthiness

    id_truthiness(P, R, "R15.6", modules=("import_export",))


def exporters_keep_no_memo(P: Program, R: Report, rule: str) -> None:
    """An export is a function of the CURRENT tracks and the selection.  A module-level container that export code
    fills and reads back (a cache of the position-split graph, of closures, ...) makes the output depend on an earlier
    export: after an edit that the cache's validity test does not notice, nodes are written with stale edges."""
    mods = {f.module.name: f.module for f in P.functions.values() if ".import_export." in f.qname and ("export" in f.qname or f.name == CLOSURE)}
    n = 0
    for mod in mods.values():
        containers = {}
        for s_ in mod.tree.body:
            tg = s_.targets[0] if isinstance(s_, ast.Assign) and len(s_.targets) == 1 else (s_.target if isinstance(s_, ast.AnnAssign) else None)
            v = getattr(s_, "value", None)
            if isinstance(tg, ast.Name) and v is not None and (isinstance(v, (ast.Dict, ast.List, ast.Set)) or (
                    isinstance(v, ast.Call) and (call_name(v) or "") in ("dict", "list", "set", "defaultdict", "WeakKeyDictionary", "WeakValueDictionary", "OrderedDict", "lru_cache"))):
                containers[tg.id] = s_
        for fn in [f for f in P.functions.values() if f.module is mod]:
            for x in ast.walk(fn.node):
                name = None
                if isinstance(x, (ast.Assign, ast.AugAssign)):
                    for t in (x.targets if isinstance(x, ast.Assign) else [x.target]):
                        if isinstance(t, ast.Subscript) and isinstance(t.value, ast.Name) and t.value.id in containers:
                            name = t.value.id
                if isinstance(x, ast.Call) and isinstance(x.func, ast.Attribute) and isinstance(x.func.value, ast.Name) and x.func.value.id in containers and x.func.attr in (
                        "append", "add", "update", "setdefault", "extend", "__setitem__"):
                    name = x.func.value.id
                if isinstance(x, ast.Global) and any(g_ in containers for g_ in x.names):
                    name = next(g_ for g_ in x.names if g_ in containers)
                if name:
                    n += 1
                    R.fail(rule, fn, x, f"{fn.short} keeps no state between exports",
                           f"`{norm(x)[:70]}` fills the module-level `{name}`: a later export can be answered from what an earlier one stored "
                           "(stale edges / nodes after an edit the cache does not notice)")
            for d in fn.node.decorator_list:
                if "cache" in norm(d):
                    n += 1
                    R.fail(rule, fn, d, f"{fn.short} keeps no state between exports", f"decorated with `{norm(d)}`: results are reused across edits")
    if n == 0:
        R.ok(rule, "import_export", "", "the export modules keep no module-level memo", via="effects")
