"""C07 - segmentation labels and nodes stay in one-to-one correspondence (structural part).

R07.1 single writer of the array; set_pixels is called only from primitives
R07.2 the value painted is the action's own node id or 0
R07.3 painting / clearing is coupled to adding / removing the same node
R07.4 the paint update decomposes every previous label into exactly one sub-edit, and the
      new label into exactly one
R07.5 a painted-over node is deleted only under the test that none of its pixels remain
R07.6 pixels handed to a user action reach the primitive that needs them for undo
R07.8 each sub-edit of the paint update records the pixel group of its own node (painted label: all groups)
R07.7 get_pixels compares the node's own frame with the node id and prepends that time
"""

from __future__ import annotations

import ast

from ..actions import ActionAnalysis, strip
from ..effects import Effects
from ..model import AnalysisError, Program, call_name, norm
from ..report import Report


def _subst_tracks_helpers(P: Program, tracks, e: ast.expr, depth: int = 0) -> ast.expr:
    """replace `<..>tracks.m(args)` by the returned expression of m (a one-return helper of the data model), parameters
    bound to the arguments and `self` to the receiver"""
    import copy as _copy

    if depth > 3:
        return e

    class T(ast.NodeTransformer):
        def visit_Call(self, c):
            self.generic_visit(c)
            if isinstance(c.func, ast.Attribute) and norm(c.func.value).split(".")[-1] in ("tracks", "self") and not c.keywords:
                m = P.lookup_method(tracks.qname, c.func.attr)
                if m is not None:
                    rets = [r for r in ast.walk(m.node) if isinstance(r, ast.Return) and r.value is not None]
                    body = [st for st in m.node.body if not (isinstance(st, ast.Expr) and isinstance(st.value, ast.Constant))]
                    if len(rets) == 1 and len(body) == 1 and len(c.args) == len(m.params) - 1:
                        bind = dict(zip(m.params[1:], c.args, strict=True))
                        recv = c.func.value

                        class B(ast.NodeTransformer):
                            def visit_Name(self, n):
                                if n.id in bind:
                                    return _copy.deepcopy(bind[n.id])
                                if n.id == "self":
                                    return _copy.deepcopy(recv)
                                return n

                        return _subst_tracks_helpers(P, tracks, B().visit(_copy.deepcopy(rets[0].value)), depth + 1)
            return c

    return T().visit(_copy.deepcopy(e))


def deletion_guard(P: Program, R: Report, f, tracks) -> None:
    """A painted-over node is deleted exactly when the mask `segmentation[time] == old_value` is empty.  The test is read
    through locals and one-line helpers of the data model; accepted emptiness forms are listed, a test with an extra
    condition or a threshold other than zero is recognised bad, anything else is `undecided`."""
    from ..resolve import Resolver

    rs = Resolver(P, f)
    label = "a node is deleted by a stroke exactly when none of its pixels remain in its frame"

    def is_mask(e: ast.expr) -> bool:
        return (isinstance(e, ast.Compare) and len(e.ops) == 1 and isinstance(e.ops[0], ast.Eq) and isinstance(e.left, ast.Subscript)
                and norm(e.left.value).endswith("segmentation") and norm(e.left.slice) == "time" and norm(e.comparators[0]) == "old_value")

    def emptiness(e: ast.expr):
        """True: `mask is empty`; False: recognised other test; None: unknown"""
        if isinstance(e, ast.UnaryOp) and isinstance(e.op, ast.Not):
            x = e.operand
            if isinstance(x, ast.Call) and call_name(x) in ("any", "sum", "count_nonzero") and ((x.args and is_mask(x.args[0])) or (isinstance(x.func, ast.Attribute) and is_mask(x.func.value))):
                return True
            return None
        if isinstance(e, ast.Compare) and len(e.ops) == 1 and isinstance(e.left, ast.Call) and call_name(e.left) in ("sum", "count_nonzero", "len") :
            x = e.left
            arg = x.args[0] if x.args else (x.func.value if isinstance(x.func, ast.Attribute) else None)
            if isinstance(arg, ast.Call) and call_name(arg) in ("nonzero", "flatnonzero", "argwhere") and arg.args:
                arg = arg.args[0]
            if arg is not None and is_mask(arg):
                k = e.comparators[0]
                if isinstance(k, ast.Constant):
                    if (isinstance(e.ops[0], ast.Eq) and k.value == 0) or (isinstance(e.ops[0], ast.LtE) and k.value == 0) or (isinstance(e.ops[0], ast.Lt) and k.value == 1):
                        return True
                    return False
        return None

    n = 0
    for g in ast.walk(f.node):
        if not (isinstance(g, ast.If) and any(isinstance(x, ast.Call) and call_name(x) == "UserDeleteNode" for s_ in g.body for x in ast.walk(s_))):
            continue
        n += 1
        test = g.test
        if isinstance(test, ast.BoolOp):
            R.fail("R07.5", f, g, label, f"deletion guard is `{norm(test)[:140]}`: an extra condition decides whether a node without pixels is deleted (or one with pixels is)")
            continue
        e = _subst_tracks_helpers(P, tracks, rs.expand(test))
        e = rs.expand(e)
        v = emptiness(e)
        if v is True:
            R.ok("R07.5", f, g, label, f"`{norm(test)[:80]}` is the emptiness of segmentation[time] == old_value", via="guard-shape")
        elif v is False:
            R.fail("R07.5", f, g, label, f"deletion guard is `{norm(test)[:140]}`: a node can be deleted while some of its label remains (or kept with none)")
        else:
            R.undecided("R07.5", f, g, label, f"guard `{norm(e)[:100]}` not recognised")
    if n == 0:
        R.undecided("R07.5", f, f.node, label, "no conditional UserDeleteNode in the paint update")


def run(P: Program, R: Report, tier: str) -> None:
    R.explanation = (
        "Who-may-write analysis of the segmentation array (E4) and who-may-call of set_pixels; "
        "argument provenance at the paint sites; path summaries of the paint-update action; "
        "shape of the node-deletion guard; parameter flow of `pixels`."
    )
    R.decides += [
        "only Tracks.set_pixels writes the array and only primitives call it, with the node's own id or 0, coupled to the node-set change",
        "each previous label of a stroke becomes exactly one delete-node or shrink-node sub-edit and the new label exactly one grow-node or add-node",
        "a node is deleted by a stroke only when no pixel of it remains; pixels given to a user action reach the primitive",
    ]
    R.decides += ['one history step per top-level action and a pure inverse() (shared R02.6 / R02.8); memo discipline']
    R.not_decided += ["pixel geometry, that pixel tuples lie in the node's frame, bit-exact restoration of the array"]
    E = Effects(P)
    A = ActionAnalysis(P)
    tracks = P.class_named("Tracks")
    # ---- R07.1
    n = 0
    writer = None
    for q, s in E.summ.items():
        fn = P.functions[q]
        for p, pa, kind, w in s.effects:
            if "segmentation" not in pa or not w.startswith(fn.module.rel + ":"):
                continue
            line = int(w.rsplit(":", 1)[1])
            if not (fn.node.lineno <= line <= (fn.node.end_lineno or 0)) or fn.parent is not None:
                continue
            if any(sub.node.lineno <= line <= (sub.node.end_lineno or 0) for sub in fn.locals_.values()):
                continue
            if fn.cls is None or not P.is_subclass(fn.cls.qname, "Tracks") and p != "tracks" and "tracks" not in pa:
                # storage named `segmentation` on some other object (builders, arrays being constructed)
                if not (p in ("tracks",) or (fn.cls is not None and P.is_subclass(fn.cls.qname, "Tracks"))):
                    continue
            n += 1
            if pa == ("segmentation",):
                ok = fn.name == "__init__"
                R.check(ok, "R07.1", fn, w, f"{fn.short} rebinds the segmentation attribute only at construction",
                        f"{fn.short} replaces the segmentation array", via="who-may-write")
            else:
                ok = fn.cls is not None and P.is_subclass(fn.cls.qname, "Tracks") and fn.name == "set_pixels"
                writer = fn if ok else writer
                R.check(ok, "R07.1", fn, w, f"{fn.short} is the single writer of segmentation pixels",
                        f"{fn.short} writes pixels of a tracks segmentation directly: node set and labels can diverge", via="who-may-write")
    R.floor("R07.1", "segmentation write sites", n, 2)
    prim_methods = {m.qname: c for c in A.primitives for m in c.methods.values()}
    from ..inline import effective_body, only_called_from

    # primitives are read with the private data-model helpers they delegate to pasted in
    eff_nodes = {}
    for c_ in A.primitives:
        for m_ in c_.methods.values():
            if m_.name == "_apply":
                eff_nodes[m_.qname] = effective_body(P, m_)
    sites = []
    for fn in P.functions.values():
        if fn.parent is not None:
            continue
        node_ = eff_nodes.get(fn.qname, fn.node)
        for c in ast.walk(node_):
            if isinstance(c, ast.Call) and call_name(c) == "set_pixels" and isinstance(c.func, ast.Attribute):
                if fn.qname not in prim_methods and fn.cls is not None and P.is_subclass(fn.cls.qname, "Tracks") and fn.name.startswith("_") \
                        and only_called_from(P, fn, set(prim_methods)):
                    continue  # a private helper of the data model used by primitives only: seen through the primitive
                sites.append((fn, c))
                R.check(fn.qname in prim_methods, "R07.1", fn, c, f"set_pixels is called from a primitive ({fn.short})",
                        f"{fn.short} paints without going through an invertible primitive", via="who-may-call")
    R.floor("R07.1", "set_pixels call sites", len(sites), 3)
    # ---- R07.2 / R07.3
    for fn, c in sites:
        if fn.qname not in prim_methods:
            continue
        val = c.args[1] if len(c.args) > 1 else next((k.value for k in c.keywords if k.arg == "value"), None)
        txt = norm(val)
        # resolve a local defined by one assignment
        from ..resolve import Resolver as _Rs

        fnode = eff_nodes.get(fn.qname, fn.node)
        rs7 = _Rs(P, fn)
        cands = [rs7.text(val)]
        if isinstance(val, ast.Name):
            defs = rs7._defs.get(val.id, [])
            if len(defs) > 1:
                cands = [rs7.text(d_) for d_ in defs]  # every value the local can hold (conditional expressions are split into branches)
        txt = " | ".join(sorted(set(cands)))

        def own_or_zero(e: str) -> bool:
            e = e.strip()
            if e in ("self.node", "0"):
                return True
            m_ = __import__("re").fullmatch(r"(.+) if (.+) else (.+)", e)
            return bool(m_) and own_or_zero(m_.group(1)) and own_or_zero(m_.group(3))

        R.check(all(own_or_zero(x) for x in cands), "R07.2", fn, c, f"{fn.short} paints with the action's own node id or 0 ({txt})",
                f"value painted is `{txt}`", via="dataflow")
        cls = prim_methods[fn.qname]
        body = norm(fnode)
        if "add_node(" in body or "remove_node(" in body:
            which = "add_node" if "add_node(" in body else "remove_node"
            gcall = next(x for x in ast.walk(fnode) if isinstance(x, ast.Call) and call_name(x) == which)
            same = rs7.text(gcall.args[0]) == "self.node"
            want = "self.node" if which == "add_node" else "0"
            R.check(same and txt == want, "R07.3", fn, c, f"{cls.name}: {'painting' if which == 'add_node' else 'clearing'} is coupled to {which}(self.node)",
                    f"{which}({rs7.text(gcall.args[0])}) with painted value {txt}", via="dataflow")
            # the paint is conditional only on pixels being present
            guards = [g for g in ast.walk(fnode) if isinstance(g, ast.If) and c in list(ast.walk(g))]
            ok = all(norm(g.test) in ("self.pixels is not None", "self.pixels") for g in guards) and len(guards) <= 1
            R.check(ok, "R07.3", fn, c, f"{cls.name}: the array is written whenever pixels are present",
                    f"extra condition on the paint: {[norm(g.test) for g in guards]}", via="syntax")
    # converse: a primitive that adds / removes a node and carries pixels paints / clears them
    for c in A.primitives:
        ap = c.methods.get("_apply")
        if ap is None:
            continue
        body = norm(eff_nodes.get(ap.qname, ap.node))
        if ("add_node(" in body or "remove_node(" in body) and "self.pixels" in norm(c.node):
            R.check("set_pixels(" in body, "R07.3", ap, ap.node, f"{c.name}._apply writes the node's pixels together with the node-set change",
                    f"{c.name} changes the node set but leaves the array alone: a label without a node (or a node without label) remains", via="syntax")
    # capture: the destructive primitive remembers the pixels it clears
    for c in A.primitives:
        ap = c.methods.get("_apply")
        if ap is not None and "remove_node(" in norm(eff_nodes.get(ap.qname, ap.node)):
            init = A.init_of(c)
            src = norm(init.node)
            R.check("get_pixels(" in src, "R07.3", init, init.node, f"{c.name} captures the node's pixels when none are given",
                    "a deleted node's mask would not be restorable", via="syntax")

    # ---- R07.4 decomposition of the paint update
    uus = [c for c in A.user_actions if any(isinstance(x, ast.Call) and call_name(x) == "UpdateNodeSeg" for x in ast.walk(c.node))]
    if not uus:
        raise AnalysisError("paint-update user action not found")
    for c in uus:
        f = A.init_of(c)
        _, results = A.run(f)
        keep = lambda e: e.xdepth == 0 and e.kind == "construct"  # noqa: E731
        n_seq = 0
        pair_seen: set = set()
        for pr in results:
            if pr.kind == "raise":
                continue
            for seq in pr.sequences(lambda e: (e.xdepth == 0 and e.kind == "construct") or (e.kind == "cond" and e.xdepth == 0)):
                n_seq += 1
                cons = [e for e in seq if e.kind == "construct"]
                conds = {strip(e.name): e.args["outcome"] for e in seq if e.kind == "cond"}
                loop_items = [e for e in cons if e.name in ("UserDeleteNode", "UpdateNodeSeg") and "updated_pixels[" in str(e.args)]
                old_zero = conds.get("old_value == 0")
                # per loop iteration (unrolled once): a non-zero previous label gives exactly one sub-edit
                per_old = [e for e in cons if (e.name == "UserDeleteNode") or (e.name == "UpdateNodeSeg" and e.args.get("added") == "False")]
                if old_zero is False:
                    R.check(len(per_old) == 1, "R07.4", f, per_old[0].where() if per_old else f.loc,
                            "a non-zero previous label becomes exactly one delete-node or shrink-node sub-edit",
                            f"{len(per_old)} sub-edits for one previous label", via="path-count")
                elif old_zero is True:
                    R.check(len(per_old) == 0, "R07.4", f, f.loc, "a background previous label needs no sub-edit", "", via="path-count")
                per_new = [e for e in cons if (e.name == "UserAddNode") or (e.name == "UpdateNodeSeg" and e.args.get("added") == "True")]
                painted = conds.get("new_value == 0") is False and conds.get("updated_pixels") is not False and "updated_pixels" in conds
                if conds.get("new_value == 0") is False and conds.get("updated_pixels") is True:
                    R.check(len(per_new) == 1, "R07.4", f, per_new[0].where() if per_new else f.loc,
                            "a non-zero new label becomes exactly one grow-node or add-node sub-edit",
                            f"{len(per_new)} sub-edits for the new label", via="path-count")
                    if per_new and per_new[0].name == "UserAddNode":
                        R.check(per_new[0].args.get("node") == "$new_value" and per_new[0].args.get("pixels") not in (None, "None"),
                                "R07.4", f, per_new[0].where(), "the added node is the painted label and carries the painted pixels",
                                str({k: v for k, v in per_new[0].args.items() if k in ("node", "pixels")}), via="dataflow")
                elif conds.get("new_value == 0") is True:
                    R.check(len(per_new) == 0, "R07.4", f, f.loc, "erasing adds nothing", "", via="path-count")
                # R07.8 each sub-edit records the pixel group that belongs to ITS node: a previous label its own group,
                # the painted label the union of all groups (never one group of the change list)
                import re as _re

                for e in cons:
                    px, nd = e.args.get("pixels"), e.args.get("node")
                    if px in (None, "None") or nd is None:
                        continue
                    el_n = _re.fullmatch(r"\$(\w+)\[(\d+)\]\[1\]", nd)
                    el_p = _re.fullmatch(r"\$(\w+)\[(\d+)\]\[0\]", px)
                    key = (e.name, nd, px)
                    if key in pair_seen:
                        continue
                    pair_seen.add(key)
                    if el_n:
                        R.check(bool(el_p) and el_p.groups() == el_n.groups(), "R07.8", f, e.where(),
                                f"{e.name} for a previous label records that label's own pixel group",
                                f"node {strip(nd)} is recorded with pixels {strip(px)}: undo restores the wrong pixels", via="interp-args")
                    elif nd == "$new_value":
                        R.check(not el_p, "R07.8", f, e.where(), f"{e.name} for the painted label records the union of all changed pixel groups",
                                f"the painted label is recorded with the single group {strip(px)} (a loop variable left over from the scan of the "
                                "change list): undo clears only that group and the array is not restored", via="interp-args")
        R.floor("R07.4", "paint-update sequences", n_seq, 6)
        release_before_claim(R, f, results, "R07.10")
        R.floor("R07.8", "(node, pixels) pairs recorded by the paint update", len(pair_seen), 3)
        # ---- R07.5 deletion guard
        deletion_guard(P, R, f, tracks)

    # ---- R07.6 pixels reach the primitive
    for c in A.user_actions:
        f = A.init_of(c)
        if "pixels" not in f.params:
            continue
        _, results = A.run(f)
        ok_all, seen = True, 0
        for pr in results:
            if pr.kind == "raise":
                continue
            for seq in pr.sequences(lambda e: e.kind == "construct" and e.xdepth == 0 and e.args.get("_kind") == "prim" and "pixels" in e.args):
                for e in seq:
                    seen += 1
                    if e.args.get("pixels") != "$pixels":
                        ok_all = False
                        R.fail("R07.6", f, e.where(), f"{c.name}: the caller's pixels reach {e.name}",
                               f"{e.name} is constructed with pixels={e.args.get('pixels')}: the caller's pixels are dropped, "
                               "after a paint stroke the mask can no longer be recovered for undo")
        if seen and ok_all:
            R.ok("R07.6", f, f.node, f"{c.name}: the caller's pixels reach the primitive that records them", via="dataflow")
    # ---- R07.11 undo / redo replay the recorded strokes in timeline order (history shape, shared with C02)
    from . import c02 as _c02

    _c02.history_shape(P, R)
    # ---- R07.9 _apply does not recompute the pixels it was handed (undo must restore exactly what the stroke changed)
    from .c01 import apply_keeps_inverse_inputs

    apply_keeps_inverse_inputs(P, R, "R07.9")
    # ---- R07.7 query shape
    from ..resolve import Resolver

    gp = tracks.methods.get("get_pixels")
    if gp is None:
        raise AnalysisError("Tracks.get_pixels not found")
    rs = Resolver(P, gp)
    node_p = gp.params[1]
    cmps = [c for c in ast.walk(gp.node) if isinstance(c, ast.Compare) and len(c.ops) == 1 and isinstance(c.ops[0], ast.Eq) and "segmentation[" in rs.text(c.left)]
    if not cmps:
        R.undecided("R07.7", gp, gp.node, "get_pixels selects the node's pixels by comparing a frame with the node id", "shape not recognised")
    for c in cmps:
        left, right = rs.text(c.left), rs.text(c.comparators[0])
        good = left == f"self.segmentation[self.get_time({node_p})]" and right == node_p
        R.check(good, "R07.7", gp, c, "get_pixels compares the node's own frame with the node id",
                f"compares `{left}` with `{right}`", via="provenance")
    rets = [r for r in ast.walk(gp.node) if isinstance(r, ast.Return) and r.value is not None and norm(r.value) != "None"]
    for r in rets:
        t = rs.expand(r.value)
        if isinstance(t, ast.Tuple) and t.elts:
            R.check(f"self.get_time({node_p})" in norm(t.elts[0]), "R07.7", gp, r, "get_pixels prepends the node's time index",
                    norm(t.elts[0])[:80], via="provenance")
    # ---- R07.12 a query of the data model never answers from a memo that some writer forgets to drop
    from .memo import no_stale_memo

    no_stale_memo(P, R, "R07.12")
    # ---- R02.6 (shared): every top-level action is one history step and a nested one none - a stray step makes a later
    # undo / redo replay half an edit, which is a state this property quantifies over ("after every ... undo or redo")
    from . import c02 as _c02r

    _c02r.registration(P, R, tier, A=A, facade=False)


def release_before_claim(R: Report, f, results, rule: str) -> None:
    """The previous labels give their pixels up BEFORE the painted label takes them.  Giving up = writing 0 at those
    pixels; done after the claim it wipes the painted label there (the array is no longer as painted, and the painted
    node was measured on pixels it does not keep)."""
    n_ord = 0
    for pr in results:
        if pr.kind == "raise":
            continue
        for seq in pr.sequences(lambda e: e.xdepth == 0 and e.kind == "construct"):
            claim = [i for i, e in enumerate(seq) if e.args.get("node") == "$new_value"]
            release = [i for i, e in enumerate(seq) if str(e.args.get("node", "")).startswith("$updated_pixels[")]
            if claim and release:
                n_ord += 1
                R.check(max(release) < min(claim), rule, f, seq[min(claim)].where(),
                        "the sub-edits of the previous labels precede the sub-edit of the painted label",
                        "the painted label is added / grown before an overlapped node gives up its pixels: that node's shrink then writes 0 over "
                        "freshly painted pixels (and the painted node keeps measurements of pixels it lost)", via="path-order")
    R.floor(rule, "paths with both a release and a claim", n_ord, 1)
