"""C03 - edits keep a solution a forward-in-time binary forest.

R03.1  single gate: on a tracks graph `add_edge` is called only from a primitive's _apply;
       the edge-adding primitive is constructed only by user actions and by inverses.
R03.2  guarded construction: at every add_edge reached from a user-action constructor, on
       every path, the facts prove  in-degree(target)==0,  out-degree(source)<=1  and
       time(source) < time(target)  (named axioms may supply degree bounds).
R03.3  strictness of the comparisons the time facts rest on (get_track_neighbors contract).
plus R02.2-R02.4: undo/redo apply inverses in the right order (a reordered undo re-adds an
edge next to one that was never removed).
"""

from __future__ import annotations

import ast

from ..absint import AState, Event
from ..actions import ActionAnalysis, strip, trail_text
from ..model import AnalysisError, Program, call_name, norm
from ..report import Report
from . import c02


def snap_state(pre: dict) -> AState:
    s = AState()
    s.facts = pre["facts"]
    s.din = pre["din"]
    s.dout = pre["dout"]
    s.timeeq = pre["timeeq"]
    s.epoch = pre["epoch"]
    return s


def deg(s: AState, which: str, n: str):
    tab = s.din if which == "in" else s.dout
    if n in tab:
        return tab[n]
    if s.has("fresh", n):
        return (0, 0, False)
    return (0, 1 if which == "in" else 2, True)


OWN_P: list = []


def own_neighbours_exception(f, ev: Event, src: str, tgt: str) -> bool:
    """Reviewed exception (ii): reconnecting the track neighbours of the node that is being
    removed.  Witnesses: source/target are the two results of ONE get_track_neighbors call on
    the node's own track id and time, and loops deleting the edges over predecessors(node)
    and successors(node) precede the site in the same constructor."""
    if not (src.endswith("[0]") and tgt.endswith("[1]") and src[:-3] == tgt[:-3]):
        return False
    base = src[:-3]
    if not base.startswith("nbrs(tid("):
        return False
    inner = base[len("nbrs(tid("):]
    node = inner.split(")@")[0]
    if f"time({node})" not in base:
        return False
    loops = {"predecessors": False, "successors": False}
    from ..resolve import Resolver

    methods = list(f.cls.methods.values()) if f.cls is not None else [f]
    for m in methods:
        rs = Resolver(OWN_P[0], m) if OWN_P else None
        for n in ast.walk(m.node):
            gens = []
            if isinstance(n, ast.For):
                gens = [(n.iter, n)]
            elif isinstance(n, (ast.ListComp, ast.GeneratorExp, ast.SetComp)):
                gens = [(g.iter, n) for g in n.generators]
            for it_expr, scope in gens:
                it = rs.text(it_expr) if rs else norm(it_expr)
                for k in loops:
                    if f".{k}(" in it and any(isinstance(x, ast.Call) and call_name(x) == "DeleteEdge" for x in ast.walk(scope)):
                        loops[k] = True
    return all(loops.values())


def run(P: Program, R: Report, tier: str) -> None:
    R.explanation = (
        "Who-may-call analysis of graph.add_edge over the package; abstract interpretation of every "
        "user-action constructor (primitives and nested actions inlined) collecting, at each "
        "add_edge, the degree and time-order facts established by guards on that path; a contract "
        "check of get_track_neighbors; the history-shape algebra of C02."
    )
    R.decides += [
        "every place an edge can enter a solution graph carries the merge, division and time-order guards on every path",
        "the time facts used rest on strict comparisons",
        "undo/redo re-apply recorded inverses in timeline order",
    ]
    R.decides += ['history shape, one history step per top-level action, inverse() leaves the recorded step alone; no positional reads of per-track lists; memo discipline of the data-model queries']
    R.not_decided += [
        "the inductive step in full generality (AX-FOREST / AX-TRACKPATH are assumed at the start of each action)",
    ]
    R.assumptions += [
        "AX-FOREST at action start: in-degree <= 1, out-degree <= 2",
        "AX-TRACKPATH: same-track nodes form a path; time-consecutive members are adjacent; a single child shares its parent's track id",
        "distinct terms denote distinct nodes unless compared",
    ]
    A = ActionAnalysis(P, loop_iters=1 if tier == "quick" else 2)
    OWN_P[:] = [P]

    # ---- R03.1 single gate
    prim_apply = {m.qname for c in A.primitives for m in c.methods.values()}
    n_sites = 0
    for fn in P.functions.values():
        if fn.parent is not None:
            continue
        rs_ = None
        for n in ast.walk(fn.node):
            if isinstance(n, ast.Call) and isinstance(n.func, ast.Attribute) and n.func.attr in ("add_edge", "add_edges_from"):
                from ..resolve import Resolver

                rs_ = rs_ or Resolver(P, fn)
                recv = rs_.text(n.func.value)
                recv_e = rs_.expand(n.func.value)
                # a graph object that was just made (G.__class__(), nx.DiGraph(), G.copy(), G.subgraph(..).copy()) is not the solution graph
                fresh_graph = isinstance(recv_e, ast.Call) and (call_name(recv_e) in ("copy", "DiGraph", "Graph", "__class__", "subgraph", "to_undirected", "reverse") or norm(recv_e.func).startswith("type("))
                on_tracks = not fresh_graph and ("tracks.graph" in recv or (recv == "self.graph" and fn.cls is not None and P.is_subclass(fn.cls.qname, "Tracks")))
                if not on_tracks:
                    continue
                n_sites += 1
                R.check(fn.qname in prim_apply, "R03.1", fn, n, f"`{recv}.{n.func.attr}` is called from a primitive",
                        f"{fn.short} adds an edge to a tracks graph without going through the guarded primitive", via="who-may-call")
    R.floor("R03.1", "add_edge sites on tracks graphs", n_sites, 1)
    edge_prims = set()
    from .triggers import effects_of

    for c in A.primitives:
        if "edge+" in effects_of(A, c)[0]:
            edge_prims.add(c.name)
    if not edge_prims:
        raise AnalysisError("no primitive adds an edge")
    allowed = {A.init_of(c).qname for c in A.user_actions} | {m.qname for c in A.user_actions for m in c.methods.values()} | {
        m.qname for c in A.primitives for name, m in c.methods.items() if name == "inverse"
    }
    for fn in P.functions.values():
        if fn.parent is not None:
            continue
        for n in ast.walk(fn.node):
            if isinstance(n, ast.Call) and isinstance(n.func, ast.Name) and n.func.id in edge_prims:
                R.check(fn.qname in allowed, "R03.1", fn, n, f"{n.func.id} is constructed by a user action or an inverse",
                        f"{fn.short} constructs {n.func.id} outside the validated entry points", via="who-may-call")

    # ---- R03.2 guarded construction
    n_add = 0
    for c in A.user_actions:
        f = A.init_of(c)
        _, results = A.run(f)
        for pr in results:
            if pr.kind == "raise":
                continue
            def digest(e):
                s0 = snap_state(e.pre)
                a, b = e.args["source"], e.args["target"]
                return (deg(s0, "in", b), deg(s0, "out", a), s0.time_lt(s0.trep(f"time({a})"), s0.trep(f"time({b})")))

            for seq in pr.sequences(lambda e: e.kind == "mut" and e.name == "add_edge", extra=digest):
                for ev in seq:
                    n_add += 1
                    s = snap_state(ev.pre)
                    src, tgt = ev.args["source"], ev.args["target"]
                    where = ev.xctx[0].split(".")[0] if ev.xctx else "direct"
                    label = f"add_edge({strip(src)[:50]} -> {strip(tgt)[:50]}) via {where}"
                    host = f
                    for cx in reversed(ev.ctx):
                        nm = cx.split(".")[0]
                        if nm in {u.name for u in A.user_actions}:
                            host = A.init_of(P.class_named(nm))
                            break
                    if own_neighbours_exception(host, ev, src, tgt):
                        R.ok("R03.2", f, ev.where(), f"{label}: reconnects the removed node's own track neighbours",
                             "both deletion loops precede; under AX-TRACKPATH they are its parent and same-track child",
                             via="exception:AX-TRACKPATH-own-neighbours")
                        tl = s.time_lt(f"time({src})", f"time({tgt})")
                        R.check(tl, "R03.2", f, ev.where(), f"{label}: time(source) < time(target)",
                                "no strict time order between the reconnected neighbours", via="facts")
                        continue
                    lo, hi, ax = deg(s, "in", tgt)
                    R.check(hi == 0, "R03.2", f, ev.where(), f"{label}: target has no parent",
                            f"in-degree of the target before the edge is added is only known to be in [{lo},{hi}]: a merge is possible",
                            via="axiom:AX-FOREST" if ax else "facts", path=trail_text(pr.trail))
                    lo, hi, ax = deg(s, "out", src)
                    R.check(hi <= 1, "R03.2", f, ev.where(), f"{label}: source has at most one child",
                            f"out-degree of the source before the edge is added is in [{lo},{hi}]: a third child is possible",
                            via="axiom:AX-FOREST" if ax else "facts", path=trail_text(pr.trail))
                    tl = s.time_lt(s.trep(f"time({src})"), s.trep(f"time({tgt})"))
                    R.check(tl, "R03.2", f, ev.where(), f"{label}: time(source) < time(target)",
                            "no guard on this path establishes that the source is strictly earlier than the target: "
                            "a backward, same-frame or self edge is accepted", via="facts", path=trail_text(pr.trail))
    R.floor("R03.2", "add_edge events", n_add, 4)

    # ---- R03.3 strict neighbour contract (the interpreter models this function by its contract:
    # pred is strictly before `time`, succ strictly after; here the contract is checked on the code)
    from .neighbours import follow_delegation

    gtn = follow_delegation(P, P.func_named("get_track_neighbors", "SolutionTracks"))
    tparam = gtn.params[2] if len(gtn.params) > 2 else "time"
    A2 = ActionAnalysis(P, loop_iters=2)
    _, gres = A2.run(gtn)
    n_ret = 0
    for pr in gres:
        if pr.kind != "return":
            continue
        ret = pr.data.ret or ""
        from ..absint import is_tuple_term, split_tuple

        if not is_tuple_term(ret) or len(split_tuple(ret)) != 2:
            R.undecided("R03.3", gtn, gtn.node, "get_track_neighbors returns a (pred, succ) pair", f"returns {ret[:60]}")
            continue
        p_, s_ = split_tuple(ret)
        rev = [e for e in pr.data.events if getattr(e, "kind", "") == "return"]
        d = snap_state(rev[-1].pre) if rev and rev[-1].pre else pr.data
        for role, node, lt in (("predecessor", p_, lambda n: d.time_lt(d.trep(f"time({n})"), f"${tparam}")),
                               ("successor", s_, lambda n: d.time_lt(f"${tparam}", d.trep(f"time({n})")))):
            if node == "None":
                continue
            n_ret += 1
            if "expr@" in node or node.startswith("ite("):
                R.undecided("R03.3", gtn, gtn.node, f"get_track_neighbors: a returned {role} is strictly on its side of the query time",
                            f"the returned value `{strip(node)[:50]}` is computed in a form the interpreter does not follow")
                continue
            R.check(lt(node), "R03.3", gtn, gtn.node,
                    f"get_track_neighbors: a returned {role} is strictly {'before' if role == 'predecessor' else 'after'} the query time",
                    f"on a path returning {strip(node)[:40]} as {role} no strict comparison with `{tparam}` was passed: "
                    "a node of the same frame can become a track neighbour (same-frame edge)", via="facts")
    R.floor("R03.3", "non-None neighbours returned on some path", n_ret, 2)
    from .neighbours import nearest_neighbour

    nearest_neighbour(P, R, "R03.4")
    c02.history_shape(P, R)
    # R06.11 (shared): "is this track present at time t" is answered by a scan, not from the ends of a list in joining order -
    # a wrong "free" makes UserAddNode link the new node to a successor that already has a parent (merge)
    from .c06 import positional_reads

    positional_reads(P, R)
    # ---- R03.5 a query of the data model never answers from a memo that some writer forgets to drop
    from .memo import no_stale_memo

    no_stale_memo(P, R, "R03.5")
    # ---- R02.6 (shared): every top-level action is one history step and a nested one none - a stray step makes a later
    # undo / redo replay half an edit, which is a state this property quantifies over ("after every ... undo or redo")
    from . import c02 as _c02r

    _c02r.registration(P, R, tier, A=A, facade=False)
