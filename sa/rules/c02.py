"""C02 - undo/redo follow a never-forgetting linear timeline (structural part).

R02.1  only methods of the history class write its stacks.
R02.2  shape of the registering method: U' = U ++ R ++ [action], R' = [] on every path
       (pending redo inverses are moved, in order, never discarded, never reversed).
R02.3  undo: failure path pure / returns False; success path inverts exactly the element at
       the pointer, appends that inverse to the redo stack, leaves the undo stack alone.
R02.4  redo: failure path pure; success pops exactly the last element, inverts it, records nothing.
R02.5  pointer == len(undo) - len(redo) - 1.
R02.6  registration discipline of user actions (one step per top-level action).
R02.7  the Tracks facade returns what the history returned.

The stacks are interpreted symbolically as sequences over the atoms U0, R0 (their contents
at method entry): a per-path algebra, no execution.
"""

from __future__ import annotations

import ast

from ..actions import ActionAnalysis, cond_outcome, trail_text
from ..cfg import stores
from ..model import AnalysisError, FuncInfo, Program, call_name, norm
from ..paths import Hooks, PathWalker, PState
from ..report import Report
from .c20 import check_facade, find_facade

LEGACY_REGISTRARS = {"TracksController.update_node_attrs"}
STACK_MUTATORS = {"append", "extend", "insert", "remove", "pop", "clear", "sort", "reverse"}


# ---------------------------------------------------------------------- sequence algebra
class Seq:
    """A sequence expression: tuple of atoms ('sym',name) ('rev',name) ('elem',term)
    ('init',name) = name without its last element, ('tail',name) = name[1:]."""

    def __init__(self, atoms=()):
        self.atoms = tuple(atoms)

    def __add__(self, o):
        return Seq(self.atoms + o.atoms)

    def __eq__(self, o):
        return isinstance(o, Seq) and self.atoms == o.atoms

    def __hash__(self):
        return hash(self.atoms)

    def __repr__(self):
        def show(a):
            return {"sym": a[1], "rev": f"reversed({a[1]})", "elem": f"[{a[1]}]",
                    "init": f"{a[1]}[:-1]", "tail": f"{a[1]}[1:]"}[a[0]]
        return " ++ ".join(show(a) for a in self.atoms) or "[]"

    def drop_empty(self, name):
        return Seq(a for a in self.atoms if not (a[0] in ("sym", "rev") and a[1] == name))


class HState:
    def __init__(self, stacks):
        self.stacks = {s: Seq([("sym", s + "0")]) for s in stacks}
        self.vars: dict[str, object] = {}
        self.empty: dict[str, bool] = {}  # initial stack known empty / non-empty
        self.inverses: list = []
        self.ret = None
        self.unknown: list[str] = []
        self.ptr_neg = None

    def copy(self):
        h = HState([])
        h.stacks = dict(self.stacks)
        h.vars = dict(self.vars)
        h.empty = dict(self.empty)
        h.inverses = list(self.inverses)
        h.ret = self.ret
        h.unknown = list(self.unknown)
        h.ptr_neg = self.ptr_neg
        return h


def linear(e: ast.expr, stacks: dict, props: dict, _depth: int = 0):
    """expr -> {stack_or_'1': coeff} for +/- combinations of len(self.<stack>) and ints.
    Local names are looked up in props under the key 'local:<name>'."""
    if isinstance(e, ast.Name) and f"local:{e.id}" in props and _depth < 5:
        return linear(props[f"local:{e.id}"], stacks, props, _depth + 1)
    if isinstance(e, ast.Constant) and isinstance(e.value, int):
        return {"1": e.value}
    if isinstance(e, ast.BinOp) and isinstance(e.op, (ast.Add, ast.Sub)):
        a, b = linear(e.left, stacks, props), linear(e.right, stacks, props)
        if a is None or b is None:
            return None
        sign = 1 if isinstance(e.op, ast.Add) else -1
        out = dict(a)
        for k, v in b.items():
            out[k] = out.get(k, 0) + sign * v
        return out
    if isinstance(e, ast.UnaryOp) and isinstance(e.op, ast.USub):
        a = linear(e.operand, stacks, props)
        return None if a is None else {k: -v for k, v in a.items()}
    if isinstance(e, ast.Call) and call_name(e) == "len" and len(e.args) == 1:
        s = self_attr(e.args[0])
        if s in stacks:
            return {s: 1}
    if isinstance(e, ast.Attribute) and self_attr(e) in props:
        return linear(props[self_attr(e)], stacks, props)
    return None


def self_attr(e: ast.expr):
    if isinstance(e, ast.Attribute) and isinstance(e.value, ast.Name) and e.value.id == "self":
        return e.attr
    return None


class HistoryInterp(Hooks):
    def __init__(self, stacks: list[str], props: dict[str, ast.expr]):
        self.stacks = stacks
        self.props = props
        self.ptr_name = next(iter(props), None)

    # conditions about emptiness / the pointer
    def _cond(self, e: ast.expr):
        """-> ('empty', stack, bool_when_true) | ('ptrneg', bool_when_true) | None"""
        if isinstance(e, ast.UnaryOp) and isinstance(e.op, ast.Not):
            r = self._cond(e.operand)
            if r and r[0] == "empty":
                return ("empty", r[1], not r[2])
            if r and r[0] == "ptrneg":
                return ("ptrneg", not r[1])
            return None
        s = self_attr(e)
        if s in self.stacks:
            return ("empty", s, False)  # truthy == non-empty
        if isinstance(e, ast.Compare) and len(e.ops) == 1:
            L, R, op = e.left, e.comparators[0], e.ops[0]
            lin = linear(ast.BinOp(L, ast.Sub(), R), {k: 1 for k in self.stacks}, self.props)
            if lin is not None:
                vars_ = {k: v for k, v in lin.items() if k != "1" and v != 0}
                c = lin.get("1", 0)
                if len(vars_) == 1:
                    (s, coef), = vars_.items()
                    # coef*len(s) + c  op 0
                    if coef == 1:
                        if isinstance(op, ast.Gt) and c == 0 or isinstance(op, ast.GtE) and c == -1 or isinstance(op, ast.NotEq) and c == 0:
                            return ("empty", s, False)
                        if isinstance(op, ast.Eq) and c == 0 or isinstance(op, ast.LtE) and c == 0 or isinstance(op, ast.Lt) and c == -1:
                            return ("empty", s, True)
                if len(vars_) == 2 and sorted(vars_.values()) == [-1, 1]:
                    # len(U) - len(R) + c op 0 : the pointer form (pointer = lenU - lenR - 1)
                    pos = [k for k, v in vars_.items() if v == 1][0]
                    if pos != self.stacks[0]:
                        # len(R) - len(U) + c op 0   ==   len(U) - len(R) - c  (flipped op) 0
                        flip = {ast.Lt: ast.Gt, ast.Gt: ast.Lt, ast.LtE: ast.GtE, ast.GtE: ast.LtE}.get(type(op))
                        if flip is not None:
                            op, c, pos = flip(), -c, self.stacks[0]
                    if pos == self.stacks[0]:
                        # pointer + (c+1) op 0
                        k = c + 1
                        if isinstance(op, ast.Lt) and k == 0 or isinstance(op, ast.LtE) and k == 1:
                            return ("ptrneg", True)
                        if isinstance(op, ast.GtE) and k == 0 or isinstance(op, ast.Gt) and k == 1:
                            return ("ptrneg", False)
        return None

    def known(self, st: PState, expr: ast.expr):
        h: HState = st.data
        r = self._cond(expr)
        if r and r[0] == "empty" and r[1] in h.empty:
            return h.empty[r[1]] == r[2]
        return None

    def on_cond(self, st: PState, expr: ast.expr, outcome: bool):
        h: HState = st.data
        r = self._cond(expr)
        if r and r[0] == "empty":
            # only meaningful while the stack still holds its initial contents
            name = r[1]
            if h.stacks[name] == Seq([("sym", name + "0")]):
                is_empty = r[2] == outcome
                h.empty[name] = is_empty
                if is_empty:
                    for k in h.stacks:
                        h.stacks[k] = h.stacks[k].drop_empty(name + "0")
        elif r and r[0] == "ptrneg":
            h.ptr_neg = r[1] == outcome
        return True

    def seq_of(self, e: ast.expr, h: HState):
        s = self_attr(e)
        if s in self.stacks:
            return h.stacks[s]
        if isinstance(e, ast.Name) and isinstance(h.vars.get(e.id), Seq):
            return h.vars[e.id]
        if isinstance(e, (ast.List, ast.Tuple)):
            out = Seq()
            for x in e.elts:
                if isinstance(x, ast.Starred):
                    q_ = self.seq_of(x.value, h)
                    if q_ is None:
                        return None
                    out = out + q_
                else:
                    out = out + Seq([("elem", self.val(x, h))])
            return out
        if isinstance(e, ast.Call) and call_name(e) in ("list", "tuple") and len(e.args) == 1:
            return self.seq_of(e.args[0], h)
        if isinstance(e, ast.BinOp) and isinstance(e.op, ast.Add):
            a_, b_ = self.seq_of(e.left, h), self.seq_of(e.right, h)
            return a_ + b_ if a_ is not None and b_ is not None else None
        if isinstance(e, ast.Starred):
            return self.seq_of(e.value, h)
        rev = None
        if isinstance(e, ast.Call) and call_name(e) == "reversed" and len(e.args) == 1:
            rev = self.seq_of(e.args[0], h)
        if isinstance(e, ast.Subscript) and isinstance(e.slice, ast.Slice):
            sl = e.slice
            base = self.seq_of(e.value, h)
            if base is not None and sl.lower is None and sl.upper is None and norm(sl.step or ast.Constant(1)) == "-1":
                rev = base
            elif base is not None and sl.lower is None and sl.upper is None and sl.step is None:
                return base
        if rev is not None:
            out = []
            for a in reversed(rev.atoms):
                if a[0] == "sym":
                    out.append(("rev", a[1]))
                elif a[0] == "rev":
                    out.append(("sym", a[1]))
                elif a[0] == "elem":
                    out.append(a)
                else:
                    return None
            return Seq(out)
        return None

    def val(self, e: ast.expr, h: HState):
        if isinstance(e, ast.Name):
            return h.vars.get(e.id, f"${e.id}")
        if isinstance(e, ast.Constant):
            return repr(e.value)
        if isinstance(e, ast.Call) and isinstance(e.func, ast.Attribute) and e.func.attr == "inverse":
            v = self.val(e.func.value, h)
            h.inverses.append(v)
            return f"inv({v})"
        if isinstance(e, ast.Call) and isinstance(e.func, ast.Attribute) and e.func.attr == "pop":
            s = self_attr(e.func.value)
            if s in self.stacks:
                return self.pop(s, e, h)
        if isinstance(e, ast.Subscript):
            s = self_attr(e.value)
            if s in self.stacks:
                lin = linear(e.slice, {k: 1 for k in self.stacks}, self.props)
                want = {self.stacks[0]: 1, self.stacks[1]: -1, "1": -1}
                if lin is not None and {k: v for k, v in lin.items() if v} == want:
                    return f"{h.stacks[s]!r}[ptr]"
                if lin is not None and s == self.stacks[0] and {k: v for k, v in lin.items() if v} == {self.stacks[1]: -1, "1": -1}:
                    return f"{h.stacks[s]!r}[ptr]"  # counted from the end: len(U) - 1 - len(R)
                if norm(e.slice) == "-1":
                    return f"{h.stacks[s]!r}[-1]"
                return f"{h.stacks[s]!r}[{norm(e.slice)}]"
        return norm(e)

    def pop(self, s: str, call: ast.Call, h: HState):
        cur = h.stacks[s]
        idx = norm(call.args[0]) if call.args else "-1"
        if idx == "-1" and cur.atoms:
            last = cur.atoms[-1]
            if last[0] == "elem":
                h.stacks[s] = Seq(cur.atoms[:-1])
                return last[1]
            if last[0] == "sym":
                h.stacks[s] = Seq(cur.atoms[:-1] + (("init", last[1]),))
                return f"{last[1]}[-1]"
        if idx == "0" and cur.atoms and cur.atoms[0][0] == "sym":
            first = cur.atoms[0]
            h.stacks[s] = Seq((("tail", first[1]),) + cur.atoms[1:])
            return f"{first[1]}[0]"
        h.unknown.append(f"pop({idx}) on {cur!r}")
        return f"?pop({s})"

    def on_stmt(self, st: PState, stmt: ast.stmt):
        h: HState = st.data
        if isinstance(stmt, ast.Assign) and len(stmt.targets) == 1:
            t = stmt.targets[0]
            s = self_attr(t)
            if s in self.stacks:
                q = self.seq_of(stmt.value, h)
                if q is None:
                    h.unknown.append(f"{s} = {norm(stmt.value)}")
                    h.stacks[s] = Seq([("elem", "?")])
                else:
                    h.stacks[s] = q
                return None
            if isinstance(t, ast.Name):
                q = self.seq_of(stmt.value, h)
                if linear(stmt.value, {k: 1 for k in self.stacks}, self.props) is not None:
                    self.props[f"local:{t.id}"] = stmt.value  # e.g. pointer = self._undo_pointer
                h.vars[t.id] = q if q is not None else self.val(stmt.value, h)
                return None
        if isinstance(stmt, ast.AugAssign) and isinstance(stmt.op, ast.Add):
            s = self_attr(stmt.target)
            if s in self.stacks:
                q = self.seq_of(stmt.value, h)
                if q is None:
                    h.unknown.append(norm(stmt))
                else:
                    h.stacks[s] = h.stacks[s] + q
                return None
        if isinstance(stmt, ast.Expr) and isinstance(stmt.value, ast.Call):
            c = stmt.value
            if isinstance(c.func, ast.Attribute):
                s = self_attr(c.func.value)
                if s in self.stacks:
                    m = c.func.attr
                    if m == "append" and len(c.args) == 1:
                        h.stacks[s] = h.stacks[s] + Seq([("elem", self.val(c.args[0], h))])
                    elif m == "extend" and len(c.args) == 1:
                        q = self.seq_of(c.args[0], h)
                        if q is None:
                            h.unknown.append(norm(stmt))
                        else:
                            h.stacks[s] = h.stacks[s] + q
                    elif m == "clear":
                        h.stacks[s] = Seq()
                    elif m == "pop":
                        self.pop(s, c, h)
                    else:
                        h.unknown.append(norm(stmt))
                    return None
            self.val(c, h)
            return None
        if isinstance(stmt, ast.Delete):
            for t in stmt.targets:
                if isinstance(t, ast.Subscript) and self_attr(t.value) in self.stacks:
                    h.unknown.append(norm(stmt))
        return None

    def on_return(self, st: PState, node: ast.Return):
        st.data.ret = self.val(node.value, st.data) if node.value is not None else "None"
        return None


def transfer_loops(fn: ast.FunctionDef, stacks: list[str]) -> ast.FunctionDef:
    """Rewrite the recognised 'move everything' loop idioms into one extend statement so the
    per-path algebra stays exact:
        for x in self.B: self.A.append(x)                      -> self.A.extend(self.B)
        while self.B: self.A.append(self.B.pop())              -> self.A.extend(reversed(self.B)); self.B = []
        while self.B: self.A.append(self.B.pop(0))             -> self.A.extend(self.B); self.B = []
    """
    import copy

    fn = copy.deepcopy(fn)

    def rewrite(stmts):
        out = []
        for s in stmts:
            if isinstance(s, ast.For) and len(s.body) == 1 and isinstance(s.target, ast.Name) and not s.orelse:
                b = s.body[0]
                src = self_attr(s.iter)
                if (
                    src in stacks and isinstance(b, ast.Expr) and isinstance(b.value, ast.Call)
                    and call_name(b.value) == "append" and self_attr(b.value.func.value) in stacks
                    and len(b.value.args) == 1 and isinstance(b.value.args[0], ast.Name)
                    and b.value.args[0].id == s.target.id
                ):
                    new = ast.parse(f"self.{self_attr(b.value.func.value)}.extend(self.{src})").body[0]
                    out.append(ast.copy_location(new, s))
                    continue
            if isinstance(s, ast.While) and len(s.body) == 1 and not s.orelse:
                b = s.body[0]
                t = s.test
                src = self_attr(t)
                if src is None and isinstance(t, ast.Compare):
                    lin = linear(ast.BinOp(t.left, ast.Sub(), t.comparators[0]), {k: 1 for k in stacks}, {})
                    if lin and len([k for k in lin if k != "1" and lin[k]]) == 1 and isinstance(t.ops[0], (ast.Gt, ast.NotEq)):
                        src = [k for k in lin if k != "1" and lin[k]][0]
                if (
                    src in stacks and isinstance(b, ast.Expr) and isinstance(b.value, ast.Call)
                    and call_name(b.value) == "append" and self_attr(b.value.func.value) in stacks
                    and len(b.value.args) == 1 and isinstance(b.value.args[0], ast.Call)
                    and call_name(b.value.args[0]) == "pop" and self_attr(b.value.args[0].func.value) == src
                ):
                    idx = norm(b.value.args[0].args[0]) if b.value.args[0].args else "-1"
                    dst = self_attr(b.value.func.value)
                    if idx in ("-1", "0"):
                        srcx = f"reversed(self.{src})" if idx == "-1" else f"self.{src}"
                        for line in (f"self.{dst}.extend({srcx})", f"self.{src} = []"):
                            out.append(ast.copy_location(ast.parse(line).body[0], s))
                        continue
            for fld in ("body", "orelse", "finalbody"):
                sub = getattr(s, fld, None)
                if isinstance(sub, list) and sub and isinstance(sub[0], ast.stmt):
                    setattr(s, fld, rewrite(sub))
            out.append(s)
        return out

    fn.body = rewrite(fn.body)
    ast.fix_missing_locations(fn)
    return fn


def _no_early_return(stmts):
    """`if c: return` + rest  ->  `if c: pass else: rest` (only for value-less returns), so that a helper body can be pasted"""
    out = []
    for i, s_ in enumerate(stmts):
        if isinstance(s_, ast.If) and len(s_.body) == 1 and isinstance(s_.body[0], ast.Return) and s_.body[0].value is None and not s_.orelse:
            rest = _no_early_return(stmts[i + 1:])
            out.append(ast.copy_location(ast.If(test=s_.test, body=[ast.copy_location(ast.Pass(), s_)], orelse=rest or [ast.copy_location(ast.Pass(), s_)]), s_))
            return out
        if isinstance(s_, ast.Return) and s_.value is None:
            return out
        out.append(s_)
    return out


def normalise_history(fn: ast.FunctionDef, cls, stacks: list[str]) -> ast.FunctionDef:
    """Behaviour-preserving rewrites into the forms the sequence algebra reads:
       * `self._helper()` (no arguments, no result) of the same class is replaced by the helper's body;
       * a local that is just another name for a stack (`pending = self.redo_stack`) is replaced by the stack, for the
         uses that precede any re-binding of that stack attribute;
       * `try: x = self.S.pop() / except IndexError: H`  ->  `if self.S: x = self.S.pop() else: H`;
       * `self.S[len(self.S):] = X`  ->  `self.S.extend(X)`."""
    import copy

    fn = copy.deepcopy(fn)

    def inline(stmts, depth=0):
        out = []
        for s_ in stmts:
            if (isinstance(s_, ast.Expr) and isinstance(s_.value, ast.Call) and isinstance(s_.value.func, ast.Attribute) and norm(s_.value.func.value) == "self"
                    and not s_.value.args and not s_.value.keywords and cls is not None and s_.value.func.attr in cls.methods and depth < 2):
                h = cls.methods[s_.value.func.attr]
                if any(self_attr(x) in stacks for x in ast.walk(h.node)) and not any(isinstance(r, ast.Return) and r.value is not None for r in ast.walk(h.node)):
                    body = [b for b in copy.deepcopy(h.node.body) if not (isinstance(b, ast.Expr) and isinstance(b.value, ast.Constant))]
                    out.extend(inline(_no_early_return(body), depth + 1))
                    continue
            for fld in ("body", "orelse", "finalbody"):
                sub = getattr(s_, fld, None)
                if isinstance(sub, list) and sub and isinstance(sub[0], ast.stmt):
                    setattr(s_, fld, inline(sub, depth))
            out.append(s_)
        return out

    fn.body = inline(fn.body)
    # try / except IndexError around a pop
    def untry(stmts):
        out = []
        for s_ in stmts:
            for fld in ("body", "orelse", "finalbody"):
                sub = getattr(s_, fld, None)
                if isinstance(sub, list) and sub and isinstance(sub[0], ast.stmt):
                    setattr(s_, fld, untry(sub))
            if isinstance(s_, ast.Try) and len(s_.body) == 1 and len(s_.handlers) == 1 and not s_.finalbody and "IndexError" in norm(s_.handlers[0].type or ast.Constant("")):
                pops = [c for c in ast.walk(s_.body[0]) if isinstance(c, ast.Call) and call_name(c) == "pop" and self_attr(c.func.value) in stacks]
                if len(pops) == 1:
                    st_name = self_attr(pops[0].func.value)
                    test = ast.Attribute(value=ast.Name("self", ast.Load()), attr=st_name, ctx=ast.Load())
                    out.append(ast.copy_location(ast.If(test=test, body=s_.body + s_.orelse, orelse=s_.handlers[0].body), s_))
                    continue
            out.append(s_)
        return out

    fn.body = untry(fn.body)
    # aliases of the stacks
    alias = {}
    for s_ in ast.walk(fn):
        if isinstance(s_, ast.Assign) and len(s_.targets) == 1 and isinstance(s_.targets[0], ast.Name) and self_attr(s_.value) in stacks:
            alias.setdefault(s_.targets[0].id, []).append(s_)
    rebind = {st_: min([x.lineno for x in ast.walk(fn) if isinstance(x, ast.Assign) and any(self_attr(t) == st_ and isinstance(t, ast.Attribute) for t in x.targets)] or [10**9]) for st_ in stacks}

    class A(ast.NodeTransformer):
        def visit_Name(self, n):
            if isinstance(n.ctx, ast.Load) and n.id in alias and len(alias[n.id]) == 1:
                d_ = alias[n.id][0]
                st_ = self_attr(d_.value)
                if d_.lineno < getattr(n, "lineno", 0) <= rebind[st_] or (getattr(n, "lineno", 0) > d_.lineno and rebind[st_] == 10**9):
                    return ast.copy_location(ast.Attribute(value=ast.Name("self", ast.Load()), attr=st_, ctx=ast.Load()), n)
            return n

    fn = A().visit(fn)
    # slice assignment at the end = extend
    class Sl(ast.NodeTransformer):
        def visit_Assign(self, n):
            t = n.targets[0]
            if len(n.targets) == 1 and isinstance(t, ast.Subscript) and self_attr(t.value) in stacks and isinstance(t.slice, ast.Slice) and t.slice.upper is None \
                    and t.slice.step is None and t.slice.lower is not None and norm(t.slice.lower) == f"len(self.{self_attr(t.value)})":
                call = ast.Call(func=ast.Attribute(value=t.value, attr="extend", ctx=ast.Load()), args=[n.value], keywords=[])
                return ast.copy_location(ast.Expr(call), n)
            return n

    fn = Sl().visit(fn)

    # annotated assignments are assignments; boolean flags are their definitions
    class Ann(ast.NodeTransformer):
        def visit_AnnAssign(self, n):
            if n.value is not None and isinstance(n.target, ast.Name):
                return ast.copy_location(ast.Assign(targets=[n.target], value=n.value), n)
            return n

    fn = Ann().visit(fn)
    flags = {}
    for s_ in ast.walk(fn):
        if isinstance(s_, ast.Assign) and len(s_.targets) == 1 and isinstance(s_.targets[0], ast.Name) and (
                isinstance(s_.value, (ast.Compare, ast.BoolOp)) or (isinstance(s_.value, ast.UnaryOp) and isinstance(s_.value.op, ast.Not))
                or (isinstance(s_.value, ast.Call) and call_name(s_.value) == "bool" and len(s_.value.args) == 1)):
            flags.setdefault(s_.targets[0].id, []).append(s_.value.args[0] if isinstance(s_.value, ast.Call) else s_.value)
    flags = {k: v[0] for k, v in flags.items() if len(v) == 1}
    # the flag's definition may use a pointer local: expand single-assignment arithmetic locals inside it
    simple = {}
    for s_ in ast.walk(fn):
        if isinstance(s_, ast.Assign) and len(s_.targets) == 1 and isinstance(s_.targets[0], ast.Name) and s_.targets[0].id not in flags:
            simple.setdefault(s_.targets[0].id, []).append(s_.value)

    def expand_locals(e):
        class Ex(ast.NodeTransformer):
            def visit_Name(self, n):
                v = simple.get(n.id)
                if isinstance(n.ctx, ast.Load) and v and len(v) == 1 and isinstance(v[0], (ast.Attribute, ast.BinOp, ast.Call)) and "pop" not in norm(v[0]) and "inverse" not in norm(v[0]):
                    return copy.deepcopy(v[0])
                return n

        return Ex().visit(copy.deepcopy(e))

    def flag_stmts(stmts):
        out = []
        for s_ in stmts:
            for fld in ("body", "orelse", "finalbody"):
                sub = getattr(s_, fld, None)
                if isinstance(sub, list) and sub and isinstance(sub[0], ast.stmt):
                    setattr(s_, fld, flag_stmts(sub))
            if isinstance(s_, (ast.If, ast.While)):
                t = s_.test
                neg = isinstance(t, ast.UnaryOp) and isinstance(t.op, ast.Not)
                core = t.operand if neg else t
                if isinstance(core, ast.Name) and core.id in flags:
                    d_ = expand_locals(flags[core.id])
                    s_.test = ast.copy_location(ast.UnaryOp(ast.Not(), d_) if neg else d_, t)
            if isinstance(s_, ast.Return) and isinstance(s_.value, ast.Name) and s_.value.id in flags:
                d_ = expand_locals(flags[s_.value.id])
                out.append(ast.copy_location(ast.If(test=d_, body=[ast.copy_location(ast.Return(ast.Constant(True)), s_)],
                                                    orelse=[ast.copy_location(ast.Return(ast.Constant(False)), s_)]), s_))
                continue
            out.append(s_)
        return out

    fn.body = flag_stmts(fn.body)
    ast.fix_missing_locations(fn)
    return fn


def history_paths(m: FuncInfo, stacks, props):
    hi = HistoryInterp(stacks, props)
    w = PathWalker(hi, loop_iters=2)
    fn = transfer_loops(normalise_history(m.node, m.cls, stacks), stacks)
    return [(st.data, kind) for st, kind, node in w.run(fn, HState(stacks))]


def run(P: Program, R: Report, tier: str) -> None:
    describe(R)
    history_shape(P, R, pure=False)
    registration(P, R, tier)
    # R02.8 a recorded step can be inverted any number of times: inverse() does not change the recorded action
    from .c01 import inverse_is_pure

    inverse_is_pure(P, R, "R02.8")
    # R01.1 - R01.5 (shared with C01): "undo steps one state back" is only as good as the inverse that is replayed
    from .c01 import inverse_duality

    inverse_duality(P, R, ActionAnalysis(P, loop_iters=1))


def describe(R: Report) -> None:
    R.explanation = (
        "Who-may-write analysis of the history stacks over the whole package; a symbolic "
        "sequence algebra evaluated along every path of the history methods (stack contents as "
        "expressions over their entry values); per-path counting of history registrations in "
        "every user-action constructor with nested actions inlined."
    )
    R.decides += [
        "only the history class writes its stacks",
        "registering moves the pending redo inverses onto the undo stack in order, then appends the action; "
        "undo inverts the element at len(undo)-len(redo)-1 and records the inverse; redo pops and inverts without recording",
        "every user action registers itself exactly once per top-level use and never when nested or refused",
    ]
    R.decides += ["each primitive's inverse is the dual edit on the same element with every captured value handed on (shared R01.1-R01.5)"]
    R.not_decided += [
        "that the pointer arithmetic tracks the timeline for all sequences (an induction over list lengths)",
        "equality of tracks state with the predicted timeline state",
    ]


def history_shape(P: Program, R: Report, pure: bool = True) -> None:
    """R02.1 - R02.5: ownership and per-path shape of the history methods (and R02.8: a recorded step can be inverted
    again and again - inverse() leaves the recorded action alone)."""
    if pure:
        from .c01 import inverse_is_pure

        inverse_is_pure(P, R, "R02.8")
    H = P.history_class()
    init = H.methods.get("__init__")
    if init is None:
        raise AnalysisError("history class has no __init__")
    stacks = []
    for n in ast.walk(init.node):
        tgt = None
        if isinstance(n, ast.AnnAssign):
            tgt, val = n.target, n.value
        elif isinstance(n, ast.Assign) and len(n.targets) == 1:
            tgt, val = n.targets[0], n.value
        if tgt is not None and self_attr(tgt) and isinstance(val, ast.List):
            stacks.append(self_attr(tgt))
    if len(stacks) != 2:
        raise AnalysisError(f"expected two stacks in {H.name}.__init__, found {stacks}")
    undo_s, redo_s = stacks  # role: declared in this order (undo first) - confirmed below by use
    # ---- R02.1 ownership
    n_writes = 0
    for fn in P.functions.values():
        if fn.parent is not None:
            continue
        for n in ast.walk(fn.node):
            hit = None
            if isinstance(n, ast.Attribute) and n.attr in stacks and isinstance(n.ctx, (ast.Store, ast.Del)):
                hit = n
            elif isinstance(n, ast.Subscript) and isinstance(n.ctx, (ast.Store, ast.Del)) and isinstance(n.value, ast.Attribute) and n.value.attr in stacks:
                hit = n
            elif isinstance(n, ast.AugAssign) and isinstance(n.target, ast.Attribute) and n.target.attr in stacks:
                hit = n
            elif isinstance(n, ast.Call) and isinstance(n.func, ast.Attribute) and n.func.attr in STACK_MUTATORS and isinstance(n.func.value, ast.Attribute) and n.func.value.attr in stacks:
                hit = n
            if hit is not None:
                n_writes += 1
                R.check(fn.cls is not None and fn.cls.qname == H.qname, "R02.1", fn, hit,
                        f"write `{norm(hit)[:60]}` to a history stack happens inside {H.name}",
                        f"{fn.short} writes {H.name}'s stack from outside the class", via="who-may-write")
    R.floor("R02.1", "stack writes", n_writes, 4)

    props = {}
    for name, m in H.methods.items():
        if "property" in m.decorators() and len(m.node.body) >= 1 and isinstance(m.node.body[-1], ast.Return):
            props[name] = m.node.body[-1].value
    # ---- R02.5 pointer form
    want = {undo_s: 1, redo_s: -1, "1": -1}
    for name, e in props.items():
        lin = linear(e, {k: 1 for k in stacks}, {})
        if lin is None:
            R.undecided("R02.5", H.methods[name], e, f"pointer property {name} has a non-linear form", norm(e))
        else:
            R.check({k: v for k, v in lin.items() if v} == want, "R02.5", H.methods[name], e,
                    f"pointer {name} == len({undo_s}) - len({redo_s}) - 1", f"found {norm(e)}", via="normal-form")

    from ..absint import Engine

    eng = Engine(P, init)
    registrars = eng.register_methods
    U0, R0 = ("sym", undo_s + "0"), ("sym", redo_s + "0")
    for name, m in sorted(H.methods.items()):
        if name == "__init__" or "property" in m.decorators():
            continue
        paths = history_paths(m, stacks, props)
        R.count("history_paths", len(paths))
        inv_calls = any(isinstance(n, ast.Attribute) and n.attr == "inverse" for n in ast.walk(m.node))
        for h, kind in paths:
            if h.unknown:
                R.fail("R02.2" if name in registrars else "R02.3", m, m.loc,
                       f"{name}: unrecognised stack operation", "; ".join(h.unknown)[:200])
                continue
            Uf, Rf = h.stacks[undo_s], h.stacks[redo_s]
            r_empty = h.empty.get(redo_s)
            u_expect0 = Seq([U0]) if not h.empty.get(undo_s) else Seq()
            if name in registrars:
                param = m.params[1] if len(m.params) > 1 else "?"
                expect_u = (Seq([U0]) if not h.empty.get(undo_s) else Seq()) + (Seq([R0]) if not r_empty else Seq()) + Seq([("elem", f"${param}")])
                R.check(Uf == expect_u, "R02.2", m, m.loc,
                        f"{name}: undo stack becomes {undo_s}0 ++ {redo_s}0 ++ [action]",
                        f"on the path where {redo_s} is {'empty' if r_empty else 'non-empty' if r_empty is False else 'unconstrained'} "
                        f"the undo stack becomes {Uf!r} (expected {expect_u!r})", via="sequence-algebra")
                R.check(Rf == Seq() or (r_empty and Rf == Seq()), "R02.2", m, m.loc,
                        f"{name}: redo stack is empty afterwards", f"redo stack becomes {Rf!r}", via="sequence-algebra")
                R.check(not h.inverses, "R02.2", m, m.loc, f"{name}: registering inverts nothing", str(h.inverses), via="sequence-algebra")
            elif inv_calls:
                # undo-like or redo-like: classify by what the success path does to the stacks
                changed_u = Uf != u_expect0 and Uf != Seq([U0])
                success = bool(h.inverses)
                rule = "R02.3" if any(
                    isinstance(n, ast.Call) and call_name(n) == "append" for n in ast.walk(m.node)
                ) else "R02.4"
                if not success:
                    pure = not changed_u and (Rf == Seq([R0]) or (h.empty.get(redo_s) and Rf == Seq()))
                    R.check(pure and h.ret == "False", rule, m, m.loc,
                            f"{name}: the nothing-to-do path changes nothing and returns False",
                            f"stacks {Uf!r} / {Rf!r}, returns {h.ret}", via="sequence-algebra")
                    continue
                R.check(len(h.inverses) == 1, rule, m, m.loc, f"{name}: exactly one inverse per step",
                        f"{len(h.inverses)} inverse calls", via="sequence-algebra")
                R.check(h.ret == "True", rule, m, m.loc, f"{name}: success path returns True", f"returns {h.ret}", via="sequence-algebra")
                R.check(not changed_u, rule, m, m.loc, f"{name}: the undo stack is not written", f"undo stack becomes {Uf!r}", via="sequence-algebra")
                if rule == "R02.3":
                    target = f"{Seq([U0])!r}[ptr]"
                    R.check(h.inverses == [target], rule, m, m.loc,
                            f"{name}: inverts the element at the pointer", f"inverts {h.inverses}", via="sequence-algebra")
                    expect_r = (Seq([R0]) if not r_empty else Seq()) + Seq([("elem", f"inv({target})")])
                    R.check(Rf == expect_r, rule, m, m.loc, f"{name}: pushes exactly that inverse on the redo stack",
                            f"redo stack becomes {Rf!r} (expected {expect_r!r})", via="sequence-algebra")
                    R.check(h.ptr_neg is False, rule, m, m.loc, f"{name}: success only when the pointer is >= 0",
                            "the success path is not guarded by the pointer test", via="sequence-algebra")
                else:
                    R.check(h.inverses == [f"{redo_s}0[-1]"], rule, m, m.loc,
                            f"{name}: inverts the last redo element", f"inverts {h.inverses}", via="sequence-algebra")
                    R.check(Rf == Seq([("init", redo_s + "0")]), rule, m, m.loc,
                            f"{name}: pops exactly one element and records nothing", f"redo stack becomes {Rf!r}", via="sequence-algebra")
                    R.check(h.empty.get(redo_s) is False, rule, m, m.loc, f"{name}: success only when the redo stack is non-empty",
                            "success path not guarded by the emptiness test", via="sequence-algebra")
    R.floor("R02.2", "history methods analysed", R.counters.get("history_paths", 0), 5)



def registration(P: Program, R: Report, tier: str, A=None, facade: bool = True) -> None:
    from ..absint import Engine

    H = P.history_class()
    registrars = Engine(P, H.methods["__init__"]).register_methods
    # ---- R02.6 registration discipline
    A = A or ActionAnalysis(P, loop_iters=1 if tier == "quick" else 2)
    keep = lambda e: e.kind in ("hist", "raise") or (e.kind == "cond" and e.xdepth == 0) or (  # noqa: E731
        e.kind == "construct" and e.args.get("_kind") == "user"
    )
    tops = {c.name: A.top_param(c) for c in A.user_actions}
    for c in A.user_actions:
        f = A.init_of(c)
        _, results = A.run(f)
        tp = tops[c.name]
        for pr in results:
            for seq in pr.sequences(keep):
                hists = [e for e in seq if e.kind == "hist"]
                n = len(hists)
                site = hists[0].where() if hists else f.loc
                if pr.kind == "raise":
                    R.check(n == 0, "R02.6a", f, site, "a refused action is not registered",
                            f"{n} registration(s) before the raise", via="path-count")
                    continue
                top = True if tp is None else cond_outcome(seq, tp)
                if top is True:
                    ok = n == 1 and hists[0].args.get("arg") == "$self" and hists[0].xdepth == 0
                    R.check(ok, "R02.6a", f, site, "a top-level action registers itself exactly once",
                            f"{n} registration(s): " + "; ".join(f"{e.where()} arg={e.args.get('arg')} depth={e.xdepth}" for e in hists),
                            via="path-count", path=trail_text(pr.trail))
                elif top is False:
                    R.check(n == 0, "R02.6a", f, site, f"a nested use ({tp}=False) registers nothing",
                            f"{n} registration(s) although {tp} is false", via="path-count", path=trail_text(pr.trail))
                else:
                    R.fail("R02.6a", f, site, f"registration does not depend on {tp}",
                           f"path never tests `{tp}` and registers {n} time(s)", path=trail_text(pr.trail))
                for e in seq:
                    if e.kind == "construct" and e.xdepth == 0:
                        ntp = tops.get(e.name)
                        if ntp is None:
                            R.fail("R02.6c", f, e.where(), f"{e.name} constructed inside another action",
                                   f"{e.name} has no top-level flag: it always registers itself and emits")
                        else:
                            R.check(e.args.get(ntp) == "False", "R02.6b", f, e.where(),
                                    f"nested {e.name} is constructed with {ntp}=False",
                                    f"{ntp}={e.args.get(ntp)}: the sub-action becomes a history step of its own", via="constant-propagation")
    # (d) who may call the registrar
    n_calls = 0
    allowed = {A.init_of(c).qname for c in A.user_actions}
    # helper methods of the group hierarchy (their use is counted per path by R02.6a)
    allowed |= {m.qname for c in P.subclasses("ActionGroup", strict=False) for m in c.methods.values()}
    for fn in P.functions.values():
        if fn.parent is not None:
            continue
        for n in ast.walk(fn.node):
            if isinstance(n, ast.Call) and call_name(n) in registrars and isinstance(n.func, ast.Attribute):
                recv = norm(n.func.value)
                if "history" not in recv:
                    continue
                n_calls += 1
                ok = fn.qname in allowed or fn.short in LEGACY_REGISTRARS
                R.check(ok, "R02.6d", fn, n, f"{fn.short} may register an action",
                        "only user-action constructors (and the listed legacy controller method) register actions",
                        via="exception:legacy-controller" if fn.short in LEGACY_REGISTRARS else "who-may-call")
    R.floor("R02.6d", "registrar call sites", n_calls, 1)
    # ---- R02.7 facade
    if facade:
        check_facade(R, A, find_facade(P))
