"""C17 - inferred column mappings lose no column and prefer exact names.

A linear-resource discipline over source columns through the matching pipeline:
R17.1 consume => assign   every removal from the working list is paired with a store of that
                          column into the mapping or into an accumulator that is flushed
R17.2 assign => consume   every column stored is removed from the list handed on
R17.3 no overwrite        every store into the mapping is dominated by `key not in mapping`;
                          accumulator slots are written once; `update` has disjoint keys
R17.4 threading           each step receives the list returned by the previous step
R17.5 order               exact matching of the standard keys precedes every fuzzy step and
                          covers the same key list
R17.6 the leftover list a step returns is its working copy (only shrunk by explicit removes)
"""

from __future__ import annotations

import ast

from ..model import AnalysisError, FuncInfo, Program, call_name, norm
from ..report import Report

# unguarded stores that cannot overwrite with today's feature tables (reviewed; witnesses checked)
REVIEWED = {
    ("_match_display_names_exact", "accumulator-slot"):
        "distinct column names match distinct (feature, index) pairs exactly (lookup by equality in display_name_to_key)",
    ("_match_display_names_exact", "flush"):
        "no multi-value edge feature exists, and in the node pipeline this is the first writer of the feature-key namespace",
}


from .util import guards_of  # noqa: E402


def display_sorting_ok(P: Program, R: Report, rule: str) -> None:
    """Multi-value columns are ordered by their index in value_names (used by C14's axis rule)."""
    for name in ("_match_display_names_exact", "_match_display_names_fuzzy"):
        f = P.func_named(name)
        src = norm(f.node)
        ok = "sorted(idx_to_prop.keys())" in src and "[idx_to_prop[i] for i in sorted_indices]" in src
        R.check(ok, rule, f, f.node, f"{name} orders multi-value columns by their index in value_names", "", via="syntax")
    b = P.func_named("build_display_name_mapping")
    R.check("enumerate(value_names)" in norm(b.node), rule, b, b.node, "value names are indexed in their declared order", "", via="syntax")


def run(P: Program, R: Report, tier: str) -> None:
    R.explanation = (
        "Every store into the mapping / accumulators and every removal from the working column "
        "list in the matching helpers is located, paired and checked for a dominating "
        "`not in` guard; the pipeline's threading of the leftover list and the order of its steps "
        "are read from the two infer functions."
    )
    R.decides += ["columns are consumed exactly when they are assigned, no assignment can overwrite an earlier one, the leftover list is threaded through all steps, exact standard-key matching comes first"]
    R.not_decided += ["which fuzzy match wins (difflib scores)"]
    helpers = [P.func_named(n) for n in ("_match_exact", "_match_fuzzy", "_match_display_names_exact", "_match_display_names_fuzzy")]
    n_store = n_rem = 0
    for f in helpers:
        mapping = f.params[-1] if f.params[-1] == "mapping" else next((p for p in f.params if p == "mapping"), None)
        if mapping is None:
            raise AnalysisError(f"{f.name}: no mapping parameter")
        work = None
        for s in ast.walk(f.node):
            if isinstance(s, ast.Assign) and isinstance(s.targets[0], ast.Name) and norm(s.value).endswith(".copy()") and norm(s.value).startswith(f.params[0] if f.params[0] != "target_fields" else f.params[1]):
                work = s.targets[0].id
        if work is None:
            R.fail("R17.6", f, f.node, f"{f.name} works on a copy of the incoming column list", "no `.copy()` of the incoming list")
            continue
        accs = {s.target.id if isinstance(s, ast.AnnAssign) else s.targets[0].id for s in ast.walk(f.node)
                if (isinstance(s, ast.AnnAssign) and isinstance(s.target, ast.Name) and isinstance(s.value, ast.Dict) and not s.value.keys)
                or (isinstance(s, ast.Assign) and isinstance(s.targets[0], ast.Name) and isinstance(s.value, ast.Dict) and not s.value.keys)}
        accs.discard(mapping)
        stores, removes = [], []
        for s in ast.walk(f.node):
            if isinstance(s, ast.Assign) and isinstance(s.targets[0], ast.Subscript):
                base = s.targets[0]
                root = base
                while isinstance(root, ast.Subscript):
                    root = root.value
                if isinstance(root, ast.Name) and (root.id == mapping or root.id in accs):
                    stores.append((s, root.id))
            if isinstance(s, ast.Expr) and isinstance(s.value, ast.Call) and call_name(s.value) == "remove" and norm(s.value.func.value) == work:
                removes.append(s)
        n_store += len(stores)
        n_rem += len(removes)
        # loops that flush an accumulator into the mapping
        flush_loops = [lp for lp in ast.walk(f.node) if isinstance(lp, ast.For) and any(a in norm(lp.iter) for a in accs)]
        # ---- R17.3 no overwrite
        for s, root in stores:
            t = s.targets[0]
            g = guards_of(f, s)
            in_flush = any(s in list(ast.walk(lp)) for lp in flush_loops)
            if root == mapping:
                key = norm(t.slice)
                kind = "flush" if in_flush else "store"
                guarded = any(x.replace(" ", "") in (f"not({key}in{mapping})", f"{key}notin{mapping}") for x in (y.replace(" ", "") for y in g))
                label = f"{f.name}: {kind} `{norm(t)}` is dominated by `{key} not in {mapping}`"
            else:
                # accumulator: creation `acc[k] = {}` or slot `acc[k][i] = col`
                if isinstance(t.value, ast.Subscript):
                    kind = "accumulator-slot"
                    slot, inner = norm(t.slice), norm(t.value)
                    guarded = any(y.replace(" ", "") in (f"not({slot}in{inner})".replace(" ", ""), f"{slot}notin{inner}".replace(" ", "")) for y in g)
                    label = f"{f.name}: accumulator slot `{norm(t)}` is written once"
                else:
                    kind = "accumulator-create"
                    key = norm(t.slice)
                    guarded = any(y.replace(" ", "") == f"{key}notin{root}".replace(" ", "") for y in g)
                    label = f"{f.name}: accumulator entry `{norm(t)}` is created only when missing"
            if guarded:
                R.ok("R17.3", f, s, label, via="dominating-guard")
            elif (f.name, kind) in REVIEWED:
                # witnesses of the reviewed exception
                w1 = "prop in display_name_to_key" in norm(f.node)
                edge_multi = any(
                    isinstance(k, ast.Constant) and k.value == "feature_type" and isinstance(v, ast.Constant) and v.value == "edge"
                    for fn in P.functions.values() if ".features." in fn.qname
                    for d in ast.walk(fn.node) if isinstance(d, ast.Dict)
                    for k, v in zip(d.keys, d.values, strict=True)
                    if any(isinstance(k2, ast.Constant) and k2.value == "num_values" and not (isinstance(v2, ast.Constant) and v2.value == 1) for k2, v2 in zip(d.keys, d.values, strict=True))
                )
                if w1 and not edge_multi:
                    R.ok("R17.3", f, s, label, REVIEWED[(f.name, kind)], via=f"exception:{f.name}-{kind}")
                else:
                    R.fail("R17.3", f, s, label, "reviewed exception no longer applies: " + REVIEWED[(f.name, kind)])
            else:
                R.fail("R17.3", f, s, label,
                       f"`{norm(s)}` can overwrite an earlier assignment of the same key: the column stored there before is lost from the map")
        # ---- R17.2 assign => consume   /  R17.1 consume => assign
        body_stores = [(s, root) for s, root in stores if not any(s in list(ast.walk(lp)) for lp in flush_loops) and not (root in accs and not isinstance(s.targets[0].value, ast.Subscript))]
        for s, root in body_stores:
            col = norm(s.value)
            paired = [r for r in removes if norm(r.value.args[0]) == col]
            # the removal must be reached whenever the store is: same block or a following sibling of an enclosing if
            ok = False
            for r in paired:
                gs, gr = guards_of(f, s), guards_of(f, r)
                if all(x in gs for x in gr):
                    ok = True
            R.check(ok, "R17.2", f, s, f"{f.name}: column stored by `{norm(s)[:60]}` is removed from `{work}`",
                    f"the column `{col}` is assigned but stays in the list handed to the next step: it will be assigned twice", via="pairing")
        for r in removes:
            col = norm(r.value.args[0])
            gr = guards_of(f, r)
            src = [s for s, root in body_stores if norm(s.value) == col]
            ok = bool(src)
            # every path to the removal stored the column: the stores' guards jointly cover the removal's guards
            if ok:
                cover = [guards_of(f, s) for s in src]
                extra = [[x for x in c if x not in gr] for c in cover]
                # either one store has no extra condition, or two stores sit in the two arms of one test
                ok = any(not e for e in extra) or (len(extra) == 2 and len(extra[0]) == 1 and len(extra[1]) == 1 and (extra[0][0] == f"not ({extra[1][0]})" or extra[1][0] == f"not ({extra[0][0]})"))
            R.check(ok, "R17.1", f, r, f"{f.name}: every removal of `{col}` follows a store of that column",
                    f"`{norm(r)}` can remove a column that was not stored anywhere: it disappears from the inferred map", via="pairing")
        # accumulators are flushed unconditionally (not nested in a branch that may be skipped)
        for a in accs:
            fl = [lp for lp in flush_loops if a in norm(lp.iter)]
            top = [lp for lp in fl if lp in f.node.body]
            R.check(bool(top), "R17.1", f, fl[0] if fl else f.node, f"{f.name}: accumulator `{a}` is flushed into the mapping on every path", "flush loop missing or conditional", via="syntax")
        # ---- R17.6 the returned leftovers are the working copy
        rets = [s for s in ast.walk(f.node) if isinstance(s, ast.Return) and s.value is not None]
        for r in rets:
            R.check(norm(r.value) == work, "R17.6", f, r, f"{f.name} returns its working copy `{work}`",
                    f"returns `{norm(r.value)[:80]}`: leftovers are re-derived from a lossy structure, columns can vanish", via="dataflow")
        rebinds = [s for s in ast.walk(f.node) if isinstance(s, ast.Assign) and isinstance(s.targets[0], ast.Name) and s.targets[0].id == work]
        R.check(len(rebinds) == 1, "R17.6", f, rebinds[-1] if rebinds else f.node, f"{f.name}: `{work}` is bound once (the copy) and then only shrunk", f"{len(rebinds)} bindings", via="dataflow")
    R.floor("R17.3", "stores into mapping/accumulators", n_store, 10)
    R.floor("R17.1", "removals", n_rem, 4)

    # ---- pipelines
    for name in ("infer_node_name_map", "infer_edge_name_map"):
        f = P.func_named(name)
        steps = []
        for s in ast.walk(f.node):
            if isinstance(s, ast.Assign) and isinstance(s.targets[0], ast.Name) and isinstance(s.value, ast.Call) and (call_name(s.value) or "").startswith("_match"):
                steps.append(s)
        steps.sort(key=lambda s: s.lineno)
        R.check(len(steps) == 4, "R17.4", f, f.node, f"{name} runs four matching steps", f"{len(steps)} found", via="syntax")
        left = steps[0].targets[0].id if steps else "props_left"
        init = [s for s in ast.walk(f.node) if isinstance(s, ast.Assign) and isinstance(s.targets[0], ast.Name) and s.targets[0].id == left and ".copy()" in norm(s.value)]
        R.check(bool(init) and f.params[0] in norm(init[0].value), "R17.4", f, init[0] if init else f.node, f"{name}: the working list starts as all source columns", "", via="dataflow")
        for s in steps:
            callee = P.func_named(call_name(s.value))
            idx = callee.params.index("importable_props")
            arg = s.value.args[idx] if idx < len(s.value.args) else None
            R.check(s.targets[0].id == left and arg is not None and norm(arg) == left, "R17.4", f, s,
                    f"{name}: {callee.name} receives and returns the running leftover list `{left}`",
                    f"`{norm(s)[:100]}` does not thread `{left}`: columns consumed earlier are offered again (or leftovers are dropped)", via="threading")
            marg = s.value.args[callee.params.index("mapping")] if callee.params.index("mapping") < len(s.value.args) else None
            R.check(marg is not None and norm(marg) == "mapping", "R17.4", f, s, f"{name}: {callee.name} writes into the one mapping", "", via="threading")
        order = [call_name(s.value) for s in steps]
        R.check(order == ["_match_exact", "_match_fuzzy", "_match_display_names_exact", "_match_display_names_fuzzy"], "R17.5", f, f.node,
                f"{name}: exact standard keys, fuzzy standard keys, exact display names, fuzzy display names - in this order", str(order), via="order")
        if len(steps) >= 2:
            a0, a1 = norm(steps[0].value.args[0]), norm(steps[1].value.args[0])
            R.check(a0 == a1, "R17.5", f, steps[0], f"{name}: the exact and the fuzzy standard-key step cover the same key list",
                    f"exact step matches `{a0}`, fuzzy step `{a1}`: a key only in the fuzzy list can lose its exactly-named column to another key", via="order")
        if name == "infer_node_name_map" and steps:
            sf = [s for s in ast.walk(f.node) if isinstance(s, ast.Assign) and norm(s.targets[0]) == norm(steps[0].value.args[0])]
            R.check(bool(sf) and "build_standard_fields(required_features)" in norm(sf[0].value), "R17.5", f, sf[0] if sf else f.node,
                    "the standard key list is the required keys plus the seg-id key", "", via="dataflow")
        # final step: leftovers map to themselves
        upd = [c for c in ast.walk(f.node) if isinstance(c, ast.Call) and call_name(c) == "update" and norm(c.func.value) == "mapping"]
        rem = [s for s in ast.walk(f.node) if isinstance(s, ast.Assign) and isinstance(s.value, ast.Call) and call_name(s.value) == "_map_remaining_to_self"]
        R.check(len(rem) == 1 and norm(rem[0].value.args[0]) == left, "R17.4", f, rem[0] if rem else f.node, f"{name}: the final leftovers map to themselves", "", via="threading")
        for c in upd:
            g = guards_of(f, next(s for s in ast.walk(f.node) if isinstance(s, ast.Expr) and s.value is c))
            R.fail("R17.3", f, c, f"{name}: final `mapping.update(custom)` has keys disjoint from the mapping",
                   "a leftover column spelled like an already mapped key (e.g. `pos`) overwrites that key: the columns mapped there are lost")
    bs = P.func_named("build_standard_fields")
    R.check("'seg_id'" in norm(bs.node) and "required_features.copy()" in norm(bs.node), "R17.5", bs, bs.node, "standard fields = required keys + seg_id", "", via="syntax")
    mr = P.func_named("_map_remaining_to_self")
    R.check("{prop: prop for prop in remaining_props}" in norm(mr.node), "R17.4", mr, mr.node, "leftovers map to themselves", "", via="syntax")
