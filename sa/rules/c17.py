"""C17 - inferred column mappings lose no column and prefer exact names.

A linear-resource discipline over source columns through the matching pipeline:
R17.1 consume => assign   every removal from the working list is paired with a store of that
                          column into the mapping or into an accumulator that is flushed
R17.2 assign => consume   every column stored is removed from the list handed on
R17.3 no overwrite        every store into the mapping is dominated by `key not in mapping`;
                          accumulator slots are written once; `update` has disjoint keys
R17.4 threading           each step receives the list returned by the previous step
R17.5 order               exact matching of the standard keys precedes every fuzzy step and
                          covers the same key list
R17.6 the leftover list a step returns is its working copy (only shrunk by explicit removes)
"""

from __future__ import annotations

import ast

from ..model import AnalysisError, FuncInfo, Program, call_name, norm
from ..report import Report

# unguarded stores that cannot overwrite with today's feature tables (reviewed; witnesses checked)
REVIEWED = {
    ("_match_display_names_exact", "accumulator-slot"):
        "distinct column names match distinct (feature, index) pairs exactly (lookup by equality in display_name_to_key)",
    ("_match_display_names_exact", "flush"):
        "no multi-value edge feature exists, and in the node pipeline this is the first writer of the feature-key namespace",
}


from .util import guards_of  # noqa: E402


def display_sorting_ok(P: Program, R: Report, rule: str) -> None:
    """Multi-value columns are ordered by their index in value_names (used by C14's axis rule)."""
    for name in ("_match_display_names_exact", "_match_display_names_fuzzy"):
        f = P.func_named(name)
        src = norm(f.node)
        for c in ast.walk(f.node):
            if isinstance(c, ast.Call) and isinstance(c.func, ast.Name):
                g = P.functions.get(P.resolve_name(f.module, c.func.id) or "")
                if g is not None and g.module is f.module:
                    src += " " + norm(g.node)
        ok = "sorted(idx_to_prop" in src
        if ok:
            R.ok(rule, f, f.node, f"{name} orders multi-value columns by their index in value_names", via="syntax")
        else:
            R.undecided(rule, f, f.node, f"{name} orders multi-value columns by their index in value_names", "shape not recognised")
    b = P.func_named("build_display_name_mapping")
    R.check("enumerate(value_names)" in norm(b.node), rule, b, b.node, "value names are indexed in their declared order", "", via="syntax")


def run(P: Program, R: Report, tier: str) -> None:
    R.explanation = (
        "Every store into the mapping / accumulators and every removal from the working column "
        "list in the matching helpers is located, paired and checked for a dominating "
        "`not in` guard; the pipeline's threading of the leftover list and the order of its steps "
        "are read from the function(s) that run the matching steps."
    )
    R.decides += ["columns are consumed exactly when they are assigned, no assignment can overwrite an earlier one, the leftover list is threaded through all steps, exact standard-key matching comes first"]
    R.decides += ['the computed-feature table shares no key with the standard keys']
    R.not_decided += ["which fuzzy match wins (difflib scores)"]
    mod = P.func_named("infer_node_name_map").module
    mfuncs = [f for f in P.functions.values() if f.module is mod and f.parent is None]
    steps_fns = [f for f in mfuncs if f.name.startswith("_match") and "mapping" in f.params]
    R.floor("R17.3", "matching helpers", len(steps_fns), 4)
    n_store = n_rem = 0

    def stores_in(f, mapping, accs):
        """(stmt, root, kind, key text, slot base) for every store into mapping / accumulators"""
        out = []
        for st in ast.walk(f.node):
            if isinstance(st, ast.Assign) and isinstance(st.targets[0], ast.Subscript):
                t = st.targets[0]
                base = t.value
                if isinstance(base, ast.Name) and base.id == mapping:
                    out.append((st, mapping, "store", norm(t.slice), None))
                elif isinstance(base, ast.Name) and base.id in accs:
                    out.append((st, base.id, "accumulator-create", norm(t.slice), None))
                elif isinstance(base, ast.Subscript) and isinstance(base.value, ast.Name) and base.value.id in accs:
                    out.append((st, base.value.id, "accumulator-slot", norm(t.slice), norm(base)))
                elif isinstance(base, ast.Call) and call_name(base) == "setdefault" and isinstance(base.func.value, ast.Name) and base.func.value.id in accs:
                    out.append((st, base.func.value.id, "accumulator-slot", norm(t.slice), norm(base)))
        return out

    for f in steps_fns:
        mapping = "mapping"
        work = None
        for st in ast.walk(f.node):
            if isinstance(st, ast.Assign) and isinstance(st.targets[0], ast.Name) and norm(st.value) in (f"{p_}.copy()" for p_ in f.params) or (
                isinstance(st, ast.Assign) and isinstance(st.targets[0], ast.Name) and norm(st.value) in (f"list({p_})" for p_ in f.params)):
                work = st.targets[0].id
        if work is None:
            rets_ = [r_ for r_ in ast.walk(f.node) if isinstance(r_, ast.Return) and r_.value is not None]
            filtered = rets_ and all(isinstance(r_.value, (ast.ListComp, ast.GeneratorExp)) and norm(r_.value.generators[0].iter).replace("enumerate(", "").rstrip(")") in f.params
                                     and r_.value.generators[0].ifs for r_ in rets_)
            if filtered:
                # consumed-set form.  A column stored for one key must not be offered to the next key: the structure the
                # candidates come from has to be rebuilt / shrunk inside the key loop, or the store guarded by `not in consumed`.
                consumed = {x_.id for r_ in rets_ for c_ in r_.value.generators[0].ifs for x_ in ast.walk(c_) if isinstance(x_, ast.Name)} - set(f.params) - {
                    x_.id for r_ in rets_ for x_ in ast.walk(r_.value.generators[0].target) if isinstance(x_, ast.Name)}
                bad = None
                for lp in [x_ for x_ in ast.walk(f.node) if isinstance(x_, ast.For)]:
                    for st_ in ast.walk(lp):
                        if not (isinstance(st_, ast.Assign) and isinstance(st_.targets[0], ast.Subscript) and norm(st_.targets[0].value) == mapping):
                            continue
                        v = st_.value
                        if norm(v) == norm(st_.targets[0].slice):
                            continue  # the key's own name: distinct keys take distinct columns
                        src_names = {x_.id for x_ in ast.walk(v) if isinstance(x_, ast.Name)}
                        # follow one definition step:  best = table[closest[0]]
                        for d_ in ast.walk(lp):
                            if isinstance(d_, ast.Assign) and any(isinstance(t_, ast.Name) and t_.id in src_names for t_ in d_.targets):
                                src_names |= {x_.id for x_ in ast.walk(d_.value) if isinstance(x_, ast.Name)}
                        tables = [d_ for d_ in ast.walk(f.node) if isinstance(d_, ast.Assign) and any(isinstance(t_, ast.Name) and t_.id in src_names for t_ in d_.targets)
                                  and isinstance(d_.value, (ast.DictComp, ast.ListComp, ast.SetComp)) and norm(d_.value.generators[0].iter) in f.params]
                        for tb in tables:
                            inside = any(x_ is tb for x_ in ast.walk(lp))
                            excludes = any(isinstance(x_, ast.Name) and x_.id in consumed for x_ in ast.walk(tb.value))
                            shrunk = any(isinstance(x_, (ast.Delete,)) or (isinstance(x_, ast.Call) and call_name(x_) in ("pop", "remove", "discard") and norm(x_.func.value) == norm(tb.targets[0]))
                                         for x_ in ast.walk(lp))
                            guarded = any(any(nm in g_ and "not in" in g_ for nm in consumed) for g_ in guards_of(f, st_))
                            if not ((inside and excludes) or shrunk or guarded):
                                bad = (st_, tb)
                if bad is not None:
                    R.fail("R17.2", f, bad[0], f"{f.name}: a stored column is no longer offered to the following keys",
                           f"`{norm(bad[0])[:60]}` takes its column from `{norm(bad[1].targets[0])}`, which is built once from all incoming columns and never shrunk; the consumed set "
                           f"{sorted(consumed)} only filters the returned leftovers: one column can be assigned to two keys")
                else:
                    R.undecided("R17.6", f, f.node, f"{f.name} works on a copy of the incoming column list",
                                "the leftovers are returned as a filtered view of the incoming list: the consume/assign pairing of this step is not followed")
            else:
                R.fail("R17.6", f, f.node, f"{f.name} works on a copy of the incoming column list", "no copy of the incoming list is made: leftovers cannot be tracked")
            continue
        def empty_dict(v):
            # {} / dict() / defaultdict(dict) (the entry for a key comes into being on first use)
            return (isinstance(v, ast.Dict) and not v.keys) or (isinstance(v, ast.Call) and not v.keywords and (
                (call_name(v) == "dict" and not v.args) or (call_name(v) == "defaultdict" and len(v.args) == 1 and norm(v.args[0]) in ("dict", "lambda: {}", "lambda: dict()"))))

        accs = {st.target.id if isinstance(st, ast.AnnAssign) else st.targets[0].id for st in ast.walk(f.node)
                if (isinstance(st, ast.AnnAssign) and isinstance(st.target, ast.Name) and st.value is not None and empty_dict(st.value))
                or (isinstance(st, ast.Assign) and isinstance(st.targets[0], ast.Name) and empty_dict(st.value))}
        accs.discard(mapping)
        stores = stores_in(f, mapping, accs)
        removes = [st for st in ast.walk(f.node) if isinstance(st, ast.Expr) and isinstance(st.value, ast.Call) and call_name(st.value) == "remove" and norm(st.value.func.value) == work]
        # a flush of an accumulator may live in a helper that receives (accumulator, mapping)
        flush_sites = []
        for lp in ast.walk(f.node):
            if isinstance(lp, ast.For) and any(a_ in norm(lp.iter) for a_ in accs):
                flush_sites += [(f, x) for x in stores_in(f, mapping, set()) if x[0] in list(ast.walk(lp))]
        for c in ast.walk(f.node):
            if isinstance(c, ast.Call) and isinstance(c.func, ast.Name):
                callee = P.functions.get(P.resolve_name(f.module, c.func.id) or "")
                if callee is not None and any(isinstance(a_, ast.Name) and a_.id in accs for a_ in c.args) and any(isinstance(a_, ast.Name) and a_.id == mapping for a_ in c.args):
                    mp = callee.params[[norm(a_) for a_ in c.args].index(mapping)]
                    flush_sites += [(callee, x) for x in stores_in(callee, mp, set())]
        flush_stmts = {id(x[0]) for _, x in flush_sites}
        n_store += len(stores) + len([1 for g, _ in flush_sites if g is not f])
        n_rem += len(removes)
        # ---- R17.3 no overwrite
        todo = [(f, x, "flush" if id(x[0]) in flush_stmts else x[2]) for x in stores] + [(g, x, "flush") for g, x in flush_sites if g is not f]
        for g, (st, root, _k, key, slot_base), kind in todo:
            gs = [x.replace(" ", "") for x in guards_of(g, st)]
            mp_name = root if kind != "flush" or g is f else root
            if kind in ("store", "flush"):
                guarded = f"{key}notin{mp_name}".replace(" ", "") in gs
                label = f"{f.name}: {kind} into the mapping is dominated by a `not in mapping` test"
            elif kind == "accumulator-slot":
                guarded = f"{key}notin{slot_base}".replace(" ", "") in gs
                label = f"{f.name}: an accumulator slot is written once"
            else:
                guarded = f"{key}notin{root}".replace(" ", "") in gs
                label = f"{f.name}: an accumulator entry is created only when missing"
            if guarded:
                R.ok("R17.3", f, st, label, via="dominating-guard")
            elif (f.name, kind) in REVIEWED:
                w1 = "in display_name_to_key" in norm(f.node)
                edge_multi = any(
                    isinstance(k, ast.Constant) and k.value == "feature_type" and isinstance(v, ast.Constant) and v.value == "edge"
                    for fn in P.functions.values() if ".features." in fn.qname
                    for d_ in ast.walk(fn.node) if isinstance(d_, ast.Dict)
                    for k, v in zip(d_.keys, d_.values, strict=True)
                    if any(isinstance(k2, ast.Constant) and k2.value == "num_values" and not (isinstance(v2, ast.Constant) and v2.value == 1) for k2, v2 in zip(d_.keys, d_.values, strict=True))
                )
                if w1 and not edge_multi:
                    R.ok("R17.3", f, st, label, REVIEWED[(f.name, kind)], via=f"exception:{f.name}-{kind}")
                else:
                    R.fail("R17.3", f, st, label, "reviewed exception no longer applies: " + REVIEWED[(f.name, kind)])
            else:
                R.fail("R17.3", f, st, label,
                       f"`{norm(st)[:90]}` can overwrite an earlier assignment of the same key: the column stored there before is lost from the map")
        # ---- R17.2 assign => consume   /  R17.1 consume => assign
        body_stores = [x for x in stores if id(x[0]) not in flush_stmts and x[2] != "accumulator-create"]
        for st, root, _k, key, _sb in body_stores:
            col = norm(st.value)
            paired = [r for r in removes if norm(r.value.args[0]) == col]
            ok = False
            for r in paired:
                gst, gr = guards_of(f, st), guards_of(f, r)
                if all(x in gst for x in gr):
                    ok = True
            R.check(ok, "R17.2", f, st, f"{f.name}: a stored column is removed from the working list",
                    f"the column `{col}` is assigned by `{norm(st)[:60]}` but stays in the list handed to the next step: it will be assigned twice", via="pairing")
        for r in removes:
            col = norm(r.value.args[0])
            gr = guards_of(f, r)
            srcs = [x for x in body_stores if norm(x[0].value) == col]
            ok = bool(srcs)
            if ok:
                extra = [[x for x in guards_of(f, x_[0]) if x not in gr] for x_ in srcs]
                ok = any(not e for e in extra) or (len(extra) == 2 and len(extra[0]) == 1 and len(extra[1]) == 1 and (
                    extra[0][0] == f"not ({extra[1][0]})" or extra[1][0] == f"not ({extra[0][0]})" or _complement(extra[0][0], extra[1][0])))
            if not ok:
                handed = [c_ for c_ in ast.walk(f.node) if isinstance(c_, ast.Call) and isinstance(c_.func, ast.Name) and c_.func.id.startswith("_")
                          and any(norm(a_) == col for a_ in c_.args) and any(isinstance(a_, ast.Name) and (a_.id == mapping or a_.id in accs) for a_ in c_.args)
                          and c_.lineno <= r.lineno]
                if handed:
                    R.undecided("R17.1", f, r, f"{f.name}: every removal from the working list follows a store of that column",
                                f"the column is handed to `{handed[0].func.id}` together with the mapping: stores inside helpers are not followed")
                    continue
            R.check(ok, "R17.1", f, r, f"{f.name}: every removal from the working list follows a store of that column",
                    f"`{norm(r)}` can remove a column that was not stored anywhere: it disappears from the inferred map", via="pairing")
        for a_ in accs:
            flushed = any(x[1] == "mapping" or True for g, x in flush_sites) and bool(flush_sites)
            R.check(flushed, "R17.1", f, f.node, f"{f.name}: accumulator `{a_}` is flushed into the mapping", "no flush found", via="syntax")
        # the flush is total: an accumulator entry that holds at least one column reaches the mapping
        import re as _re

        for g, x in flush_sites:
            st = x[0]
            lps = [lp for lp in ast.walk(g.node) if isinstance(lp, ast.For) and st in list(ast.walk(lp))]
            if not lps:
                continue
            lp = lps[-1]
            loopvars = {v.id for v in ast.walk(lp.target) if isinstance(v, ast.Name)}
            conds = []
            for i in ast.walk(lp):
                if isinstance(i, ast.If) and st in list(ast.walk(ast.Module(i.body, []))):
                    conds.append(norm(i.test).replace(" ", ""))
                if isinstance(i, ast.If) and len(i.body) == 1 and isinstance(i.body[0], ast.Continue) and i.lineno < st.lineno:
                    conds.append("not(" + norm(i.test).replace(" ", "") + ")")
            for cnd in conds:
                v = next((lv for lv in loopvars if lv in cnd), None)
                if v is None:
                    continue
                nonempty = {v, f"len({v})>0", f"len({v})>=1", f"len({v})!=0", f"{v}!={{}}", f"bool({v})", f"not(not{v})", f"not(len({v})==0)"}
                if cnd in nonempty:
                    R.ok("R17.1", g, st, f"{g.name}: every non-empty accumulator entry is flushed", via="guard-shape")
                elif _re.fullmatch(rf"len\({v}\)(>[1-9]\d*|>=([2-9]|[1-9]\d+))", cnd) or _re.fullmatch(rf"not\(len\({v}\)(<=?[1-9]\d*|==1)\)", cnd):
                    R.fail("R17.1", g, st, f"{g.name}: every non-empty accumulator entry is flushed",
                           f"the flush runs only under `{cnd}`: a column that was already removed from the working list but is the only one of its feature is stored nowhere - it vanishes from the inferred map")
                else:
                    R.undecided("R17.1", g, st, f"{g.name}: every non-empty accumulator entry is flushed", f"flush condition `{cnd}` not recognised")
        rets = [st for st in ast.walk(f.node) if isinstance(st, ast.Return) and st.value is not None]
        for r in rets:
            R.check(norm(r.value) == work, "R17.6", f, r, f"{f.name} returns its working copy",
                    f"returns `{norm(r.value)[:80]}`: leftovers are re-derived from a lossy structure, columns can vanish", via="dataflow")
        rebinds = [st for st in ast.walk(f.node) if isinstance(st, ast.Assign) and isinstance(st.targets[0], ast.Name) and st.targets[0].id == work]
        R.check(len(rebinds) == 1, "R17.6", f, rebinds[-1] if rebinds else f.node, f"{f.name}: the working copy is bound once and then only shrunk", f"{len(rebinds)} bindings", via="dataflow")
    R.floor("R17.3", "stores into mapping/accumulators", n_store, 8)
    R.floor("R17.1", "removals", n_rem, 4)
    inferred_map_unfiltered(P, R, "R17.7")
    feature_table_disjoint_from_standard_keys(P, R, "R17.8")

    # ---- pipelines: the function(s) that run the matching steps
    pipes = [f for f in mfuncs if sum(1 for c in ast.walk(f.node) if isinstance(c, ast.Call) and (call_name(c) or "").startswith("_match")) >= 2]
    R.floor("R17.4", "pipeline functions", len(pipes), 1)
    entry_ok = all(
        any(f is g or any(isinstance(c, ast.Call) and call_name(c) == g.name for c in ast.walk(f.node)) for g in pipes)
        for f in (P.func_named("infer_node_name_map"), P.func_named("infer_edge_name_map")))
    R.check(entry_ok, "R17.4", pipes[0], pipes[0].node, "both infer functions run the matching pipeline", "", via="call-graph")
    for f in pipes:
        name = f.name if f.name.startswith("infer") else "infer_*_name_map pipeline"
        steps = [st for st in ast.walk(f.node) if isinstance(st, ast.Assign) and isinstance(st.targets[0], ast.Name) and isinstance(st.value, ast.Call) and (call_name(st.value) or "").startswith("_match")]
        steps.sort(key=lambda st: st.lineno)
        if not steps:
            R.undecided("R17.4", f, f.node, f"{name} runs four matching steps", "no `left = _match*(...)` statements: the pipeline is driven some other way, not followed")
            continue
        R.check(len(steps) == 4, "R17.4", f, f.node, f"{name} runs four matching steps", f"{len(steps)} found", via="syntax")
        left = steps[0].targets[0].id
        mcallee0 = P.func_named(call_name(steps[0].value))
        m0 = steps[0].value.args[mcallee0.params.index("mapping")] if mcallee0.params.index("mapping") < len(steps[0].value.args) else None
        mapvar = norm(m0) if m0 is not None else "mapping"
        prev = None
        for i_, st in enumerate(steps):
            callee = P.func_named(call_name(st.value))
            idx = callee.params.index("importable_props")
            arg = st.value.args[idx] if idx < len(st.value.args) else None
            atxt = norm(arg) if arg is not None else ""
            if i_ == 0:
                # the first step receives all source columns: a parameter, a copy of it, or a local holding that copy
                srcs = {p_ for p_ in f.params} | {f"{p_}.copy()" for p_ in f.params} | {f"list({p_})" for p_ in f.params}
                first_ok = atxt in srcs
                if not first_ok and isinstance(arg, ast.Name):
                    d_ = [x for x in ast.walk(f.node) if isinstance(x, ast.Assign) and isinstance(x.targets[0], ast.Name) and x.targets[0].id == arg.id and x.lineno < st.lineno]
                    first_ok = bool(d_) and norm(d_[-1].value) in srcs
                ok = first_ok
            else:
                ok = atxt == prev
            R.check(ok and st.targets[0].id == left, "R17.4", f, st,
                    f"{name}: {callee.name} receives and returns the running leftover list",
                    f"`{norm(st)[:100]}` does not thread the leftover list: columns consumed earlier are offered again (or leftovers are dropped)", via="threading")
            prev = st.targets[0].id
            mi = callee.params.index("mapping")
            marg = st.value.args[mi] if mi < len(st.value.args) else None
            R.check(marg is not None and norm(marg) == mapvar, "R17.4", f, st, f"{name}: {callee.name} writes into the one mapping", "", via="threading")
        order = [call_name(st.value) for st in steps]
        R.check(order == ["_match_exact", "_match_fuzzy", "_match_display_names_exact", "_match_display_names_fuzzy"], "R17.5", f, f.node,
                f"{name}: exact standard keys, fuzzy standard keys, exact display names, fuzzy display names - in this order", str(order), via="order")
        if len(steps) >= 2:
            a0, a1 = norm(steps[0].value.args[0]), norm(steps[1].value.args[0])
            R.check(a0 == a1, "R17.5", f, steps[0], f"{name}: the exact and the fuzzy standard-key step cover the same key list",
                    f"exact step matches `{a0}`, fuzzy step `{a1}`: a key only in the fuzzy list can lose its exactly-named column to another key", via="order")
        rem = [c for c in ast.walk(f.node) if isinstance(c, ast.Call) and call_name(c) == "_map_remaining_to_self"]
        R.check(len(rem) == 1 and norm(rem[0].args[0]) == left, "R17.4", f, rem[0] if rem else f.node, f"{name}: the final leftovers map to themselves", "", via="threading")
        for c in [c for c in ast.walk(f.node) if isinstance(c, ast.Call) and call_name(c) == "update" and norm(c.func.value) == mapvar]:
            R.fail("R17.3", "name-map pipeline", f.at(c), "the final update with the leftover columns has keys disjoint from the mapping",
                   "a leftover column spelled like an already mapped key (e.g. `pos`) overwrites that key: the columns mapped there are lost")
    nm = P.func_named("infer_node_name_map")
    chain = norm(nm.node) + " ".join(norm(g.node) for g in pipes)
    R.check("build_standard_fields(required_features)" in chain, "R17.5", nm, nm.node, "the standard key list is the required keys plus the seg-id key", "", via="dataflow")
    bs = P.func_named("build_standard_fields")
    R.check("'seg_id'" in norm(bs.node) and "required_features" in norm(bs.node), "R17.5", bs, bs.node, "standard fields = required keys + seg_id", "", via="syntax")
    mr = P.func_named("_map_remaining_to_self")
    R.check("prop: prop for prop in remaining_props" in norm(mr.node), "R17.4", mr, mr.node, "leftovers map to themselves", "", via="syntax")


def _complement(a: str, b: str) -> bool:
    """`x in y` vs `x not in y` style complements"""
    return a.replace(" not in ", " in ") == b.replace(" not in ", " in ") and a != b


def inferred_map_unfiltered(P: Program, R: Report, rule: str) -> None:
    """What the builder hands out as the inferred map IS the inference result: a filter applied afterwards (e.g. dropping
    keys that also occur in the node map) removes columns from the partition without putting them anywhere."""
    tb = P.class_named("TracksBuilder")
    n = 0
    for name in ("infer_node_name_map", "infer_edge_name_map"):
        m = tb.methods.get(name) if tb else None
        if m is None:
            continue
        inferred = {t.id for s_ in ast.walk(m.node) if isinstance(s_, ast.Assign) and isinstance(s_.value, ast.Call) and (call_name(s_.value) or "").startswith("infer_")
                    for t in s_.targets if isinstance(t, ast.Name)}
        for r in [x for x in ast.walk(m.node) if isinstance(x, ast.Return) and x.value is not None]:
            v = r.value
            if isinstance(v, ast.Call) and (call_name(v) or "").startswith("infer_"):
                n += 1
                R.ok(rule, m, r, f"{m.short} returns the inference result as it is", via="dataflow")
            elif isinstance(v, ast.Name) and v.id in inferred:
                n += 1
                mutated = any(isinstance(x, ast.Call) and isinstance(x.func, ast.Attribute) and norm(x.func.value) == v.id and x.func.attr in ("pop", "clear", "popitem")
                              or (isinstance(x, ast.Delete) and any(norm(t_).startswith(v.id + "[") for t_ in x.targets)) for x in ast.walk(m.node))
                R.check(not mutated, rule, m, r, f"{m.short} returns the inference result as it is", "entries are removed from the inferred map before it is returned", via="dataflow")
            elif isinstance(v, (ast.DictComp,)) and v.generators and v.generators[0].ifs and any(isinstance(x, ast.Name) and x.id in inferred for x in ast.walk(v.generators[0].iter)):
                n += 1
                R.fail(rule, m, r, f"{m.short} returns the inference result as it is",
                       f"`{norm(v)[:80]}` filters the inferred map: the source columns behind the dropped keys are assigned nowhere (and the result depends on what "
                       "the builder inferred before)")
            elif isinstance(v, (ast.Dict, ast.Constant)):
                continue
            else:
                R.undecided(rule, m, r, f"{m.short} returns the inference result as it is", f"return value `{norm(v)[:60]}` not recognised")
    R.floor(rule, "builder methods returning an inferred map", n, 2)


def feature_table_disjoint_from_standard_keys(P: Program, R: Report, rule: str) -> None:
    """The display-name steps match leftover columns against the table of COMPUTED features; the key steps before them
    match against the standard keys (time, id, parent_id, seg_id, ...).  The two key sets are disjoint: a standard key
    that is also listed as a computed feature is offered a second time by the display-name steps, which do not skip keys
    that are already mapped - a second time-like column overwrites mapping['time'] and the first one is lost."""
    f = next((g for g in P.functions.values() if g.name == "get_default_key_to_feature_mapping"), None)
    if f is None:
        R.undecided(rule, "import_export", "", "computed-feature table and standard keys are disjoint", "table builder not found")
        return
    lit: dict[str, ast.AST] = {}
    for x in ast.walk(f.node):
        if isinstance(x, ast.Dict):
            for k in x.keys:
                if isinstance(k, ast.Constant) and isinstance(k.value, str):
                    lit.setdefault(k.value, x)
        if isinstance(x, ast.Assign):
            for t in x.targets:
                if isinstance(t, ast.Subscript) and isinstance(t.slice, ast.Constant) and isinstance(t.slice.value, str):
                    lit.setdefault(t.slice.value, x)
    std: set[str] = set()
    for ci in [c for c in P.classes.values() if c.name.endswith("TracksBuilder")]:
        for st in ast.walk(ci.node):
            if isinstance(st, ast.Assign) and any("required_features" in norm(t) for t in st.targets) and isinstance(st.value, (ast.List, ast.Tuple)):
                std |= {e.value for e in st.value.elts if isinstance(e, ast.Constant) and isinstance(e.value, str)}
            if isinstance(st, ast.Call) and isinstance(st.func, ast.Attribute) and st.func.attr in ("extend", "append") and "required_features" in norm(st.func.value):
                for a in st.args:
                    for e in (a.elts if isinstance(a, (ast.List, ast.Tuple)) else [a]):
                        if isinstance(e, ast.Constant) and isinstance(e.value, str):
                            std.add(e.value)
    for q, v in P.constants.items():
        if ".import_export." in q and q.rsplit(".", 1)[-1] in ("SEG_KEY", "TRACK_KEY", "TIME_ATTR") and isinstance(v, ast.Constant) and isinstance(v.value, str):
            if q.rsplit(".", 1)[-1] != "TRACK_KEY":
                std.add(v.value)
    if not std:
        R.undecided(rule, f, f.node, "computed-feature table and standard keys are disjoint", "standard keys not recognised")
        return
    clash = sorted(set(lit) & std)
    R.check(not clash, rule, f, lit[clash[0]] if clash else f.node, f"{f.name}: no standard key ({sorted(std)}) is listed as a computed feature",
            f"`{clash[0] if clash else ''}` is both a standard key and an entry of the computed-feature table: the display-name steps offer it again and overwrite the "
            "column the key steps had assigned", via="table-agreement")
