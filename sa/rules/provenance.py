"""Provenance of a value handed to a sink: is it the caller's own object?

Several properties speak about "the detections of the caller's array / list": node ids are row indices of the list the
caller passed, node times are frame indices of the array the caller passed, and another function of the package later
indexes the caller's array with those times.  A builder that crops, re-orders or re-scales the container before
handing it to the extractor produces a graph that is self-consistent but is about ANOTHER container.

classify(P, f, expr, at) answers, for the expression `expr` used at statement position `at` inside `f`:

    ("ident", param)   the value is the parameter `param` of f, unchanged (through aliases, copies, dtype-neutral wraps)
    ("bad", why)       a recognised sub-selection / re-ordering / arithmetic of a parameter
    ("unknown", why)   anything else - the caller of classify reports `undecided`

In-place changes of the parameter before the sink (`p.sort()`, `np.random.shuffle(p)`, `p[...] = ..`) are "bad" too.
"""

from __future__ import annotations

import ast

from ..model import FuncInfo, Program, call_name, norm

IDENT_FUNCS = {"asarray", "array", "asanyarray", "ascontiguousarray", "copy", "deepcopy", "list", "tuple", "squeeze_none"}
IDENT_METHODS = {"copy", "view", "astype", "tolist", "compute"}
REORDER_FUNCS = {"sorted", "sort", "flip", "flipud", "fliplr", "roll", "unique", "delete", "take", "compress", "concatenate", "permutation",
                 "reversed", "lexsort", "argsort", "vstack", "hstack", "stack", "extract", "trim_zeros", "shuffle", "partition"}
INPLACE = {"sort", "reverse", "resize", "partition", "fill", "put", "pop", "remove", "insert", "append", "extend", "clear"}


def _assignments_before(f: FuncInfo, name: str, at: int) -> list[ast.AST]:
    out = []
    for s in ast.walk(f.node):
        if getattr(s, "lineno", 10**9) >= at:
            continue
        if isinstance(s, ast.Assign):
            for t in s.targets:
                for x in ([t] if isinstance(t, ast.Name) else list(ast.walk(t)) if isinstance(t, (ast.Tuple, ast.List)) else []):
                    if isinstance(x, ast.Name) and x.id == name:
                        out.append(s)
        elif isinstance(s, (ast.AnnAssign, ast.AugAssign)) and isinstance(s.target, ast.Name) and s.target.id == name and getattr(s, "value", None) is not None:
            out.append(s)
        elif isinstance(s, ast.NamedExpr) and s.target.id == name:
            out.append(s)
    return out


def _inplace_before(f: FuncInfo, name: str, at: int) -> ast.AST | None:
    for s in ast.walk(f.node):
        if getattr(s, "lineno", 10**9) >= at:
            continue
        if isinstance(s, ast.Call) and isinstance(s.func, ast.Attribute) and isinstance(s.func.value, ast.Name) and s.func.value.id == name and s.func.attr in INPLACE:
            return s
        if isinstance(s, ast.Call) and call_name(s) in ("shuffle",) and s.args and isinstance(s.args[0], ast.Name) and s.args[0].id == name:
            return s
        if isinstance(s, (ast.Assign, ast.AugAssign)):
            for t in (s.targets if isinstance(s, ast.Assign) else [s.target]):
                if isinstance(t, ast.Subscript) and isinstance(t.value, ast.Name) and t.value.id == name:
                    return s
    return None


def _full_slice(sl: ast.expr) -> bool:
    if isinstance(sl, ast.Constant) and sl.value is Ellipsis:
        return True
    if isinstance(sl, ast.Slice) and sl.lower is None and sl.upper is None and (sl.step is None or norm(sl.step) == "1"):
        return True
    if isinstance(sl, ast.Tuple):
        return all(_full_slice(e) for e in sl.elts)
    return False


def classify(P: Program, f: FuncInfo, expr: ast.expr, at: int, depth: int = 0) -> tuple[str, str]:
    if depth > 8:
        return "unknown", "definition chain too long"
    if isinstance(expr, ast.Name):
        name = expr.id
        defs = _assignments_before(f, name, at)
        ip = _inplace_before(f, name, at)
        if ip is not None and (name in f.params or defs):
            return "bad", f"`{norm(ip)[:60]}` changes `{name}` in place before it is handed on"
        if not defs:
            if name in f.params:
                return "ident", name
            return "unknown", f"`{name}` is not a parameter or local of {f.name}"
        verdicts = []
        for s in defs:
            if isinstance(s, ast.AugAssign):
                verdicts.append(("bad", f"`{norm(s)[:60]}` changes the value"))
                continue
            v = s.value
            tgt = s.targets[0] if isinstance(s, ast.Assign) else s.target
            if isinstance(tgt, (ast.Tuple, ast.List)):
                verdicts.append(("unknown", f"`{name}` comes out of `{norm(v)[:50]}`"))
                continue
            verdicts.append(classify(P, f, v, s.lineno, depth + 1))
        if name in f.params:
            # re-bound on some path only: the other paths keep the parameter
            verdicts.append(("ident", name))
        bad = [v for v in verdicts if v[0] == "bad"]
        if bad:
            return bad[0]
        unk = [v for v in verdicts if v[0] == "unknown"]
        if unk:
            return unk[0]
        srcs = {v[1] for v in verdicts}
        return ("ident", srcs.pop()) if len(srcs) == 1 else ("unknown", f"`{name}` may come from {sorted(srcs)}")
    if isinstance(expr, ast.Call):
        nm = call_name(expr)
        if isinstance(expr.func, ast.Attribute) and expr.func.attr in IDENT_METHODS and not isinstance(expr.func.value, ast.Name) or (
                isinstance(expr.func, ast.Attribute) and expr.func.attr in IDENT_METHODS and isinstance(expr.func.value, ast.Name)
                and expr.func.value.id not in ("np", "numpy", "copy")):
            return classify(P, f, expr.func.value, at, depth + 1)
        if nm in IDENT_FUNCS and expr.args:
            return classify(P, f, expr.args[0], at, depth + 1)
        if nm in REORDER_FUNCS and expr.args:
            inner = classify(P, f, expr.args[0], at, depth + 1)
            if inner[0] in ("ident", "bad"):
                return "bad", f"`{norm(expr)[:60]}` re-orders / re-assembles the container"
        if isinstance(expr.func, ast.Attribute) and expr.func.attr in INPLACE | {"argsort"}:
            return "bad", f"`{norm(expr)[:60]}`"
        return "unknown", f"result of `{norm(expr)[:50]}`"
    if isinstance(expr, ast.Subscript):
        inner = classify(P, f, expr.value, at, depth + 1)
        if _full_slice(expr.slice):
            return inner
        if inner[0] in ("ident", "bad"):
            return "bad", f"`{norm(expr)[:60]}` selects a part (or another order) of the container: indices into it no longer are indices into the caller's"
        return inner
    if isinstance(expr, ast.BinOp):
        l, r = classify(P, f, expr.left, at, depth + 1), classify(P, f, expr.right, at, depth + 1)
        if "ident" in (l[0], r[0]) or "bad" in (l[0], r[0]):
            return "bad", f"`{norm(expr)[:60]}` computes a different value"
        return "unknown", f"`{norm(expr)[:50]}`"
    if isinstance(expr, ast.IfExp):
        a, b = classify(P, f, expr.body, at, depth + 1), classify(P, f, expr.orelse, at, depth + 1)
        for v in (a, b):
            if v[0] == "bad":
                return v
        if a == b:
            return a
        return "unknown", f"`{norm(expr)[:50]}`"
    if isinstance(expr, ast.Constant) and expr.value is None:
        return "unknown", "None"
    return "unknown", f"`{norm(expr)[:50]}`"


def bound_args(callee: FuncInfo, call: ast.Call) -> dict[str, ast.expr]:
    out: dict[str, ast.expr] = {}
    params = [p for p in callee.params if p not in ("self", "cls")]
    for p_, a_ in zip(params, call.args, strict=False):
        if not isinstance(a_, ast.Starred):
            out[p_] = a_
    for k in call.keywords:
        if k.arg:
            out[k.arg] = k.value
    return out
