"""C16 - exports, saves and queries never modify the tracks.

R16.1  for every read-only entry point the interprocedural write-effect set rooted at the
       tracks object contains no content write.
R16.2  order-only effects (sort / reverse) are allowed only on the values of the id -> nodes
       lookup maps, which are observed as sets.
R16.3  a write through a copy is allowed only at the levels the copy made private
       (built into the effect domain: graph.copy() gives private containers and attribute
       dicts, shared values).
"""

from __future__ import annotations

from ..effects import TRUSTED_EXTERNAL, Effects
from ..model import FuncInfo, Program
from ..report import Report

READ_ONLY_PREFIXES = ("get_", "has_", "export_", "save", "dump_", "_save", "is_")
READ_ONLY_NAMES = {
    "nodes", "edges", "in_degree", "out_degree", "predecessors", "successors", "node_features",
    "edge_features", "max_track_id", "track_id_to_node", "node_id_to_track_id", "time_attr",
    "pos_attr", "features", "_check_existing_feature", "_compute_ndim", "_compute_node_attrs",
    "_get_node_attr", "_get_nodes_attr", "_undo_pointer", "_filter_feature_keys", "can_annotate",
    "all_features", "split_position_attr", "filter_graph_with_ancestors", "axis_names",
    "get_default_key_to_feature_mapping",
}
ISSUERS = {"_get_new_node_ids"}  # hands out ids by advancing a counter: not a query
ORDER_OK = ("tracklet_id_to_nodes", "lineage_id_to_nodes")


def entry_points(P: Program) -> list[tuple[FuncInfo, str]]:
    out = []
    tracks_like = {c.qname for c in P.subclasses("Tracks", strict=False)} | {P.class_named("FeatureDict").qname}
    for f in P.functions.values():
        if f.parent is not None or f.name in ISSUERS:
            continue
        ro_name = f.name.startswith(READ_ONLY_PREFIXES) or f.name in READ_ONLY_NAMES
        if f.cls is not None and f.cls.qname in tracks_like:
            if ro_name or "property" in f.decorators():
                if f.name.startswith("get_next"):
                    pass
                out.append((f, f.params[0]))
        elif f.cls is None and ".import_export." in f.qname + ".":
            env = P.param_env(f)
            for p, t in env.items():
                if t in tracks_like and ro_name:
                    out.append((f, p))
        elif f.cls is not None and (P.is_subclass(f.cls.qname, "GraphAnnotator") or f.cls.name == "AnnotatorRegistry" or f.cls.name == P.history_class().name):
            if "property" in f.decorators() or f.name.startswith(("get_", "_filter")):
                out.append((f, f.params[0]))
    return out


def run(P: Program, R: Report, tier: str) -> None:
    R.explanation = (
        "Interprocedural write-effect analysis over access paths rooted at the tracks object "
        "(aliases through assignments, loop targets, views, tuple returns and property aliases; "
        "copies modelled by the number of levels they make private), evaluated for every read-only "
        "entry point: exporters, savers and the query surface of Tracks / SolutionTracks / FeatureDict."
    )
    R.decides += ["no read-only entry point can write storage reachable from the tracks object (content), "
                  "order-only writes occur only inside the id->nodes lookup lists"]
    R.not_decided += ["effects of third-party callees that receive tracks storage (listed as trusted)"]
    E = Effects(P)
    R.count("fixpoint_rounds", E.rounds)
    eps = entry_points(P)
    R.floor("R16.1", "read-only entry points", len(eps), 35)
    ext_seen = set()
    for f, root in sorted(eps, key=lambda x: x[0].qname):
        eff = E.effects_on(f, root)
        # an underscore-private attribute of the object itself (a call counter, a memo kept by a query) is not part of the state
        # the property names (graph, attributes, segmentation, scale, feature registry, lookups, history); whether a memo can go
        # stale is decided by the memo-discipline rule of C01 / C03 / C06 / C07 / C09
        private = [(pa, w) for pa, k, w in eff if k == "content" and pa and pa[0].startswith("_") and not pa[0].startswith("__")]
        for pa, w in private[:1]:
            R.ok("R16.1", f, w, f"{f.short}({root}): writes only private bookkeeping `{root}.{pa[0]}`", via="exception:private-bookkeeping")
        content = [(pa, w) for pa, k, w in eff if k == "content" and not (pa and pa[0].startswith("_") and not pa[0].startswith("__"))]
        order = [(pa, w) for pa, k, w in eff if k == "order"]
        if not content:
            R.ok("R16.1", f, f.node, f"{f.short}({root}): no content write reachable from `{root}`", via="effect-analysis")
        seen = set()
        for pa, w in content:
            key = ".".join(pa[:3])
            if key in seen:
                continue
            seen.add(key)
            R.fail("R16.1", f, w, f"{f.short} may write {root}.{'.'.join(pa)}",
                   f"a read-only operation reaches a write of `{root}.{'.'.join(pa)}` at {w}")
        for pa, w in order:
            ok = any(x in pa for x in ORDER_OK)
            R.check(ok, "R16.2", f, w, f"{f.short} reorders {root}.{'.'.join(pa)} (order-only)",
                    "in-place reordering of storage other than the id->nodes lookup lists", via="effect-analysis")
        for callee, p, pa in E.summ[f.qname].ext_calls:
            if p == root:
                ext_seen.add(callee)
    for callee in sorted(ext_seen):
        R.trusted.append(f"third-party callee receiving tracks storage, trusted not to write it: {callee}")
    R.assumptions += [
        "third-party callees are non-mutating unless listed in KNOWN_EXTERNAL_MUTATORS (networkx.relabel_nodes(copy=False), set_*_attributes, numpy.put/copyto/place/putmask, shuffle)",
        "aliasing is tracked through names, attributes, items, loop targets, views and returns; not through containers stored in locals and re-read by index",
    ]
    # ---- R16.4 a lookup that is handed out is a plain dict: reading a missing id must not insert it
    from .memo import no_autoinsert_lookup

    no_autoinsert_lookup(P, R, "R16.4")
