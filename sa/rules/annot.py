"""Shared helpers for the annotator rules (C08, C09, C10)."""

from __future__ import annotations

import ast

from ..model import AnalysisError, ClassInfo, FuncInfo, Program, call_name, norm
from ..report import Report

WRITE_CALLS = {"_set_node_attr", "_set_nodes_attr", "_set_edge_attr", "_set_edges_attr"}


_ACTIVE_CACHE: dict = {}
_PREDS: list = [set(), {"features"}]  # filled by update_guards from active_accessors(P)


def active_accessors(P: Program) -> tuple[set[str], set[str]]:
    """Names through which an annotator sees its ACTIVE features, discovered from GraphAnnotator:
    collections = properties / methods returning `all_features` filtered by the inclusion flag (`features`, ...),
    predicates  = methods (self, key) answering whether key's flag is set (`is_active`, ...)."""
    key = id(P)
    if key in _ACTIVE_CACHE:
        return _ACTIVE_CACHE[key]
    colls, preds = {"features"}, set()
    base = P.class_named("GraphAnnotator")
    for m in (base.methods.values() if base else []):
        rets = [r for r in ast.walk(m.node) if isinstance(r, ast.Return) and r.value is not None]
        if not rets:
            continue
        # collection: every return is a comprehension over self.all_features.items() filtered by the flag
        def flag_filtered(v):
            if isinstance(v, (ast.DictComp, ast.ListComp, ast.SetComp)) and len(v.generators) == 1:
                g = v.generators[0]
                if "all_features.items()" in norm(g.iter) and isinstance(g.target, ast.Tuple) and len(g.target.elts) == 2 and isinstance(g.target.elts[1], ast.Tuple):
                    flag = norm(g.target.elts[1].elts[-1])
                    return any(norm(c) == flag for c in g.ifs)
            return False

        if all(flag_filtered(r.value) for r in rets):
            colls.add(m.name)
            continue
        # the explicit-loop form of the same:  for k, (f, included) in self.all_features.items(): if included: out[k] = f
        loops = [lp for lp in ast.walk(m.node) if isinstance(lp, ast.For) and "all_features.items()" in norm(lp.iter) and isinstance(lp.target, ast.Tuple)
                 and len(lp.target.elts) == 2 and isinstance(lp.target.elts[1], ast.Tuple)]
        if len(loops) == 1 and len(rets) == 1 and isinstance(rets[0].value, ast.Name):
            flag = norm(loops[0].target.elts[1].elts[-1])
            body = loops[0].body
            if len(body) == 1 and isinstance(body[0], ast.If) and norm(body[0].test) == flag and not body[0].orelse:
                colls.add(m.name)
                continue
        # predicate: (self, key) -> flag of all_features[key]
        if len(m.params) == 2:
            kp = m.params[1]
            flags = set()
            for s_ in ast.walk(m.node):
                if isinstance(s_, ast.Assign) and isinstance(s_.targets[0], ast.Tuple) and len(s_.targets[0].elts) == 2:
                    srcs = {norm(s_.value)} | {norm(d_.value) for d_ in ast.walk(m.node) if isinstance(d_, ast.Assign) and norm(d_.targets[0]) == norm(s_.value)}
                    if any("all_features" in x and kp in x for x in srcs):
                        flags.add(norm(s_.targets[0].elts[1]))
            ok = bool(flags) and all(norm(r.value) in ("False",) or norm(r.value) in flags or norm(r.value) in {f"bool({f_})" for f_ in flags} for r in rets)
            if ok:
                preds.add(m.name)
    _ACTIVE_CACHE[key] = (colls, preds)
    return colls, preds


def early_returns(f: FuncInfo) -> list[tuple[ast.If, str]]:
    """`if <test>: return` statements at the top level of the function body."""
    out = []
    for s in f.node.body:
        if isinstance(s, ast.If) and len(s.body) == 1 and isinstance(s.body[0], ast.Return) and not s.orelse:
            out.append((s, norm(s.test)))
    return out


def classify_guard(test: ast.expr, action_param: str | None, f: FuncInfo | None = None) -> str:
    """type-filter | no-segmentation | feature-gate | nothing-active | other"""
    txt = norm(test)
    if action_param and "isinstance(" in txt and action_param in txt and not any(
        isinstance(x, ast.Attribute) and isinstance(x.value, ast.Name) and x.value.id == action_param for x in ast.walk(test)
    ):
        return "type-filter"
    if txt in ("self.tracks.segmentation is None",):
        return "no-segmentation"
    if isinstance(test, ast.UnaryOp) and isinstance(test.op, ast.Not) and isinstance(test.operand, ast.Call) and isinstance(test.operand.func, ast.Attribute) \
            and norm(test.operand.func.value) == "self" and test.operand.func.attr in _PREDS[0]:
        return "feature-gate"
    if isinstance(test, ast.Compare) and len(test.ops) == 1 and isinstance(test.ops[0], ast.NotIn):
        comp = test.comparators[0]
        if norm(comp) in ("self.features", "self.features.keys()"):
            return "feature-gate"
        if isinstance(comp, ast.Name) and f is not None:
            defs = [s for s in ast.walk(f.node) if isinstance(s, ast.Assign) and any(isinstance(t, ast.Name) and t.id == comp.id for t in s.targets)]
            if defs and all(norm(d.value) in ("self.features", "self.features.keys()", "list(self.features.keys())", "self._filter_feature_keys(None)") for d in defs):
                return "feature-gate"
    if isinstance(test, ast.UnaryOp) and isinstance(test.op, ast.Not) and isinstance(test.operand, ast.Name):
        return "nothing-active"
    return "other"


def update_guards(P: Program, R, a: ClassInfo, rule: str) -> None:
    """Every early exit of an annotator's update() is one of the accepted idioms: a filter on
    the action TYPE, missing segmentation, the feature being switched off, nothing active.
    Anything else (e.g. a test on the action's payload) can leave a feature stale."""
    upd = a.methods.get("update")
    if upd is None:
        return
    colls_, preds_ = active_accessors(P)
    _PREDS[0], _PREDS[1] = preds_, colls_
    action = upd.params[1] if len(upd.params) > 1 else None
    # `not keys` style guards must test a list derived from the active features
    for node, txt in early_returns(upd):
        kind = classify_guard(node.test, action, upd)
        if kind == "nothing-active":
            nm = node.test.operand.id
            defs = [s for s in ast.walk(upd.node) if isinstance(s, ast.Assign) and any(isinstance(t, ast.Name) and t.id == nm for t in s.targets)]
            if not defs or not all("self.features" in norm(d.value) or "_filter_feature_keys" in norm(d.value) or any(f"self.{c_}" in norm(d.value) for c_ in colls_) for d in defs):
                kind = "other"
        R.check(kind != "other", rule, upd, node, f"{a.name}.update: early exit `{txt[:70]}` is an accepted idiom ({kind})",
                f"update() returns early on `{txt[:120]}`: for actions that do change what the feature depends on, the stored value goes stale",
                via="guard-idiom")


def calls_to(f: FuncInfo, name: str) -> list[ast.Call]:
    return [c for c in ast.walk(f.node) if isinstance(c, ast.Call) and call_name(c) == name]


MUTATORS = ("add", "update", "append", "extend", "insert", "setdefault", "__setitem__")
UNMUTATORS = ("discard", "remove", "clear", "difference_update", "pop", "popitem", "intersection_update")


def _self_attr(e: ast.AST) -> str | None:
    while isinstance(e, ast.Subscript):
        e = e.value
    if isinstance(e, ast.Attribute) and isinstance(e.value, ast.Name) and e.value.id == "self":
        return e.attr
    return None


def _own_closure(P: Program, ann, entry: str, depth: int = 2):
    """the method `entry` of the class plus same-class helpers it calls (bounded depth)"""
    out, todo = [], [(P.lookup_method(ann.qname, entry), 0)]
    seen = set()
    while todo:
        m, d = todo.pop()
        if m is None or m.qname in seen:
            continue
        seen.add(m.qname)
        out.append(m)
        if d < depth:
            for c in ast.walk(m.node):
                if isinstance(c, ast.Call) and isinstance(c.func, ast.Attribute) and isinstance(c.func.value, ast.Name) and c.func.value.id == "self":
                    todo.append((P.lookup_method(ann.qname, c.func.attr), d + 1))
    return out


def compute_is_memoryless(P: Program, R: Report, ann, rule: str) -> None:
    """compute(keys) must (re)compute every requested active key from the CURRENT state.  A 'done already' memo - an
    instance attribute that compute itself fills and then consults to decide what to skip - is only sound if it is
    emptied whenever the values stop being maintained, i.e. when the feature is deactivated (update() maintains
    active features only).  rule: attribute both filled and consulted inside compute => some deactivate path clears it."""
    comp = P.lookup_method(ann.qname, "compute")
    if comp is None:
        raise AnalysisError(f"{ann.name} has no compute()")
    body = _own_closure(P, ann, "compute")
    filled: dict[str, ast.AST] = {}
    consulted: dict[str, ast.AST] = {}
    for m in body:
        for x in ast.walk(m.node):
            if isinstance(x, ast.Call) and isinstance(x.func, ast.Attribute) and x.func.attr in MUTATORS:
                a = _self_attr(x.func.value)
                if a:
                    filled.setdefault(a, x)
            if isinstance(x, (ast.Assign, ast.AugAssign)):
                for t in (x.targets if isinstance(x, ast.Assign) else [x.target]):
                    a = _self_attr(t)
                    if a:
                        filled.setdefault(a, x)
            tests = []
            if isinstance(x, (ast.If, ast.While, ast.IfExp)):
                tests.append(x.test)
            if isinstance(x, ast.comprehension):
                tests += x.ifs
            for t in tests:
                for y in ast.walk(t):
                    a = _self_attr(y) if isinstance(y, (ast.Attribute, ast.Subscript)) else None
                    if a:
                        consulted.setdefault(a, t)
    memo = sorted(set(filled) & set(consulted))
    if not memo:
        R.ok(rule, comp, comp.node, f"{ann.name}.compute keeps no memo of what it computed before (nothing it fills decides what it skips)",
             f"fills {sorted(filled)}, consults {sorted(consulted)}", via="def-use")
        return
    deact = _own_closure(P, ann, "deactivate_features")
    for a in memo:
        cleared = False
        for m in deact:
            for x in ast.walk(m.node):
                if isinstance(x, ast.Call) and isinstance(x.func, ast.Attribute) and x.func.attr in UNMUTATORS and _self_attr(x.func.value) == a:
                    cleared = True
                if isinstance(x, ast.Delete) and any(_self_attr(t) == a for t in x.targets):
                    cleared = True
                if isinstance(x, ast.Assign) and any(_self_attr(t) == a and not isinstance(t, ast.Subscript) for t in x.targets):
                    cleared = True
        # attributes that compute rebuilds from scratch (assigned, not accumulated) are results, not memos
        rebuilt = isinstance(filled[a], ast.Assign) and any(isinstance(t, ast.Attribute) and _self_attr(t) == a for t in filled[a].targets)
        if rebuilt:
            R.ok(rule, comp, filled[a], f"{ann.name}.compute rebuilds self.{a} from scratch", via="def-use")
        elif cleared:
            R.ok(rule, comp, consulted[a], f"{ann.name}: the memo self.{a} is emptied when features are deactivated", via="def-use")
        else:
            R.fail(rule, comp, consulted[a], f"{ann.name}.compute recomputes every requested active key from the current state",
                   f"compute fills self.{a} and consults it (`{norm(consulted[a])[:70]}`) to skip work, and no deactivate path empties it: after "
                   "disable -> edit -> enable the skipped keys keep their values from before the edit")


def keys_threaded(P, R, rule: str, only: tuple[str, ...] | None = None) -> None:
    """The queries of the data model read an attribute under the name `features.<x>_key`; the annotator that maintains
    that attribute is told its name when it is constructed.  Where the data model builds an annotator whose constructor
    has a `<x>_key` parameter and the feature dictionary has a key of that role, the argument is passed and comes from
    `self.features.<x>_key` - with the default name instead, a feature dictionary with a custom key makes the annotator
    maintain one attribute while every query (and every edit that relabels) reads another."""
    import ast as _ast

    from ..model import norm as _norm
    from ..resolve import Resolver as _Rs

    fd = P.class_named("FeatureDict")
    fd_keys = set()
    if fd is not None:
        for m in fd.methods.values():
            for x in _ast.walk(m.node):
                if isinstance(x, _ast.Attribute) and _norm(x.value) == "self" and x.attr.endswith("_key"):
                    fd_keys.add(x.attr)
    ann_classes = {c.name: c for c in P.subclasses("GraphAnnotator")}
    n = 0
    for f in P.functions.values():
        if ".data_model." not in f.qname:
            continue
        rs = None
        for c in _ast.walk(f.node):
            if not (isinstance(c, _ast.Call) and isinstance(c.func, _ast.Name) and c.func.id in ann_classes):
                continue
            ci = ann_classes[c.func.id]
            init = P.lookup_method(ci.qname, "__init__")
            if init is None:
                continue
            params = [p for p in init.params if p != "self"]
            bound = {}
            for p_, a_ in zip(params, c.args, strict=False):
                bound[p_] = a_
            for k in c.keywords:
                if k.arg:
                    bound[k.arg] = k.value
            for p_ in params:
                if not p_.endswith("_key"):
                    continue
                stem = p_[: -len("_key")]
                role = next((k for k in sorted(fd_keys) if k[: -len("_key")].startswith(stem) or stem.startswith(k[: -len("_key")])), None)
                if role is None or (only and not any(o in role for o in only)):
                    continue
                n += 1
                label = f"{f.short}: {ci.name} is told the name `features.{role}` of the attribute it maintains"
                a = bound.get(p_)
                if a is None:
                    R.fail(rule, f, c, label, f"`{_norm(c)[:70]}` does not pass `{p_}`: the annotator maintains the default attribute name, while the queries and the "
                           f"relabelling edits read `features.{role}` - with a custom key in a pre-built feature dictionary the two differ and the ids are never updated")
                    continue
                rs = rs or _Rs(P, f)
                t = rs.text(a)
                if f"features.{role}" in t:
                    R.ok(rule, f, c, label, f"`{p_}` = `{t[:60]}`", via="dataflow")
                else:
                    R.undecided(rule, f, c, label, f"`{p_}` = `{t[:60]}`")
    if n == 0:
        R.undecided(rule, "data model", "", "annotators are told the attribute names of the feature dictionary", "no annotator construction with a key parameter found")


def total_write(P, R, ann, rule: str) -> None:
    """A write kernel that is handed the LIST of elements to (re)write writes every one of them: the value found for the
    elements it can match, and the neutral value for whatever is left.  On the control-flow graph, every normal exit of
    the kernel is reached only through a loop over that parameter whose body writes the attribute - an early return
    ("nothing can overlap in an empty frame") leaves the stale value of a previous state, or no value at all."""
    import ast as _ast

    from ..cfg import build_cfg
    from ..model import call_name as _cn, norm as _norm

    n = 0
    for m in ann.methods.values():
        params = [p for p in m.params if p not in ("self", "cls")]
        writes = [c for c in _ast.walk(m.node) if isinstance(c, _ast.Call) and (_cn(c) or "") in ("_set_edge_attr", "_set_node_attr", "_set_edges_attr", "_set_nodes_attr")]
        if not writes or not params:
            continue
        for p_ in params:
            # a loop over the parameter itself whose body writes the loop variable
            loops = []
            for lp in _ast.walk(m.node):
                if isinstance(lp, _ast.For) and _norm(lp.iter) in (p_, f"list({p_})", f"tuple({p_})") and isinstance(lp.target, _ast.Name):
                    if any(isinstance(c, _ast.Call) and c in writes and c.args and _norm(c.args[0]) == lp.target.id for c in _ast.walk(lp)):
                        loops.append(lp)
            if not loops:
                continue
            n += 1
            cfg = build_cfg(m.node)
            entry = next(x.id for x in cfg.nodes.values() if x.kind == "entry")
            exit_ = next(x.id for x in cfg.nodes.values() if x.kind == "exit")
            heads = {cfg.node_of(lp) for lp in loops} - {None}
            label = f"{m.short}: every element of `{p_}` is written (matched value, or the neutral one for the rest)"
            if not heads:
                R.undecided(rule, m, m.node, label, "loop not found on the control-flow graph")
            elif cfg.reachable(entry, exit_, avoiding=heads):
                rets = [r for r in _ast.walk(m.node) if isinstance(r, _ast.Return) and r.lineno < min(lp.lineno for lp in loops)]
                R.fail(rule, m, rets[0] if rets else m.node, label,
                       f"a path leaves {m.name} without passing the loop over `{p_}`: the edges handed in keep the value of an earlier state (or none) although the "
                       "feature was just (re)computed - bulk recomputation and the incremental path then disagree")
            else:
                R.ok(rule, m, loops[0], label, "every normal exit passes the loop", via="cfg-must-pass")
    if n == 0:
        R.undecided(rule, ann, "", f"{ann.name}: write kernels write every element they are handed", "no kernel with a list parameter and a catch-all loop found")


def nested_total_write(P, R, f, rule: str) -> None:
    """An annotation pass that visits pairs (outer loop over sources, inner loop over targets) writes the attribute for
    every pair that is an edge: inside one iteration of the outer loop, every way to the next iteration goes through the
    inner loop.  A `continue` ("this source overlaps nothing") in front of it leaves those edges without the attribute
    although it was requested - the neutral value is part of the result."""
    import ast as _ast

    from ..cfg import build_cfg
    from ..model import norm as _norm

    writes = [s for s in _ast.walk(f.node) if isinstance(s, _ast.Assign) and isinstance(s.targets[0], _ast.Subscript) and ".edges[" in _norm(s.targets[0])]
    label = f"{f.short}: every visited pair that is an edge gets the attribute"
    if not writes:
        R.undecided(rule, f, f.node, label, "edge attribute write not found")
        return
    cfg = build_cfg(f.node)
    n = 0
    for w in writes:
        loops = [lp for lp in _ast.walk(f.node) if isinstance(lp, _ast.For) and any(x is w for x in _ast.walk(lp))]
        loops.sort(key=lambda lp: sum(1 for _ in _ast.walk(lp)))
        if len(loops) < 3:
            continue  # frames -> sources -> targets; with fewer levels the loop around the writing loop is the frame loop, whose `continue` (no next frame) is legitimate
        inner, outer = loops[0], loops[1]
        hi, ho = cfg.node_of(inner), cfg.node_of(outer)
        if hi is None or ho is None:
            continue
        n += 1
        body_entries = [s for s in cfg.succ(ho) if cfg.g.edges[ho, s].get("label") == "true"]
        skip = any(cfg.reachable(b, ho, avoiding={hi}) for b in body_entries if b != hi)
        if skip:
            conts = [c for c in _ast.walk(outer) if isinstance(c, _ast.Continue) and not any(c is x for x in _ast.walk(inner))]
            R.fail(rule, f, conts[0] if conts else outer, label,
                   f"an iteration of the loop over `{_norm(outer.target)}` can end without entering the loop over `{_norm(inner.target)}`: the edges of that source "
                   "keep no value at all (requested IoU missing instead of 0)")
        else:
            R.ok(rule, f, inner, label, "every path through an outer iteration enters the writing loop", via="cfg-must-pass")
    if n == 0:
        R.undecided(rule, f, f.node, label, "nested pair loops not recognised")
