"""Shared helpers for the annotator rules (C08, C09, C10)."""

from __future__ import annotations

import ast

from ..model import ClassInfo, FuncInfo, Program, call_name, norm

WRITE_CALLS = {"_set_node_attr", "_set_nodes_attr", "_set_edge_attr", "_set_edges_attr"}


def early_returns(f: FuncInfo) -> list[tuple[ast.If, str]]:
    """`if <test>: return` statements at the top level of the function body."""
    out = []
    for s in f.node.body:
        if isinstance(s, ast.If) and len(s.body) == 1 and isinstance(s.body[0], ast.Return) and not s.orelse:
            out.append((s, norm(s.test)))
    return out


def classify_guard(test: ast.expr, action_param: str | None, f: FuncInfo | None = None) -> str:
    """type-filter | no-segmentation | feature-gate | nothing-active | other"""
    txt = norm(test)
    if action_param and "isinstance(" in txt and action_param in txt and not any(
        isinstance(x, ast.Attribute) and isinstance(x.value, ast.Name) and x.value.id == action_param for x in ast.walk(test)
    ):
        return "type-filter"
    if txt in ("self.tracks.segmentation is None",):
        return "no-segmentation"
    if isinstance(test, ast.Compare) and len(test.ops) == 1 and isinstance(test.ops[0], ast.NotIn):
        comp = test.comparators[0]
        if norm(comp) in ("self.features", "self.features.keys()"):
            return "feature-gate"
        if isinstance(comp, ast.Name) and f is not None:
            defs = [s for s in ast.walk(f.node) if isinstance(s, ast.Assign) and any(isinstance(t, ast.Name) and t.id == comp.id for t in s.targets)]
            if defs and all(norm(d.value) in ("self.features", "self.features.keys()", "list(self.features.keys())", "self._filter_feature_keys(None)") for d in defs):
                return "feature-gate"
    if isinstance(test, ast.UnaryOp) and isinstance(test.op, ast.Not) and isinstance(test.operand, ast.Name):
        return "nothing-active"
    return "other"


def update_guards(P: Program, R, a: ClassInfo, rule: str) -> None:
    """Every early exit of an annotator's update() is one of the accepted idioms: a filter on
    the action TYPE, missing segmentation, the feature being switched off, nothing active.
    Anything else (e.g. a test on the action's payload) can leave a feature stale."""
    upd = a.methods.get("update")
    if upd is None:
        return
    action = upd.params[1] if len(upd.params) > 1 else None
    # `not keys` style guards must test a list derived from the active features
    for node, txt in early_returns(upd):
        kind = classify_guard(node.test, action, upd)
        if kind == "nothing-active":
            nm = node.test.operand.id
            defs = [s for s in ast.walk(upd.node) if isinstance(s, ast.Assign) and any(isinstance(t, ast.Name) and t.id == nm for t in s.targets)]
            if not defs or not all("self.features" in norm(d.value) or "_filter_feature_keys" in norm(d.value) for d in defs):
                kind = "other"
        R.check(kind != "other", rule, upd, node, f"{a.name}.update: early exit `{txt[:70]}` is an accepted idiom ({kind})",
                f"update() returns early on `{txt[:120]}`: for actions that do change what the feature depends on, the stored value goes stale",
                via="guard-idiom")


def calls_to(f: FuncInfo, name: str) -> list[ast.Call]:
    return [c for c in ast.walk(f.node) if isinstance(c, ast.Call) and call_name(c) == name]
