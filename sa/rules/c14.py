"""C14 - export followed by import is the identity (writer / reader table agreement).

R14.1 keys written by _save_attrs are constructor parameters of Tracks; load forwards them
R14.2 FeatureDict.dump_json key set == from_json key set == constructor parameters
R14.3 save and load use the same file-name constants
R14.4 the spatial axis tables agree element by element for ndim 3 and 4 in every place that
      defines them; multi-value columns are ordered by index
R14.5 the CSV exporter's id / parent column names are the CSV builder's required keys
R14.6 existing track / lineage ids on an imported graph are detected PER KEY and activated
      instead of recomputed
R14.7 optional ids are not tested by truthiness in the exporters (node id 0)
"""

from __future__ import annotations

import ast

from ..model import AnalysisError, FuncInfo, Program, call_name, norm
from ..report import Report


def fold_axes(expr: ast.expr, ndim: int, f: FuncInfo | None = None):
    """Constant-fold a spatial axis table for a given ndim: list literals, conditional
    expressions on ndim, and (for statement sequences) insert(0, 'z') under `ndim == 4`."""
    if isinstance(expr, ast.List) and all(isinstance(e, ast.Constant) for e in expr.elts):
        return [e.value for e in expr.elts]
    if isinstance(expr, ast.IfExp):
        t = norm(expr.test)
        val = None
        if "ndim == 4" in t:
            val = ndim == 4 or ("ndim is None" in t and False)
        elif "ndim == 3" in t:
            val = ndim == 3
        if val is None:
            return None
        return fold_axes(expr.body if val else expr.orelse, ndim)
    return None


def axes_from_function(f: FuncInfo, var: str, ndim: int):
    """Fold `var = [...]` followed by `if ...ndim == 4: var.insert(0, 'z')`."""
    cur = None
    for s in ast.walk(f.node):
        if isinstance(s, ast.Assign) and isinstance(s.targets[0], ast.Name) and s.targets[0].id == var:
            cur = fold_axes(s.value, ndim)
    if cur is None:
        return None
    cur = list(cur)
    for s in ast.walk(f.node):
        if isinstance(s, ast.If) and "ndim == 4" in norm(s.test) and ndim == 4:
            for c in ast.walk(s):
                if isinstance(c, ast.Call) and call_name(c) == "insert" and norm(c.func.value) == var and norm(c.args[0]) == "0":
                    cur.insert(0, c.args[1].value)
    return cur


def feature_dict_written_keys(dump: FuncInfo):
    """keys of the inner dictionary dump_json writes: constant keys of dict literals (outside the one-key wrapper and the
    per-feature comprehension), constant subscript stores, and the elements of a constant tuple a loop / comprehension
    takes its keys from.  None when no key is recognised."""
    keys: set[str] = set()
    loopvars: dict[str, list[str]] = {}
    for x in ast.walk(dump.node):
        if isinstance(x, (ast.For, ast.comprehension)) and isinstance(x.target, ast.Name) and isinstance(x.iter, (ast.Tuple, ast.List)) and all(
                isinstance(e, ast.Constant) and isinstance(e.value, str) for e in x.iter.elts):
            loopvars[x.target.id] = [e.value for e in x.iter.elts]
    for x in ast.walk(dump.node):
        if isinstance(x, ast.Dict):
            ks = [k for k in x.keys if isinstance(k, ast.Constant) and isinstance(k.value, str)]
            if len(x.keys) == 1 and ks and isinstance(x.values[0], (ast.Dict, ast.Name)) and ks[0].value[:1].isupper():
                continue  # the wrapper {"FeatureDict": ...}
            keys |= {k.value for k in ks}
        if isinstance(x, ast.DictComp) and isinstance(x.key, ast.Name) and x.key.id in loopvars:
            keys |= set(loopvars[x.key.id])
        if isinstance(x, ast.Assign):
            for t in x.targets:
                if isinstance(t, ast.Subscript):
                    if isinstance(t.slice, ast.Constant) and isinstance(t.slice.value, str):
                        keys.add(t.slice.value)
                    elif isinstance(t.slice, ast.Name) and t.slice.id in loopvars:
                        keys |= set(loopvars[t.slice.id])
        if isinstance(x, ast.Call) and call_name(x) in ("update", "dict") and x.keywords:
            keys |= {k.arg for k in x.keywords if k.arg}
    return keys or None


def feature_dict_keys_agree(P: Program, R: Report, rule: str) -> None:
    """the special keys of the feature dictionary (time / position / tracklet / lineage key) survive dump_json -> from_json:
    written keys == read keys == constructor parameters.  Shared with C06: a key that is lost on save comes back as None,
    and the track annotator then never builds the lookup for it from the loaded graph."""
    fd = P.class_named("FeatureDict")
    dump, load, init = fd.methods["dump_json"], fd.methods["from_json"], fd.methods["__init__"]
    wkeys = feature_dict_written_keys(dump)
    rkeys = set()
    for c in ast.walk(load.node):
        if isinstance(c, ast.Subscript) and isinstance(c.slice, ast.Constant) and norm(c.value) == "data":
            rkeys.add(c.slice.value)
        if isinstance(c, ast.Call) and call_name(c) == "get" and norm(c.func.value) == "data" and c.args:
            rkeys.add(c.args[0].value)
    pkeys = set(init.params[1:])
    if wkeys is None:
        R.undecided(rule, dump, dump.node, "dump_json keys == from_json keys == FeatureDict constructor parameters", "the keys dump_json writes were not recognised")
        wkeys = rkeys
    R.check(wkeys == rkeys == pkeys, rule, dump, dump.node, "dump_json keys == from_json keys == FeatureDict constructor parameters",
            f"written {sorted(wkeys)}, read {sorted(rkeys)}, parameters {sorted(pkeys)}", via="table-agreement")
    outer_w = [r.value for r in ast.walk(dump.node) if isinstance(r, ast.Return) and isinstance(r.value, ast.Dict) and len(r.value.keys) == 1 and isinstance(r.value.keys[0], ast.Constant)]
    ow = outer_w[0].keys[0].value if outer_w else None
    if ow is None:
        R.undecided(rule, dump, dump.node, "the wrapper key is the same on both sides", "dump_json does not return a one-key dictionary literal")
    else:
        R.check(f"json_dict['{ow}']" in norm(load.node), rule, dump, dump.node, "the wrapper key is the same on both sides", str(ow), via="table-agreement")
    for kw in [k for c in ast.walk(load.node) if isinstance(c, ast.Call) and norm(c.func) == "cls" for k in c.keywords]:
        v = norm(kw.value)
        R.check(f"'{kw.arg}'" in v, rule, load, kw.value, f"from_json passes data['{kw.arg}'] as {kw.arg}", v, via="table-agreement")


def run(P: Program, R: Report, tier: str) -> None:
    R.explanation = (
        "Agreement of the tables that writer and reader share: attribute keys vs constructor "
        "parameters, the feature-registry schema, file-name constants, the spatial axis tables "
        "constant-folded for ndim 3 and 4, CSV key names; plus the per-key detection of existing ids "
        "and an id-truthiness lint over the exporters."
    )
    R.decides += ["writers and readers of the three formats agree on their key tables and axis order; loaded track ids are kept, not renumbered"]
    R.decides += ['columns are combined by promotion and integer ids are not renumbered on the way back in (shared R12.10 / R12.13)']
    R.not_decided += ["value equality, dtype round trips, GEFF / zarr / pandas internals"]
    tracks = P.class_named("Tracks")
    tinit = tracks.methods["__init__"]
    # ---- R14.1
    sa = P.func_named("_save_attrs")
    dicts = [d for d in ast.walk(sa.node) if isinstance(d, ast.Dict) and all(isinstance(k, ast.Constant) for k in d.keys)]
    if not dicts:
        raise AnalysisError("_save_attrs: attribute dict literal not found")
    keys = [k.value for k in dicts[0].keys]
    for k in keys:
        R.check(k in tinit.params, "R14.1", sa, dicts[0], f"saved attribute `{k}` is a constructor parameter of Tracks",
                f"`{k}` is written to attrs.json but Tracks.__init__ has no such parameter: loading fails or drops it", via="table-agreement")
    for need in ("scale", "ndim", "features"):
        R.check(need in keys, "R14.1", sa, dicts[0], f"`{need}` is saved", f"`{need}` missing from the saved attributes", via="table-agreement")
    lt = P.func_named("load_tracks")
    R.check("**attrs" in norm(lt.node), "R14.1", lt, lt.node, "load_tracks forwards every saved attribute to the constructor", "", via="syntax")
    la = P.func_named("_load_attrs")
    R.check("FeatureDict.from_json" in norm(la.node), "R14.1", la, la.node, "the saved feature registry is rebuilt with from_json", "", via="syntax")
    # ---- R14.2
    feature_dict_keys_agree(P, R, "R14.2")
    # ---- R14.3
    mod = P.functions[P.func_named("save_tracks").qname].module
    consts = {n.targets[0].id: n.value.value for n in mod.tree.body if isinstance(n, ast.Assign) and isinstance(n.targets[0], ast.Name) and isinstance(n.value, ast.Constant) and n.targets[0].id.endswith("_FILE")}
    R.floor("R14.3", "file-name constants", len(consts), 3)
    for cname in consts:
        users = [f.name for f in P.functions.values() if f.module is mod and any(isinstance(x, ast.Name) and x.id == cname for x in ast.walk(f.node))]
        has_w = any(u.startswith(("_save", "save")) for u in users)
        has_r = any(u.startswith(("_load", "load")) for u in users)
        R.check(has_w and has_r, "R14.3", "internal_format", mod.rel, f"{cname} is used by the saving and the loading side", f"used by {users}", via="table-agreement")
    lit = [c for f in P.functions.values() if f.module is mod for c in ast.walk(f.node) if isinstance(c, ast.Constant) and isinstance(c.value, str) and c.value in consts.values()]
    R.check(not lit, "R14.3", "internal_format", mod.rel, "file names appear only through their constants", "", via="syntax")
    # ---- R14.4 axis tables
    tables = {}
    for ndim in (3, 4):
        t = {}
        for s in ast.walk(tinit.node):
            if isinstance(s, ast.Assign) and norm(s.targets[0]) == "self.axis_names":
                t["Tracks.axis_names"] = fold_axes(s.value, ndim)
        rp = P.class_named("RegionpropsAnnotator").methods["_define_features"]
        for s in ast.walk(rp.node):
            if isinstance(s, ast.Assign) and norm(s.targets[0]) == "axis_names":
                t["RegionpropsAnnotator._define_features"] = fold_axes(s.value, ndim)
        tb = P.class_named("TracksBuilder").methods["axis_names"]
        rets = sorted((r for r in ast.walk(tb.node) if isinstance(r, ast.Return)), key=lambda r: r.lineno)
        cond = [i for i in ast.walk(tb.node) if isinstance(i, ast.If)]
        if cond and len(rets) == 2:
            t["TracksBuilder.axis_names"] = fold_axes(rets[0].value if ndim == 4 else rets[1].value, ndim) if "ndim == 4" in norm(cond[0].test) else None
        sp = P.func_named("split_position_attr")
        t["split_position_attr"] = axes_from_function(sp, "new_keys", ndim)
        csv = P.func_named("export_to_csv")
        for s in ast.walk(csv.node):
            if isinstance(s, ast.Assign) and norm(s.targets[0]) == "coords":
                t["export_to_csv.coords"] = fold_axes(s.value, ndim)
        pre = P.class_named("TracksBuilder").methods["_preprocess_name_map"]
        for s in ast.walk(pre.node):
            if isinstance(s, ast.Assign) and norm(s.targets[0]) == "coord_keys":
                full = fold_axes(s.value, 4)
                t["TracksBuilder._preprocess_name_map.coord_keys"] = full if ndim == 4 else (full[1:] if full else None)
        tables[ndim] = t
        ref = t.get("Tracks.axis_names")
        for name, val in sorted(t.items()):
            if val is None:
                R.undecided("R14.4", name, "", f"axis table of {name} could not be folded for ndim={ndim}", "shape not recognised")
                continue
            R.check(val == ref, "R14.4", name, P.func_named("split_position_attr").loc if name == "split_position_attr" else name,
                    f"axis table of {name} for ndim={ndim} is {ref}", f"{name} gives {val}, Tracks.axis_names gives {ref}: coordinates are swapped on one side only",
                    via="constant-folding")
    R.floor("R14.4", "axis tables", len(tables[3]), 5)
    from ..rules.c17 import display_sorting_ok

    display_sorting_ok(P, R, "R14.4")
    # ---- R14.5
    csvb = P.class_named("CSVTracksBuilder").methods["__init__"]
    req = set()
    for c in ast.walk(csvb.node):
        if isinstance(c, ast.Call) and call_name(c) == "extend" and c.args and isinstance(c.args[0], ast.List):
            req |= {e.value for e in c.args[0].elts}
    csv = P.func_named("export_to_csv")
    hdr = set()
    n_lists = 0
    for g_ in [f_ for f_ in P.functions.values() if f_.module is csv.module]:
        for c in ast.walk(g_.node):
            lists = []
            if isinstance(c, ast.Call) and call_name(c) in ("extend", "append") and "header" in norm(c.func.value) and c.args:
                lists = [c.args[0]] if isinstance(c.args[0], ast.List) else ([ast.List([c.args[0]], ast.Load())] if isinstance(c.args[0], ast.Constant) else [])
            if isinstance(c, (ast.Assign, ast.AnnAssign)) and c.value is not None and isinstance(c.value, ast.List) and any(
                    "header" in norm(t) for t in (c.targets if isinstance(c, ast.Assign) else [c.target])):
                lists = [c.value]
            for l_ in lists:
                n_lists += 1
                hdr |= {e.value for e in l_.elts if isinstance(e, ast.Constant)}
    if n_lists == 0:
        R.undecided("R14.5", csv, csv.node, f"the CSV header contains the importer's required keys {sorted(req)}", "construction of the header not recognised")
    else:
        R.check(req <= hdr, "R14.5", csv, csv.node, f"the CSV header contains the importer's required keys {sorted(req)}", f"header has {sorted(hdr)}", via="table-agreement")
    # ---- R14.6 per-key detection
    setup = tracks.methods["_setup_core_computed_features"]
    from ..resolve import Resolver as _Rs14

    rs14 = _Rs14(P, setup)
    loops = [lp for lp in ast.walk(setup.node) if isinstance(lp, ast.For) and isinstance(lp.target, ast.Name) and any(
        isinstance(c, ast.Call) and call_name(c) in ("activate_features", "enable_features") for c in ast.walk(lp))]
    ok = False
    for lp in loops:
        k = lp.target.id
        ifs = [s for s in lp.body if isinstance(s, ast.If)]
        if len(ifs) == 1 and norm(ifs[0].test) == f"self._check_existing_feature({k})":
            act = any(isinstance(c, ast.Call) and call_name(c) == "activate_features" and norm(c.args[0]) == f"[{k}]" for c in ast.walk(ast.Module(ifs[0].body, [])))
            en = any(isinstance(c, ast.Call) and call_name(c) == "enable_features" and norm(c.args[0]) == f"[{k}]" for c in ast.walk(ast.Module(ifs[0].orelse, [])))
            ok = act and en
        # the same decision as a flag:  enable_features([k], recompute=not self._check_existing_feature(k))
        for c in ast.walk(lp):
            if isinstance(c, ast.Call) and call_name(c) == "enable_features" and c.args and norm(c.args[0]) == f"[{k}]":
                rc = next((kw.value for kw in c.keywords if kw.arg == "recompute"), None)
                if rc is not None and rs14.text(rc).replace(" ", "") in (f"notself._check_existing_feature({k})", f"not(self._check_existing_feature({k}))"):
                    ok = True
    stray = [c for c in ast.walk(setup.node) if isinstance(c, ast.Call) and call_name(c) in ("enable_features", "activate_features", "compute")
             and not any(c in list(ast.walk(lp)) for lp in loops)]
    R.check(not stray, "R14.6", setup, stray[0] if stray else setup.node, "features are switched on only inside the per-key decision loop",
            f"`{norm(stray[0])[:80] if stray else ''}` decides for several keys at once: ids present in the file are recomputed (renumbered) when another key is missing", via="guard-shape")
    R.check(ok, "R14.6", setup, setup.node, "each core feature is activated if it exists on the graph and recomputed otherwise, decided per key",
            "the decision for one key depends on another key (or is not `_check_existing_feature(key)`): ids loaded from a file are renumbered", via="guard-shape")
    # ---- R14.7
    from .c05 import id_truthiness

    id_truthiness(P, R, "R14.7", modules=("import_export",))
    # the importer half of the round trip: ids read back from a file are not tested by truthiness either (node id 0)
    from .c12 import source_id_truthiness

    source_id_truthiness(P, R, "R14.7")
    # ---- R14.8 the 'missing' mask of a loaded property survives the renaming step
    missing_mask_passthrough(P, R, "R14.8")
    # ---- R14.10 / R14.11 (= R12.10 / R12.13) what the reader does to values and ids on the way back in
    from .c12 import combination_promotes, integer_ids_are_kept

    combination_promotes(P, R, "R14.10")
    integer_ids_are_kept(P, R, "R14.11")


def missing_mask_passthrough(P: Program, R: Report, rule: str) -> None:
    """A GEFF property is (values, missing).  Elements flagged missing must come back WITHOUT the attribute; if the
    renaming step drops or thins the mask, they come back with the store's fill value instead (0.0), so a value that
    was absent before export is present after import.  The mask may be replaced by None only when it flags nothing."""
    f = P.func_named("import_graph_from_geff")
    funcs = [f]
    for c in ast.walk(f.node):
        if isinstance(c, ast.Call) and isinstance(c.func, ast.Name):
            q = P.resolve_name(f.module, c.func.id)
            g = P.functions.get(q) if q else None
            if g is not None and g not in funcs and ".import_export." in g.qname:
                funcs.append(g)
    n = 0
    for g in funcs:
        for d in ast.walk(g.node):
            if not (isinstance(d, ast.Dict) and {getattr(k, "value", None) for k in d.keys} >= {"values", "missing"}):
                continue
            mv = d.values[[getattr(k, "value", None) for k in d.keys].index("missing")]
            n += 1
            # all definitions that can reach the expression
            names = {x.id for x in ast.walk(mv) if isinstance(x, ast.Name)}
            defs = [s for s in ast.walk(g.node) if isinstance(s, ast.Assign) and any(isinstance(t, ast.Name) and t.id in names for t in s.targets)]
            exprs = [mv] + [s.value for s in defs]
            src_ok = any('"missing"' in norm(e).replace("'", '"') for e in exprs)
            # the mask may be fetched (and normalised) by a helper of the package: look at what the helper returns
            helper_verdicts = []
            for e in exprs:
                if isinstance(e, ast.Call) and isinstance(e.func, ast.Name):
                    hq = P.resolve_name(g.module, e.func.id)
                    h = P.functions.get(hq) if hq else None
                    if h is not None and ".import_export." in h.qname:
                        from .util import guards_of as _go

                        hdefs = {t.id: s_.value for s_ in ast.walk(h.node) if isinstance(s_, ast.Assign) for t in s_.targets if isinstance(t, ast.Name)}
                        for r_ in [x for x in ast.walk(h.node) if isinstance(x, ast.Return)]:
                            if r_.value is None or (isinstance(r_.value, ast.Constant) and r_.value.value is None):
                                conds = [x.replace(" ", "") for x in _go(h, r_)]
                                # each disjunct that lets the mask be dropped must say "flags nothing" (or "there is none")
                                flat = []
                                for cnd in conds:
                                    flat += cnd.split("or") if "or" in cnd and "and" not in cnd else [cnd]
                                for cnd in flat:
                                    if cnd.endswith("isNone") or cnd.startswith("not") and ".any()" in cnd or "np.any(" in cnd and cnd.startswith("not") or ".sum()==0" in cnd:
                                        helper_verdicts.append(("ok", cnd))
                                    elif ".all()" in cnd or "np.all(" in cnd:
                                        helper_verdicts.append(("bad", cnd))
                                    else:
                                        helper_verdicts.append(("unknown", cnd))
                            else:
                                rv = r_.value
                                txt = norm(rv).replace("'", '"') + " " + " ".join(norm(hdefs[n_.id]).replace("'", '"') for n_ in ast.walk(rv) if isinstance(n_, ast.Name) and n_.id in hdefs)
                                helper_verdicts.append(("src" if '"missing"' in txt else "unknown", norm(rv)[:40]))
            if helper_verdicts:
                lab = f"{g.short}: the renamed property takes its mask from the source property's mask"
                bad_ = [v for v in helper_verdicts if v[0] == "bad"]
                if bad_:
                    R.fail(rule, g, d, f"{g.short}: the mask is normalised to None only when it flags nothing",
                           f"the helper returns None under `{bad_[0][1]}`: a mask that flags SOME elements is dropped, those elements come back with the fill value")
                elif any(v[0] == "src" for v in helper_verdicts) and not any(v[0] == "unknown" for v in helper_verdicts):
                    R.ok(rule, g, d, lab, "through a helper that returns the source mask (None only when it flags nothing)", via="dataflow")
                else:
                    R.undecided(rule, g, d, lab, f"helper returns {[v[1] for v in helper_verdicts if v[0] == 'unknown']}")
                continue
            R.check(src_ok, rule, g, d, f"{g.short}: the renamed property takes its mask from the source property's mask",
                    f"`missing` is built from `{norm(mv)[:60]}`: the source mask is dropped - absent values come back as the fill value", via="dataflow")
            # places where the mask is replaced by None
            from .util import guards_of

            for s in defs:
                if isinstance(s.value, ast.Constant) and s.value.value is None:
                    gs = [x.replace(" ", "") for x in guards_of(g, s)]
                    nm = s.targets[0].id
                    accepted = {f"not{nm}.any()", f"{nm}isNone", f"not({nm}.any())", f"notnp.any({nm})", f"{nm}.sum()==0", f"notany({nm})"}
                    cond = [x for x in gs if nm in x and x not in (f"{nm}isnotNone",)]
                    if all(x in accepted for x in cond) and cond:
                        R.ok(rule, g, s, f"{g.short}: the mask is normalised to None only when it flags nothing", via="guard-shape")
                    elif any(".all()" in x or "np.all(" in x for x in cond):
                        R.fail(rule, g, s, f"{g.short}: the mask is normalised to None only when it flags nothing",
                               f"`{nm} = None` under {cond}: a mask that flags SOME elements is dropped, those elements come back with the fill value instead of without the attribute")
                    else:
                        R.undecided(rule, g, s, f"{g.short}: the mask is normalised to None only when it flags nothing", f"condition {cond} not recognised")
            for e in exprs:
                for ie in ast.walk(e):
                    if isinstance(ie, ast.IfExp) and any(isinstance(b, ast.Constant) and b.value is None for b in (ie.body, ie.orelse)):
                        t = norm(ie.test).replace(" ", "")
                        if ".all()" in t or "np.all(" in t:
                            R.fail(rule, g, ie, f"{g.short}: the mask is normalised to None only when it flags nothing",
                                   f"`{norm(ie)[:80]}`: a mask that flags some elements is dropped")
    R.floor(rule, "renamed (values, missing) records", n, 1)
    # ---- R14.9 a graph that is rebuilt for export takes the edges WITH their attributes
    rebuilt_graph_keeps_edge_data(P, R, "R14.9")


def rebuilt_graph_keeps_edge_data(P: Program, R: Report, rule: str) -> None:
    """`G.add_edges_from(H.edges)` copies the edge set and drops every edge attribute; `H.edges(data=True)` (or
    `H.copy()`) keeps them.  In the export path a rebuilt graph without edge data writes no edge property at all."""
    from ..resolve import Resolver

    n = 0
    for fn in P.functions.values():
        if fn.parent is not None or ".import_export." not in fn.qname or "export" not in fn.qname:
            continue
        rs = None
        for c in ast.walk(fn.node):
            if isinstance(c, ast.Call) and call_name(c) in ("add_edges_from", "add_edge") and c.args:
                rs = rs or Resolver(P, fn)
                src = rs.text(c.args[0])
                if "graph.edges" not in src and ".edges" not in src:
                    continue
                n += 1
                with_data = "data=True" in src.replace(" ", "") or "data=" in src
                R.check(with_data, rule, fn, c, f"{fn.short}: edges copied into a rebuilt graph keep their attributes",
                        f"`{norm(c)[:70]}` copies the edge set only: every edge feature (iou, custom attributes) is missing from the exported file", via="syntax")
    if n == 0:
        R.ok(rule, "import_export", "", "no exporter rebuilds a graph edge by edge (copies keep the edge attributes)", via="syntax")
