"""C04 - track ids label exactly the maximal unbranched segments (edit side).

R04.1  every change of segment adjacency a user action makes itself is accompanied, on the
       same path, by the relabelling it needs: join -> tail adopts the source's current id;
       new division -> existing child gets a fresh id; cut -> orphaned tail gets a fresh id,
       or (division removed) the sibling adopts the parent's id; a spliced-in node carries the
       id its neighbours were looked up with; removing a first-daughter relabels the sibling.
R04.2  ids handed to the relabelling primitive / written on a new node come from
       get_next_track_id(), get_track_id(<node>) read in the current state, or the caller.
"""

from __future__ import annotations

from ..actions import ActionAnalysis, strip, trail_text
from ..absint import parse_call_term
from ..model import Program
from ..report import Report
from .relabel import current, relabel_args, steps_of

TKEY = "$tracks.features.tracklet_key"


def attr_value(ev, key: str):
    """Value stored under `key` in the attributes mapping handed to a node-adding primitive."""
    from ..absint import dict_literal_items

    X = ev.args.get("attributes")
    if X is None:
        return None, None
    val = None
    for f in ev.pre["facts"] if ev.pre else ():
        if f[0] == "item" and f[1] == X and f[2] == key:
            val = f[3]
    if val is None:
        items = dict_literal_items(X)
        if items and key in items:
            val = items[key]
    return X, val


def is_tid_of(term, node, epoch) -> bool:
    p = parse_call_term(term or "")
    return bool(p and p[0] == "tid" and p[1] == [node] and p[2] == epoch)


def is_fresh(term, what, epoch) -> bool:
    return term == f"{what}@{epoch}"


def run(P: Program, R: Report, tier: str) -> None:
    R.explanation = (
        "Every structural graph operation a user action performs itself is classified from the "
        "terms and degree facts the abstract interpreter holds at that point (join, new division, "
        "cut, division removed, splice, node removal) and matched against the relabelling "
        "primitives constructed on the same path; ids must be read in the current state."
    )
    R.decides += [
        "no edit path changes segment adjacency without the relabel it needs, with ids of sound provenance that are not stale",
    ]
    R.decides += ['history shape and registration (shared R02.x); memo discipline; the tracklet key is threaded from the feature dictionary into the annotator']
    R.not_decided += [
        "the iff over all node pairs; the frame clause; correctness of the bulk assignment and of the downstream walk in the annotator",
    ]
    R.assumptions += ["AX-TRACKPATH and AX-FOREST hold when the action starts", "nested user actions discharge their own obligations"]
    A = ActionAnalysis(P, loop_iters=1 if tier == "quick" else 2)
    steps, roles, stats = steps_of(P, A)
    R.count("sequences", stats["sequences"])
    R.floor("R04.1", "structural steps", len(steps), 8)
    matched = set()
    for st in steps:
        f, ev = st.f, st.ev
        s, t = st.s, st.t
        allU = st.relabels_before + st.relabels_after

        def find(pred, pool):
            for u in pool:
                a = relabel_args(P, u)
                if pred(a):
                    matched.add(id(u))
                    return u, a
            return None, None

        label = f"{st.kind}: {strip(s)[:36]} -> {strip(t)[:36]}"
        path = trail_text(st.trail)
        if st.kind == "join":
            u, a = find(lambda a: a["start"] == t, st.relabels_before)
            R.check(u is not None, "R04.1", f, ev.where(), f"{label}: joined tail is relabelled",
                    "an edge joins two segments but no relabel starting at the target precedes it", via="path-shape", path=path)
            if u is not None:
                R.check(is_tid_of(a["tid"], s, a["epoch"]), "R04.2", f, u.where(), f"{label}: tail adopts the source's current track id",
                        f"id passed is {strip(str(a['tid']))} (state epoch at the relabel: {a['epoch']}): not the source's id as it is now", via="dataflow", path=path)
        elif st.kind == "divide":
            def is_child(a):
                p = parse_call_term(a["start"] or "")
                return bool(p and p[0] in ("succ1",) and p[1] == [s] and p[2] == a["epoch"])
            u, a = find(is_child, allU)
            R.check(u is not None, "R04.1", f, ev.where(), f"{label}: existing child is relabelled when a division is created",
                    "the source already has a child; it keeps the parent's id although it now starts a segment of its own", via="path-shape", path=path)
            if u is not None:
                R.check(is_fresh(a["tid"], "fresh_tid", a["epoch"]), "R04.2", f, u.where(), f"{label}: existing child gets a fresh track id",
                        f"id passed is {strip(str(a['tid']))}: a live id may be reused", via="dataflow", path=path)
        elif st.kind == "cut-orphan":
            u, a = find(lambda a: a["start"] == t, st.relabels_after)
            R.check(u is not None, "R04.1", f, ev.where(), f"{label}: orphaned tail is relabelled",
                    "the edge is removed but the tail keeps the id of the segment it left", via="path-shape", path=path)
            if u is not None:
                R.check(is_fresh(a["tid"], "fresh_tid", a["epoch"]), "R04.2", f, u.where(), f"{label}: orphaned tail gets a fresh track id",
                        f"id passed is {strip(str(a['tid']))}", via="dataflow", path=path)
        elif st.kind == "cut-division":
            def is_sib(a):
                p = parse_call_term(a["start"] or "")
                return bool(p and ((p[0] == "succ1" and p[1] == [s] and p[2] == a["epoch"]) or (p[0] == "sibling" and p[1][:1] == [s])))
            u, a = find(is_sib, allU)
            R.check(u is not None, "R04.1", f, ev.where(), f"{label}: remaining child adopts the parent's id when a division is removed",
                    "the division disappears but the sibling keeps its own id: one segment, two ids", via="path-shape", path=path)
            if u is not None:
                R.check(is_tid_of(a["tid"], s, a["epoch"]), "R04.2", f, u.where(), f"{label}: sibling adopts the parent's current id",
                        f"id passed is {strip(str(a['tid']))}", via="dataflow", path=path)
        elif st.kind == "removal-edge":
            node = st.info["node"]
            if t == node:
                lo, hi, ax = st.info["dout_s"]
                if lo >= 2:
                    def is_sib2(a):
                        p = parse_call_term(a["start"] or "")
                        return bool(p and p[0] == "sibling" and p[1] == [s, node]) or bool(p and p[0] == "succ1" and p[1] == [s])
                    u, a = find(is_sib2, allU)
                    R.check(u is not None, "R04.1", f, ev.where(), f"{label}: sibling adopts the parent's id when a first daughter is removed",
                            "the parent stops dividing but the other child keeps its own id", via="path-shape", path=path)
                    if u is not None:
                        R.check(is_tid_of(a["tid"], s, a["epoch"]), "R04.2", f, u.where(), f"{label}: sibling adopts the parent's current id",
                                f"id passed is {strip(str(a['tid']))}", via="dataflow", path=path)
                elif hi <= 1:
                    R.ok("R04.1", f, ev.where(), f"{label}: parent had one child, nothing to relabel", via="facts")
                else:
                    R.fail("R04.1", f, ev.where(), f"{label}: not known whether the parent divides",
                           f"out-degree of the parent in [{lo},{hi}] on this path: the sibling relabel cannot be matched", path=path)
            else:
                R.ok("R04.1", f, ev.where(), f"{label}: out-edge of the removed node", via="path-shape")
        elif st.kind == "splice-in":
            an, nbr = st.info["addnode"], st.info["nbr"]
            if an is None or nbr is None:
                R.fail("R04.1", f, ev.where(), f"{label}: new node linked to a node that is not its track neighbour",
                       "the linked node does not come from get_track_neighbors(track id, time)", path=path)
                continue
            X, val = attr_value(an, TKEY)
            val = val if val is not None else f"{X}[{TKEY}]"
            R.check(val == nbr[1], "R04.1", f, ev.where(), f"{label}: spliced node carries the id its neighbours were looked up with",
                    f"node is written with track id {strip(str(val))} but linked to neighbours of track {strip(nbr[1])}", via="dataflow", path=path)
        elif st.kind in ("splice-cut", "reconnect"):
            R.ok("R04.1", f, ev.where(), f"{label}: segment membership unchanged", via="path-shape")
        else:
            R.fail("R04.1", f, ev.where(), f"{label}: structural edit matches no known shape",
                   f"degree of the source before the edit {st.info['dout_s']}: cannot tell which relabel is needed", path=path)
    # R04.2 provenance of unmatched relabels
    seen = set()
    for st in steps:
        for u in st.relabels_before + st.relabels_after:
            if id(u) in matched or id(u) in seen:
                continue
            seen.add(id(u))
            a = relabel_args(P, u)
            tid = a["tid"] or ""
            ok = (tid.startswith("fresh_tid@") or tid.startswith("tid(")) and current(tid, a["epoch"])
            R.check(ok, "R04.2", st.f, u.where(), f"relabel of {strip(str(a['start']))[:40]} uses an id of sound provenance",
                    f"id {strip(tid)} (epoch at use {a['epoch']})", via="dataflow")
    # R04.3 the track neighbours the splice / bridge steps above are justified with are the time-nearest members
    from .neighbours import nearest_neighbour

    nearest_neighbour(P, R, "R04.3")
    # R04.4 the per-track lookup the neighbour query reads loses no member, and "fresh" track ids are fresh
    from .c06 import families, monotone_maxima, no_wholesale_replace

    ta = P.class_named("TrackAnnotator")
    fams_ = [f_ for f_ in families(P, ta) if "tracklet" in f_["key"] or "track" in f_["key"]]
    monotone_maxima(P, R, ta, families(P, ta), "R04.4", only_key="track", floor=1)
    no_wholesale_replace(P, R, ta, fams_, rule="R04.4")
    # ---- R04.5 a query of the data model never answers from a memo that some writer forgets to drop
    from .memo import no_stale_memo

    no_stale_memo(P, R, "R04.5")
    # ---- R02.6 (shared): every top-level action is one history step and a nested one none - a stray step makes a later
    # undo / redo replay half an edit, which is a state this property quantifies over ("after every ... undo or redo")
    from . import c02 as _c02r

    _c02r.history_shape(P, R)
    _c02r.registration(P, R, tier, A=A, facade=False)
    # ---- R04.6 the annotator maintains the attribute the queries read (key names threaded from the feature dictionary)
    from .annot import keys_threaded

    keys_threaded(P, R, "R04.6", only=('tracklet',))
