"""C12 - import reproduces the source faithfully (rejection half + renaming discipline).

R12.1 graph construction is reached only through validation
R12.2 every (ok, detail) verdict of a geff validator is tested; failure raises ValueError
      (structural validators) or warns and deletes the property (optional ids)
R12.3 the CSV id-uniqueness check dominates the renumbering of non-integer ids
R12.4 id and parent_id are renumbered through the same mapping object
R12.5 a renumbering that can turn a link into the 'no parent' encoding is followed by a check
      that no real parent was lost
R12.6 renaming columns/properties reads from the original container and writes into a fresh one
"""

from __future__ import annotations

import ast

from ..cfg import build_cfg
from ..model import AnalysisError, FuncInfo, Program, call_name, norm
from ..report import Report


def stmt_node(cfg, f: FuncInfo, pred):
    for n in cfg.stmts():
        if n.ast is not None and n.kind in ("stmt", "test", "assert", "return") and pred(n.ast):
            yield n


def contains_call(node: ast.AST, name: str) -> bool:
    from ..cfg import header_expr

    h = header_expr(node)
    return h is not None and any(isinstance(c, ast.Call) and call_name(c) == name for c in ast.walk(h))


def run(P: Program, R: Report, tier: str) -> None:
    R.explanation = (
        "Dominance on the control-flow graph of the import entry points (validation before "
        "construction, uniqueness before renumbering), an error-discipline check of every validator "
        "verdict, identity of the renumbering map, a lossy-normalisation check on the parent column "
        "and a fresh-destination check on the renaming loops."
    )
    R.decides += [
        "malformed sources cannot reach graph construction and no validator verdict is dropped",
        "ids and parent links are renumbered through one mapping, after uniqueness was checked, without silently losing links",
        "renaming cannot read a column that an earlier rename already overwrote",
    ]
    R.not_decided += ["equality of imported values with the source, column combination order, bijectivity of the renumbering as values"]
    tb = P.class_named("TracksBuilder")
    build = tb.methods["build"]
    cfg = build_cfg(build.node)
    val = list(stmt_node(cfg, build, lambda a: contains_call(a, "validate")))
    con = list(stmt_node(cfg, build, lambda a: contains_call(a, "construct_graph")))
    sol = list(stmt_node(cfg, build, lambda a: contains_call(a, "SolutionTracks")))
    R.check(len(val) == 1 and len(con) == 1, "R12.1", build, build.node, "build() calls validate() and construct_graph() once each", f"{len(val)} / {len(con)}", via="syntax")
    if val and con:
        R.check(cfg.dominates(val[0].id, con[0].id) and not cfg.reachable(con[0].id, val[0].id), "R12.1", build, con[0].ast,
                "every path to construct_graph() passes through validate()", "graph construction can be reached without validation", via="cfg-dominance")
    for s in sol:
        R.check(bool(val) and cfg.dominates(val[0].id, s.id), "R12.1", build, s.ast, "the tracks object is built only after validation", "", via="cfg-dominance")
    vm = tb.methods["validate"]
    top = [s for s in vm.node.body if isinstance(s, ast.Expr) and isinstance(s.value, ast.Call) and call_name(s.value) == "validate_in_memory_geff"]
    R.check(len(top) == 1, "R12.1", vm, vm.node, "validate() runs the structural validation unconditionally", "", via="syntax")
    cg = tb.methods["construct_graph"]
    R.check("geff.construct(" in norm(cg.node), "R12.1", cg, cg.node, "construct_graph builds from the validated in-memory data", "", via="syntax")
    # ---- R12.2 verdicts
    n = 0
    for f in P.functions.values():
        if "._validation." not in f.qname + "." or f.parent is not None:
            continue

        def visit(body):
            nonlocal n
            for i, s in enumerate(body):
                for fld in ("body", "orelse"):
                    sub = getattr(s, fld, None)
                    if isinstance(sub, list) and sub and isinstance(sub[0], ast.stmt):
                        visit(sub)
                if not (isinstance(s, ast.Assign) and isinstance(s.targets[0], ast.Tuple) and len(s.targets[0].elts) == 2 and isinstance(s.value, ast.Call)):
                    continue
                cn = call_name(s.value) or ""
                q = P.resolve_name(f.module, cn) or ""
                table = []
                if not q and isinstance(s.value.func, ast.Name):
                    # check(*args) where `check` is the loop variable over a literal table of validators
                    for lp in ast.walk(f.node):
                        if isinstance(lp, ast.For) and s in lp.body and isinstance(lp.target, ast.Tuple) and any(isinstance(x, ast.Name) and x.id == cn for x in lp.target.elts):
                            idx = [i for i, x in enumerate(lp.target.elts) if isinstance(x, ast.Name) and x.id == cn][0]
                            it = lp.iter
                            if isinstance(it, ast.Name):
                                dd = [a_ for a_ in ast.walk(f.node) if isinstance(a_, ast.Assign) and norm(a_.targets[0]) == it.id]
                                it = dd[0].value if len(dd) == 1 else it
                            if isinstance(it, (ast.Tuple, ast.List)):
                                for row in it.elts:
                                    if isinstance(row, (ast.Tuple, ast.List)) and idx < len(row.elts):
                                        table.append(norm(row.elts[idx]))
                    table = [t for t in table if (P.resolve_name(f.module, t) or "").startswith("ext:geff.validate")]
                if table:
                    cn = "/".join(table)
                    n += len(table) - 1
                elif not (q.startswith("ext:geff.validate") and (cn.startswith("validate_") or cn.startswith("has_"))):
                    continue
                n += 1
                okv = norm(s.targets[0].elts[0])
                nxt = body[i + 1] if i + 1 < len(body) else None
                tested = isinstance(nxt, ast.If) and norm(nxt.test) == f"not {okv}"
                label = f"{f.short}: verdict of {cn} is tested right after the call"
                if not tested:
                    R.fail("R12.2", f, s, label, f"the `{okv}` returned by {cn} is never tested: the malformed source is imported")
                    continue
                raises = any(isinstance(x, ast.Raise) and "ValueError" in norm(x) for x in nxt.body)
                drops = any(isinstance(x, ast.Delete) for x in nxt.body) and any(isinstance(x, ast.Expr) and isinstance(x.value, ast.Call) and call_name(x.value) == "warn" for x in nxt.body)
                optional = cn in ("validate_tracklets", "validate_lineages") and not table
                good = drops if optional else raises
                R.check(good, "R12.2", f, nxt, f"{f.short}: a failing {cn} " + ("drops the optional property with a warning" if optional else "raises ValueError"),
                        "the failing branch neither raises ValueError nor removes the property", via="error-discipline")

        visit(f.node.body)
    R.floor("R12.2", "validator verdicts", n, 7)
    # ---- R12.3 / R12.4 / R12.5
    ls = P.class_named("CSVTracksBuilder").methods["load_source"]
    cfg = build_cfg(ls.node)
    uniq = [x for x in stmt_node(cfg, ls, lambda a: isinstance(a, ast.If) and "is_unique" in norm(a.test))]
    ens = [x for x in stmt_node(cfg, ls, lambda a: contains_call(a, "_ensure_integer_ids"))]
    R.check(len(uniq) == 1 and len(ens) == 1, "R12.3", ls, ls.node, "load_source checks uniqueness and renumbers ids", f"{len(uniq)} / {len(ens)}", via="syntax")
    if uniq and ens:
        raises = any(isinstance(x, ast.Raise) and "ValueError" in norm(x) for x in uniq[0].ast.body)
        on_raw = "df['id']" in norm(uniq[0].ast.test) or 'df["id"]' in norm(uniq[0].ast.test)
        R.check(raises and on_raw, "R12.3", ls, uniq[0].ast, "duplicate ids in the source column raise ValueError", norm(uniq[0].ast.test)[:80], via="syntax")
        R.check(cfg.dominates(uniq[0].id, ens[0].id) and not cfg.reachable(ens[0].id, uniq[0].id), "R12.3", ls, ens[0].ast,
                "the uniqueness check dominates the renumbering of non-integer ids",
                "ids are renumbered before duplicates are rejected: duplicate ids can become distinct integers and slip through", via="cfg-dominance")
    ei = P.func_named("_ensure_integer_ids")
    maps = [c for c in ast.walk(ei.node) if isinstance(c, ast.Call) and call_name(c) == "map" and c.args]
    cols = {}
    for c in maps:
        cols[norm(c.func.value)] = norm(c.args[0])
    idc = [k for k in cols if "'id'" in k]
    pc = [k for k in cols if "parent_id" in k]
    R.check(bool(idc) and bool(pc) and cols[idc[0]] == cols[pc[0]], "R12.4", ei, ei.node, "id and parent_id are renumbered through the same mapping object",
            f"mappings used: {cols}", via="dataflow")
    mp = cols[idc[0]] if idc else None
    if mp:
        d = [s for s in ast.walk(ei.node) if isinstance(s, ast.Assign) and norm(s.targets[0]) == mp]
        one2one = bool(d) and "enumerate(" in norm(d[0].value) and ("unique()" in norm(ei.node))
        R.check(one2one, "R12.4", ei, d[0] if d else ei.node, "the mapping numbers the distinct source ids (one new id per distinct value)",
                norm(d[0].value)[:100] if d else "", via="syntax")
    # R12.5
    guarded = False
    for r in [x for x in ast.walk(ei.node) if isinstance(x, ast.Raise) and "ValueError" in norm(x)]:
        ifs = [i for i in ast.walk(ei.node) if isinstance(i, ast.If) and r in i.body]
        for i in ifs:
            names = {x.id for x in ast.walk(i.test) if isinstance(x, ast.Name)}
            # does the tested value derive from the mapped parent column?
            frontier, seen = set(names), set()
            while frontier:
                v = frontier.pop()
                seen.add(v)
                for s in ast.walk(ei.node):
                    if isinstance(s, ast.Assign) and any(isinstance(t, ast.Name) and t.id == v for t in s.targets):
                        txt = norm(s.value)
                        if "parent_id" in txt and ".map(" in txt:
                            guarded = True
                        frontier |= {x.id for x in ast.walk(s.value) if isinstance(x, ast.Name)} - seen
            if "parent_id" in norm(i.test) and ".map(" in norm(i.test):
                guarded = True
    R.check(guarded, "R12.5", ei, pc and next(c for c in maps if "parent_id" in norm(c.func.value)) or ei.node,
            "_ensure_integer_ids rejects parents that are not ids (mapping a column through a dict turns unknown values into 'no parent')",
            "`parent_id.map(id_mapping)` turns a parent that matches no id into NaN, which is the 'root' encoding: the link is silently dropped "
            "instead of the source being rejected", via="lossy-normalisation")
    # ---- R12.6 renaming into a fresh container
    n = 0
    for f in (ls, P.func_named("import_graph_from_geff")):
        for lp in [x for x in ast.walk(f.node) if isinstance(x, ast.For) and isinstance(x.iter, ast.Call) and call_name(x.iter) == "flatten_name_map"]:
            n += 1
            for s in ast.walk(lp):
                if isinstance(s, ast.Assign) and isinstance(s.targets[0], ast.Subscript):
                    dst = norm(s.targets[0].value)
                    srcs = {norm(x.value) for x in ast.walk(s.value) if isinstance(x, ast.Subscript) and isinstance(x.value, ast.Name)}
                    R.check(dst not in srcs, "R12.6", f, s, f"{f.short}: renamed data is written into `{dst}`, read from {sorted(srcs)}",
                            f"`{norm(s)[:90]}` writes into the container it reads from: a later rename can read an already overwritten column", via="fresh-destination")
                    created = [a for a in ast.walk(f.node) if isinstance(a, ast.Assign) and norm(a.targets[0]) == dst and isinstance(a.value, ast.Dict) and not a.value.keys]
                    R.check(bool(created), "R12.6", f, s, f"{f.short}: `{dst}` starts empty", "", via="fresh-destination")
            first_wins = any(isinstance(i, ast.If) and "not in" in norm(i.test) for i in ast.walk(lp))
            R.check(first_wins, "R12.6", f, lp, f"{f.short}: a target key is filled once", "", via="syntax")
    R.floor("R12.6", "renaming loops", n, 2)
