"""C12 - import reproduces the source faithfully (rejection half + renaming discipline).

R12.1 graph construction is reached only through validation
R12.2 every (ok, detail) verdict of a geff validator is tested; failure raises ValueError
      (structural validators) or warns and deletes the property (optional ids)
R12.3 the CSV id-uniqueness check dominates the renumbering of non-integer ids
R12.4 id and parent_id are renumbered through the same mapping object
R12.5 a renumbering that can turn a link into the 'no parent' encoding is followed by a check
      that no real parent was lost
R12.6 renaming columns/properties reads from the original container and writes into a fresh one
"""

from __future__ import annotations

import ast

from ..cfg import build_cfg
from ..model import AnalysisError, FuncInfo, Program, call_name, norm
from ..report import Report


def stmt_node(cfg, f: FuncInfo, pred):
    for n in cfg.stmts():
        if n.ast is not None and n.kind in ("stmt", "test", "assert", "return") and pred(n.ast):
            yield n


def contains_call(node: ast.AST, name: str) -> bool:
    from ..cfg import header_expr

    h = header_expr(node)
    return h is not None and any(isinstance(c, ast.Call) and call_name(c) == name for c in ast.walk(h))


def run(P: Program, R: Report, tier: str) -> None:
    R.explanation = (
        "Dominance on the control-flow graph of the import entry points (validation before "
        "construction, uniqueness before renumbering), an error-discipline check of every validator "
        "verdict, identity of the renumbering map, a lossy-normalisation check on the parent column "
        "and a fresh-destination check on the renaming loops."
    )
    R.decides += [
        "malformed sources cannot reach graph construction and no validator verdict is dropped",
        "ids and parent links are renumbered through one mapping, after uniqueness was checked, without silently losing links",
        "renaming cannot read a column that an earlier rename already overwrote",
    ]
    R.decides += ["columns are combined by dtype promotion; missing-value masks travel with their values; offered header names are the table's own; integer ids are renumbered only because of the id column"]
    R.not_decided += ["equality of imported values with the source, column combination order, bijectivity of the renumbering as values"]
    tb = P.class_named("TracksBuilder")
    build = tb.methods["build"]
    cfg = build_cfg(build.node)
    val = list(stmt_node(cfg, build, lambda a: contains_call(a, "validate")))
    con = list(stmt_node(cfg, build, lambda a: contains_call(a, "construct_graph")))
    sol = list(stmt_node(cfg, build, lambda a: contains_call(a, "SolutionTracks")))
    R.check(len(val) == 1 and len(con) == 1, "R12.1", build, build.node, "build() calls validate() and construct_graph() once each", f"{len(val)} / {len(con)}", via="syntax")
    if val and con:
        R.check(cfg.dominates(val[0].id, con[0].id) and not cfg.reachable(con[0].id, val[0].id), "R12.1", build, con[0].ast,
                "every path to construct_graph() passes through validate()", "graph construction can be reached without validation", via="cfg-dominance")
    for s in sol:
        R.check(bool(val) and cfg.dominates(val[0].id, s.id), "R12.1", build, s.ast, "the tracks object is built only after validation", "", via="cfg-dominance")
    vm = tb.methods["validate"]
    top = [s for s in vm.node.body if isinstance(s, ast.Expr) and isinstance(s.value, ast.Call) and call_name(s.value) == "validate_in_memory_geff"]
    R.check(len(top) == 1, "R12.1", vm, vm.node, "validate() runs the structural validation unconditionally", "", via="syntax")
    cg = tb.methods["construct_graph"]
    R.check("geff.construct(" in norm(cg.node), "R12.1", cg, cg.node, "construct_graph builds from the validated in-memory data", "", via="syntax")
    # ---- R12.2 verdicts
    n = 0
    for f in P.functions.values():
        if "._validation." not in f.qname + "." or f.parent is not None:
            continue

        def visit(body):
            nonlocal n
            for i, s in enumerate(body):
                for fld in ("body", "orelse"):
                    sub = getattr(s, fld, None)
                    if isinstance(sub, list) and sub and isinstance(sub[0], ast.stmt):
                        visit(sub)
                if not (isinstance(s, ast.Assign) and isinstance(s.targets[0], ast.Tuple) and len(s.targets[0].elts) == 2 and isinstance(s.value, ast.Call)):
                    continue
                cn = call_name(s.value) or ""
                q = P.resolve_name(f.module, cn) or ""
                table = []
                if not q and isinstance(s.value.func, ast.Name):
                    # check(*args) where `check` is the loop variable over a literal table of validators
                    for lp in ast.walk(f.node):
                        if isinstance(lp, ast.For) and s in lp.body and isinstance(lp.target, ast.Tuple) and any(isinstance(x, ast.Name) and x.id == cn for x in lp.target.elts):
                            idx = [i for i, x in enumerate(lp.target.elts) if isinstance(x, ast.Name) and x.id == cn][0]
                            it = lp.iter
                            if isinstance(it, ast.Name):
                                dd = [a_ for a_ in ast.walk(f.node) if (isinstance(a_, ast.Assign) and norm(a_.targets[0]) == it.id)
                                      or (isinstance(a_, ast.AnnAssign) and a_.value is not None and norm(a_.target) == it.id)]
                                if len(dd) == 1:
                                    it = dd[0].value
                                else:
                                    qc = P.resolve_name(f.module, it.id)
                                    if qc in P.constants:
                                        it = P.constants[qc]  # a module-level table of validators
                            if isinstance(it, (ast.Tuple, ast.List)):
                                for row in it.elts:
                                    if isinstance(row, (ast.Tuple, ast.List)) and idx < len(row.elts):
                                        table.append(norm(row.elts[idx]))
                    table = [t for t in table if (P.resolve_name(f.module, t) or "").startswith("ext:geff.validate")]
                if not q and not table and isinstance(s.value.func, ast.Name) and cn in f.params:
                    # the validator is a parameter of this helper: collect what the callers pass (directly or through a table)
                    pidx = f.params.index(cn)
                    for g_ in P.functions.values():
                        if g_.module is not f.module:
                            continue
                        for c_ in ast.walk(g_.node):
                            if isinstance(c_, ast.Call) and isinstance(c_.func, ast.Name) and c_.func.id == f.name and pidx < len(c_.args):
                                a_ = c_.args[pidx]
                                cand = [norm(a_)]
                                lps = [lp for lp in ast.walk(g_.node) if isinstance(lp, ast.For) and any(x is c_ for x in ast.walk(lp))]
                                if isinstance(a_, ast.Name) and lps and isinstance(lps[-1].target, ast.Tuple):
                                    names_ = [norm(x) for x in lps[-1].target.elts]
                                    if a_.id in names_:
                                        it_ = lps[-1].iter
                                        if isinstance(it_, ast.Name):
                                            qc = P.resolve_name(g_.module, it_.id)
                                            it_ = P.constants.get(qc, it_)
                                        if isinstance(it_, (ast.Tuple, ast.List)):
                                            cand = [norm(r_.elts[names_.index(a_.id)]) for r_ in it_.elts if isinstance(r_, (ast.Tuple, ast.List))]
                                table += [t for t in cand if (P.resolve_name(f.module, t) or "").startswith("ext:geff.validate")]
                if table:
                    cn = "/".join(table)
                    n += len(table) - 1
                elif not (q.startswith("ext:geff.validate") and (cn.startswith("validate_") or cn.startswith("has_"))):
                    continue
                n += 1
                okv = norm(s.targets[0].elts[0])
                nxt = body[i + 1] if i + 1 < len(body) else None
                tested = isinstance(nxt, ast.If) and norm(nxt.test) == f"not {okv}"
                fail_body = nxt.body if tested else None
                if not tested and isinstance(nxt, ast.If) and norm(nxt.test) == okv and len(nxt.body) == 1 and isinstance(nxt.body[0], (ast.Return, ast.Continue)) and not nxt.orelse:
                    # `if ok: return`  - the failing case is what follows
                    tested, fail_body = True, body[i + 2:]
                elif not tested and isinstance(nxt, ast.If) and norm(nxt.test) == okv and nxt.orelse:
                    tested, fail_body = True, nxt.orelse
                label = f"{f.short}: verdict of {cn} is tested right after the call"
                if not tested:
                    R.fail("R12.2", f, s, label, f"the `{okv}` returned by {cn} is never tested: the malformed source is imported")
                    continue
                fb = ast.Module(fail_body, [])
                raises = any(isinstance(x, ast.Raise) and "ValueError" in norm(x) for x in ast.walk(fb))
                drops = any(isinstance(x, ast.Delete) for x in ast.walk(fb)) and any(isinstance(x, ast.Call) and call_name(x) == "warn" for x in ast.walk(fb))
                optional = all(t_ in ("validate_tracklets", "validate_lineages") for t_ in (table or [cn]))
                good = drops if optional else raises
                R.check(good, "R12.2", f, nxt, f"{f.short}: a failing {cn} " + ("drops the optional property with a warning" if optional else "raises ValueError"),
                        "the failing branch neither raises ValueError nor removes the property", via="error-discipline")

        visit(f.node.body)
    R.floor("R12.2", "validator verdicts", n, 7)
    # ---- R12.3 / R12.4 / R12.5
    ls = P.class_named("CSVTracksBuilder").methods["load_source"]
    cfg = build_cfg(ls.node)
    uniq = [x for x in stmt_node(cfg, ls, lambda a: isinstance(a, ast.If) and "is_unique" in norm(a.test))]
    ens = [x for x in stmt_node(cfg, ls, lambda a: contains_call(a, "_ensure_integer_ids"))]
    R.check(len(uniq) == 1 and len(ens) == 1, "R12.3", ls, ls.node, "load_source checks uniqueness and renumbers ids", f"{len(uniq)} / {len(ens)}", via="syntax")
    if uniq and ens:
        raises = any(isinstance(x, ast.Raise) and "ValueError" in norm(x) for x in uniq[0].ast.body)
        on_raw = "df['id']" in norm(uniq[0].ast.test) or 'df["id"]' in norm(uniq[0].ast.test)
        R.check(raises and on_raw, "R12.3", ls, uniq[0].ast, "duplicate ids in the source column raise ValueError", norm(uniq[0].ast.test)[:80], via="syntax")
        R.check(cfg.dominates(uniq[0].id, ens[0].id) and not cfg.reachable(ens[0].id, uniq[0].id), "R12.3", ls, ens[0].ast,
                "the uniqueness check dominates the renumbering of non-integer ids",
                "ids are renumbered before duplicates are rejected: duplicate ids can become distinct integers and slip through", via="cfg-dominance")
    ei = P.func_named("_ensure_integer_ids")
    from ..resolve import Resolver as _Rs

    def maps_in(fn, bind, depth=0):
        """(.map call, column text, mapping text, holder) in fn and in the module helpers it hands columns / mappings to"""
        out = []
        rs = _Rs(P, fn)

        def txt(e):
            t = rs.text(e)
            for k, v in bind.items():
                t = t.replace(k, v) if t == k else t
            return bind.get(norm(e), t)

        for c in ast.walk(fn.node):
            if isinstance(c, ast.Call) and call_name(c) == "map" and c.args and isinstance(c.func, ast.Attribute):
                out.append((c, txt(c.func.value), txt(c.args[0]), fn))
            if depth < 2 and isinstance(c, ast.Call) and isinstance(c.func, ast.Name):
                h = P.functions.get(P.resolve_name(fn.module, c.func.id) or "")
                if h is not None and h is not fn and ".import_export." in h.qname:
                    b2 = {p_: txt(a_) for p_, a_ in zip(h.params, c.args, strict=False)}
                    b2.update({k.arg: txt(k.value) for k in c.keywords if k.arg})
                    out += maps_in(h, b2, depth + 1)
        return out

    maps = maps_in(ei, {})
    idm = [m_ for m_ in maps if "parent_id" not in m_[1] and "id" in m_[1]]
    pm = [m_ for m_ in maps if "parent_id" in m_[1]]
    if not idm or not pm:
        R.undecided("R12.4", ei, ei.node, "id and parent_id are renumbered through the same mapping object", f"column maps not recognised: {[(m_[1], m_[2]) for m_ in maps]}")
    else:
        R.check(idm[0][2] == pm[0][2], "R12.4", ei, ei.node, "id and parent_id are renumbered through the same mapping object",
                f"id column mapped through `{idm[0][2][:60]}`, parent column through `{pm[0][2][:60]}`", via="dataflow")
        mtxt = idm[0][2]
        one2one = ("unique()" in mtxt or "unique()" in norm(ei.node)) and ("enumerate(" in mtxt or ("zip(" in mtxt and "range(" in mtxt))
        if one2one:
            R.ok("R12.4", ei, idm[0][0], "the mapping numbers the distinct source ids (one new id per distinct value)", mtxt[:100], via="syntax")
        else:
            R.undecided("R12.4", ei, idm[0][0], "the mapping numbers the distinct source ids (one new id per distinct value)", f"mapping `{mtxt[:80]}` not recognised")
    # R12.5: in the function that maps the parent column, a ValueError is raised under a test derived from the mapped result
    guarded = False
    for c_, col, mp_, holder in pm:
        mapped_names = {t.id for s_ in ast.walk(holder.node) if isinstance(s_, ast.Assign) and any(x is c_ for x in ast.walk(s_.value)) for t in s_.targets if isinstance(t, ast.Name)}
        for r in [x for x in ast.walk(holder.node) if isinstance(x, ast.Raise) and "ValueError" in norm(x)]:
            for i in [i for i in ast.walk(holder.node) if isinstance(i, ast.If) and r in i.body]:
                frontier, seen = {x.id for x in ast.walk(i.test) if isinstance(x, ast.Name)}, set()
                while frontier:
                    v = frontier.pop()
                    seen.add(v)
                    if v in mapped_names:
                        guarded = True
                    for s_ in ast.walk(holder.node):
                        if isinstance(s_, ast.Assign) and any(isinstance(t, ast.Name) and t.id == v for t in s_.targets):
                            if any(x is c_ for x in ast.walk(s_.value)):
                                guarded = True
                            frontier |= {x.id for x in ast.walk(s_.value) if isinstance(x, ast.Name)} - seen
                if any(x is c_ for x in ast.walk(i.test)):
                    guarded = True
    R.check(guarded, "R12.5", ei, pm[0][0] if pm else ei.node,
            "_ensure_integer_ids rejects parents that are not ids (mapping a column through a dict turns unknown values into 'no parent')",
            "`parent_id.map(id_mapping)` turns a parent that matches no id into NaN, which is the 'root' encoding: the link is silently dropped "
            "instead of the source being rejected", via="lossy-normalisation")
    # ---- R12.6 renaming into a fresh container
    n = 0
    for f in (ls, P.func_named("import_graph_from_geff")):
        for lp in [x for x in ast.walk(f.node) if isinstance(x, ast.For) and isinstance(x.iter, ast.Call) and call_name(x.iter) == "flatten_name_map"]:
            n += 1
            for s in ast.walk(lp):
                if isinstance(s, ast.Assign) and isinstance(s.targets[0], ast.Subscript):
                    dst = norm(s.targets[0].value)
                    srcs = {norm(x.value) for x in ast.walk(s.value) if isinstance(x, ast.Subscript) and isinstance(x.value, ast.Name)}
                    R.check(dst not in srcs, "R12.6", f, s, f"{f.short}: renamed data is written into `{dst}`, read from {sorted(srcs)}",
                            f"`{norm(s)[:90]}` writes into the container it reads from: a later rename can read an already overwritten column", via="fresh-destination")
                    created = [a for a in ast.walk(f.node) if isinstance(a, ast.Assign) and norm(a.targets[0]) == dst and isinstance(a.value, ast.Dict) and not a.value.keys]
                    R.check(bool(created), "R12.6", f, s, f"{f.short}: `{dst}` starts empty", "", via="fresh-destination")
            first_wins = any(isinstance(i, ast.If) and "not in" in norm(i.test) for i in ast.walk(lp))
            R.check(first_wins, "R12.6", f, lp, f"{f.short}: a target key is filled once", "", via="syntax")
    R.floor("R12.6", "renaming loops", n, 1)
    # ---- R12.7 ids read from a source are tested with `is None` / isna / == sentinel, never by truthiness (0 is a legal id)
    source_id_truthiness(P, R, "R12.7")
    # ---- R12.8 a structural validator can be skipped only for a reason about its own input
    validators_unavoidable(P, R, "R12.8")
    # ---- R12.9 the builder's header is read before build()
    builder_protocol(P, R, "R12.9")
    # ---- R12.10 combining columns of different dtypes promotes, never casts to the first column's dtype
    combination_promotes(P, R, "R12.10")
    # ---- R12.11 (= R14.8) the missing-value mask of a source property travels with its values
    from .c14 import missing_mask_passthrough

    missing_mask_passthrough(P, R, "R12.11")
    # ---- R12.12 the names offered for mapping are the source's own
    header_names_are_the_tables(P, R, "R12.12")
    # ---- R12.13 integer ids are imported as they are
    integer_ids_are_kept(P, R, "R12.13")


def source_id_truthiness(P: Program, R: Report, rule: str) -> None:
    n = 0
    for fn in P.functions.values():
        if fn.parent is not None or ".import_export." not in fn.qname:
            continue
        for comp in ast.walk(fn.node):
            gens = []
            if isinstance(comp, (ast.ListComp, ast.SetComp, ast.GeneratorExp, ast.DictComp)):
                gens = [(g.target, g.iter, g.ifs, comp) for g in comp.generators]
            elif isinstance(comp, ast.For):
                tests = [x.test for st in comp.body for x in ast.walk(st) if isinstance(x, (ast.If, ast.IfExp))]
                gens = [(comp.target, comp.iter, tests, comp)]
            for target, it, ifs, site in gens:
                # id-valued loop variables: bound from a collection whose name says it holds ids
                srcs = it.args if isinstance(it, ast.Call) and call_name(it) in ("zip", "enumerate") else [it]
                tg = target.elts if isinstance(target, ast.Tuple) else [target]
                if isinstance(it, ast.Call) and call_name(it) == "enumerate":
                    srcs, tg = srcs[:1], tg[1:]
                ids = set()
                for t_, s_ in zip(tg, srcs, strict=False):
                    nm = norm(s_)
                    base = nm.split("[")[0].split(".")[-1]
                    if isinstance(t_, ast.Name) and (base.endswith("_ids") or base in ("ids", "node_ids", "parent_ids")):
                        ids.add(t_.id)
                if not ids:
                    continue
                n += 1
                bad = None
                for t in ifs:
                    leaves = [t]
                    while leaves:
                        x = leaves.pop()
                        if isinstance(x, ast.BoolOp):
                            leaves.extend(x.values)
                        elif isinstance(x, ast.UnaryOp) and isinstance(x.op, ast.Not):
                            leaves.append(x.operand)
                        elif isinstance(x, ast.Name) and x.id in ids:
                            bad = x
                        elif isinstance(x, ast.Call) and norm(x.func) == "bool" and x.args and isinstance(x.args[0], ast.Name) and x.args[0].id in ids:
                            bad = x
                R.check(bad is None, rule, fn, bad or site, f"{fn.short}: ids read from the source ({', '.join(sorted(ids))}) are never tested by truthiness",
                        f"`{norm(bad) if bad is not None else ''}` is used as a condition: id 0 counts as 'no id', so links from / to node 0 are dropped on import")
    R.floor(rule, "loops over source id columns in the import/export package", n, 1)


def validators_unavoidable(P: Program, R: Report, rule: str) -> None:
    f = P.func_named("validate_in_memory_geff")
    parents = {}
    for p_ in ast.walk(f.node):
        for ch in ast.iter_child_nodes(p_):
            parents[ch] = p_

    def guards_of(_f, stmt):
        """tests of the enclosing if / while statements (the structural reason the statement runs)"""
        out, cur = [], stmt
        while cur in parents:
            par = parents[cur]
            if isinstance(par, (ast.If, ast.While)) and cur is not par.test:
                out.append(norm(par.test))
            cur = par
        return out

    cfg = build_cfg(f.node)
    sites = []
    for s in ast.walk(f.node):
        if isinstance(s, ast.Assign) and isinstance(s.value, ast.Call) and (call_name(s.value) or "").startswith("validate_"):
            # structural = the failing verdict raises
            body = f.node.body
            sites.append(s)
    if len(sites) < 4:
        # table-driven form: for check, args, msg in (<static rows>): ok, detail = check(*args); if not ok: raise
        loops = [lp for lp in f.node.body if isinstance(lp, ast.For) and any(isinstance(x, ast.Raise) for x in ast.walk(lp))
                 and any(isinstance(x, ast.Call) and isinstance(x.func, ast.Name) and x.func.id in {v.id for v in ast.walk(lp.target) if isinstance(v, ast.Name)} for x in ast.walk(lp))]
        if not loops:
            R.undecided(rule, f, f.node, "structural validators run on every path to a normal return", f"only {len(sites)} direct validator calls and no table-driven loop recognised")
            return
        entry = next(n.id for n in cfg.nodes.values() if n.kind == "entry")
        exits = [n.id for n in cfg.nodes.values() if n.kind == "exit"]
        for lp in loops:
            ln = cfg.node_of(lp)
            skips = [x for x in ast.walk(lp) if isinstance(x, (ast.Continue, ast.Break, ast.Return))]
            avoid = ln is None or any(cfg.reachable(entry, e, avoiding={ln}) for e in exits)
            R.check(not avoid and not skips, rule, f, lp, "the table of structural validators is run completely on every path to a normal return",
                    "the validator loop can be bypassed or left early: a malformed source is imported instead of rejected", via="cfg-must-pass")
        return
    entry = next(n.id for n in cfg.nodes.values() if n.kind == "entry")
    exits = [n.id for n in cfg.nodes.values() if n.kind == "exit"]
    rets = [s for s in ast.walk(f.node) if isinstance(s, ast.Return)]

    def own_input_only(names_in_guard: set[str], call: ast.Call) -> bool:
        argn = {x.id for a in call.args for x in ast.walk(a) if isinstance(x, ast.Name)}
        # locals defined from the arguments' containers count as the validator's own input
        return bool(names_in_guard) and names_in_guard <= argn | {"len", "np"}

    n = 0
    for s in sites:
        call = s.value
        structural = False
        nxt = None
        parent_body = None
        for p in ast.walk(f.node):
            for fld in ("body", "orelse"):
                b = getattr(p, fld, None)
                if isinstance(b, list) and s in b:
                    parent_body = b
        if parent_body is not None:
            i = parent_body.index(s)
            nxt = parent_body[i + 1] if i + 1 < len(parent_body) else None
            structural = isinstance(nxt, ast.If) and any(isinstance(x, ast.Raise) for x in ast.walk(nxt))
        if not structural:
            continue
        n += 1
        node = cfg.node_of(s)
        if node is None:
            R.undecided(rule, f, s, f"{call_name(call)} is on every path to a normal return", "call not found in the flow graph")
            continue
        avoid = any(cfg.reachable(entry, e, avoiding={node}) for e in exits)
        if not avoid:
            R.ok(rule, f, s, f"validate_in_memory_geff cannot return normally without running {call_name(call)}", via="cfg-must-pass")
            continue
        # which exits avoid it, and why
        reasons, ok = [], True
        for r in rets:
            rn = cfg.node_of(r)
            if rn is not None and cfg.reachable(entry, rn, avoiding={node}):
                gs = guards_of(f, r)
                names = {x.id for g in gs for x in ast.walk(ast.parse(g, mode="eval")) if isinstance(x, ast.Name)} if gs else set()
                reasons.append(f"return at line {r.lineno} under {gs}")
                ok = ok and own_input_only(names, call)
        gs = guards_of(f, s)
        if gs:
            names = {x.id for g in gs for x in ast.walk(ast.parse(g, mode="eval")) if isinstance(x, ast.Name)}
            reasons.append(f"the call itself is under {gs}")
            ok = ok and own_input_only(names, call)
        R.check(ok, rule, f, s, f"{call_name(call)} is skipped only for a reason about its own input",
                f"a normal return avoids the structural validator {call_name(call)}({', '.join(norm(a) for a in call.args)}): {'; '.join(reasons)} - "
                "a malformed source (e.g. duplicate ids) is then imported instead of rejected", via="cfg-must-pass")
    R.floor(rule, "structural validator calls", n, 4)


def builder_protocol(P: Program, R: Report, rule: str) -> None:
    """A builder validates a name map against the columns / properties it has SEEN: `build()` on a builder whose header
    was never read has nothing to compare the map with (the 'maps to non-existent properties' check is guarded by
    `if importable_node_props:`), so a table that lacks a mapped column is imported partially instead of refused.
    Typestate: every path from the creation of a *TracksBuilder to its build() passes read_header() or prepare()."""
    n = 0
    tb = P.class_named("TracksBuilder")
    prep = tb.methods.get("prepare") if tb else None
    prep_reads = prep is not None and any(isinstance(c, ast.Call) and call_name(c) == "read_header" for c in ast.walk(prep.node))
    for fn in P.functions.values():
        if fn.parent is not None or ".import_export." not in fn.qname:
            continue
        builders = {t.id for s_ in ast.walk(fn.node) if isinstance(s_, ast.Assign) and isinstance(s_.value, ast.Call) and (call_name(s_.value) or "").endswith("TracksBuilder")
                    for t in s_.targets if isinstance(t, ast.Name)}
        if not builders:
            continue
        cfg = build_cfg(fn.node)
        entry = next(x.id for x in cfg.nodes.values() if x.kind == "entry")
        for b in builders:
            barrier, builds = set(), []
            for node in cfg.stmts():
                from ..cfg import header_expr

                h = header_expr(node.ast)
                if h is None:
                    continue
                for c in ast.walk(h):
                    if isinstance(c, ast.Call) and isinstance(c.func, ast.Attribute) and norm(c.func.value) == b:
                        if c.func.attr == "read_header" or (c.func.attr == "prepare" and prep_reads):
                            barrier.add(node.id)
                        if c.func.attr == "build":
                            builds.append((node.id, c))
            for nid, c in builds:
                n += 1
                R.check(not cfg.reachable(entry, nid, avoiding=barrier), rule, fn, c, f"{fn.short}: `{b}.build()` is reached only after the source's header was read",
                        f"a path reaches `{norm(c)[:50]}` without `{b}.read_header()` / `{b}.prepare()`: the name map is then not checked against the "
                        "columns that exist, and a source lacking a mapped column is imported instead of rejected", via="cfg-must-pass")
    R.floor(rule, "builder.build() call sites in import entry points", n, 2)


def combination_promotes(P: Program, R: Report, rule: str) -> None:
    """Several source columns are combined into one property array.  The columns may have different dtypes (an integer
    frame-like column next to a float one).  numpy's stacking functions promote to a common dtype; an array allocated
    with the dtype of ONE part and then filled by assignment casts the other parts silently (floats are truncated)."""
    STACK = {"column_stack", "stack", "vstack", "hstack", "concatenate", "array", "asarray", "dstack", "transpose"}
    ALLOC = {"empty", "zeros", "ones", "full", "empty_like", "zeros_like", "ones_like", "full_like", "ndarray"}
    n = 0
    for f in P.functions.values():
        if ".import_export." not in f.qname:
            continue
        for d in ast.walk(f.node):
            if not isinstance(d, ast.Dict):
                continue
            vals = [v for k, v in zip(d.keys, d.values, strict=True) if isinstance(k, ast.Constant) and k.value == "values" and isinstance(v, ast.Name)]
            for v in vals:
                defs = [s for s in ast.walk(f.node) if isinstance(s, ast.Assign) and any(isinstance(t, ast.Name) and t.id == v.id for t in s.targets)]
                for s in defs:
                    c = s.value
                    if not isinstance(c, ast.Call):
                        continue
                    nm = call_name(c)
                    label = f"{f.short}: columns combined into `{v.id}` keep their values (common dtype)"
                    if nm in STACK and not any(k.arg == "dtype" for k in c.keywords):
                        n += 1
                        R.ok(rule, f, s, label, f"`{nm}` promotes to a common dtype", via="syntax")
                    elif nm in ALLOC:
                        n += 1
                        filled = [a for a in ast.walk(f.node) if isinstance(a, ast.Assign) and isinstance(a.targets[0], ast.Subscript) and norm(a.targets[0].value) == v.id]
                        dt = next((k.value for k in c.keywords if k.arg == "dtype"), None)
                        dtxt = norm(dt) if dt is not None else ("like " + norm(c.args[0]) if nm.endswith("_like") and c.args else "float64 default")
                        if dt is not None and any(w in dtxt for w in ("result_type", "promote_types", "find_common_type", "object", "float64", "np.float_", "common")):
                            R.ok(rule, f, s, label, f"allocated with `{dtxt}`", via="syntax")
                        elif dt is None and not nm.endswith("_like"):
                            R.ok(rule, f, s, label, "allocated with numpy's float64 default", via="syntax")
                        elif filled and (dtxt.endswith(".dtype") or dtxt.startswith("like ") or dtxt in ("int", "np.int64", "np.int32", "'int'", "np.intp", "np.uint64")):
                            R.fail(rule, f, s, label, f"`{v.id}` is allocated with dtype `{dtxt}` and then filled by `{norm(filled[0])[:50]}`: a column of another dtype is "
                                   "cast silently (a float column next to an integer one is truncated) - the imported values no longer equal the source")
                        else:
                            R.undecided(rule, f, s, label, f"allocation with dtype `{dtxt}`")
                    elif nm in STACK:
                        n += 1
                        dt = next(k.value for k in c.keywords if k.arg == "dtype")
                        R.undecided(rule, f, s, label, f"`{nm}` with an explicit dtype `{norm(dt)}`")
    if n == 0:
        R.undecided(rule, "import_export", "", "combined property arrays keep the values of every column", "no combination site recognised")


def header_names_are_the_tables(P: Program, R: Report, rule: str) -> None:
    """`read_header` offers the source's column / property names for mapping, and validation compares the name map with
    that list; `load_source` then looks the mapped names up in the source itself.  The offered list is the source's own
    names: a per-name normalisation (strip, lower, ...) applied on one side only makes validation accept a name the
    loader will not find (the column is skipped silently) and reject the exact name."""
    STR_METHODS = {"strip", "lstrip", "rstrip", "lower", "upper", "casefold", "title", "replace", "capitalize"}
    n = 0
    for ci in P.subclasses("TracksBuilder"):
        rh = ci.methods.get("read_header")
        if rh is None:
            continue
        for st in ast.walk(rh.node):
            if not (isinstance(st, ast.Assign) and any(isinstance(t, ast.Attribute) and norm(t.value) == "self" and t.attr.startswith("importable_") for t in st.targets)):
                continue
            v = st.value
            if isinstance(v, (ast.List, ast.Tuple)) and not v.elts:
                continue
            n += 1
            label = f"{rh.short}: the names offered for mapping are the source's own names"
            transformed = [c for c in ast.walk(v) if isinstance(c, ast.Call) and isinstance(c.func, ast.Attribute) and c.func.attr in STR_METHODS] + [
                a for a in ast.walk(v) if isinstance(a, ast.Attribute) and a.attr == "str"]
            if transformed:
                R.fail(rule, rh, st, label, f"`{norm(transformed[0])[:50]}` rewrites the names: validation then checks the name map against names that load_source will not "
                       "find in the table - a mapped column is skipped silently instead of the table being rejected")
            elif isinstance(v, (ast.ListComp, ast.GeneratorExp)) and not (isinstance(v.elt, ast.Name)):
                R.undecided(rule, rh, st, label, f"names are computed: `{norm(v)[:60]}`")
            else:
                R.ok(rule, rh, st, label, f"`{norm(v)[:60]}`", via="provenance")
    if n == 0:
        R.undecided(rule, "TracksBuilder subclasses", "", "the names offered for mapping are the source's own names", "no read_header assigning importable_* found")


def integer_ids_are_kept(P: Program, R: Report, rule: str) -> None:
    """The nodes of an imported table are exactly the source ids; only ids that are not integers are renumbered.
    The statement that rewrites the id column is therefore guarded by a test on the id column alone: a guard that also
    looks at another column (a parent column that pandas read as float because roots are blank) renumbers perfectly good
    integer ids in row order - a no-op for ids 1..N, a silent renaming of every node otherwise."""
    from ..resolve import Resolver
    from .util import guards_of

    fns = [f for f in P.functions.values() if ".import_export." in f.qname and f.parent is None]
    n = 0
    for f in fns:
        rs = None
        for st in ast.walk(f.node):
            if not (isinstance(st, ast.Assign) and isinstance(st.targets[0], ast.Subscript) and norm(st.targets[0].slice).strip("'\"") == "id"
                    and isinstance(st.value, ast.Call) and isinstance(st.value.func, ast.Attribute) and st.value.func.attr in ("map", "replace", "apply")):
                continue
            n += 1
            rs = rs or Resolver(P, f)
            label = f"{f.short}: the id column is renumbered only because of what the id column holds"
            gs = guards_of(f, st)
            cols = set()
            for gtxt in gs:
                try:
                    ge = rs.expand(ast.parse(gtxt, mode="eval").body)
                except SyntaxError:
                    continue
                for x in ast.walk(ge):
                    if isinstance(x, ast.Subscript) and isinstance(x.slice, ast.Constant) and isinstance(x.slice.value, str):
                        cols.add(x.slice.value)
            if not gs:
                R.fail(rule, f, st, label, f"`{norm(st)[:60]}` runs unconditionally: integer ids are renumbered too")
            elif cols == {"id"}:
                R.ok(rule, f, st, label, f"guard(s) {gs} look at the id column only", via="dominating-guard")
            elif cols - {"id"}:
                R.fail(rule, f, st, label, f"the renumbering also depends on column(s) {sorted(cols - {'id'})}: a table with integer ids is renumbered 1..N in row order "
                       "whenever that other column is not integer-typed (blank root cells make pandas read parent ids as float) - node ids and links are renamed")
            else:
                R.undecided(rule, f, st, label, f"guards {gs} not recognised")
    if n == 0:
        R.undecided(rule, "import_export", "", "the id column is renumbered only when its ids are not integers", "renumbering statement not found")
