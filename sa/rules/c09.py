"""C09 - edge IoU equals the true overlap of the endpoint masks (structural part).

R09.1 triggers: AddEdge and UpdateNodeSeg are handled by the edge annotator
R09.2 mutate, then notify
R09.3 frame / edge-time agreement: every pair of frames handed to the pairwise kernel is
      (frame at the source's time, frame at the target's time) for every edge whose value
      is then written - on the bulk and on the incremental path
R09.4 the value written to an edge is the kernel entry matched on BOTH endpoint labels
R09.5 update() leaves early only for accepted reasons
"""

from __future__ import annotations

import ast

from ..actions import ActionAnalysis
from ..model import AnalysisError, FuncInfo, Program, call_name, norm
from ..report import Report
from .annot import calls_to, update_guards
from .triggers import notify_last, trigger_rules


def single_def(f: FuncInfo, name: str):
    defs = [s for s in ast.walk(f.node) if isinstance(s, ast.Assign) and len(s.targets) == 1 and isinstance(s.targets[0], ast.Name) and s.targets[0].id == name]
    return defs[0].value if len(defs) == 1 else None


def frame_index(f: FuncInfo, e: ast.expr, depth: int = 0):
    """The time-index expression of a frame value (follows locals, np.where masks)."""
    if depth > 5:
        return None
    if isinstance(e, ast.Subscript):
        base = norm(e.value)
        if base.endswith("segmentation") or base in ("seg",) or (isinstance(e.value, ast.Name) and "segmentation" in norm(single_def(f, e.value.id) or ast.Constant(""))):
            return e.slice
    if isinstance(e, ast.Name):
        d = single_def(f, e.id)
        return frame_index(f, d, depth + 1) if d is not None else None
    if isinstance(e, ast.Call) and call_name(e) == "where" and e.args and isinstance(e.args[0], ast.Compare):
        return frame_index(f, e.args[0].left, depth + 1)
    return None


def time_role(f: FuncInfo, idx: ast.expr, src: str, tgt: str, depth: int = 0):
    """'source' / 'target' if the index expression is the time of that endpoint."""
    if idx is None or depth > 4:
        return None
    txt = norm(idx)
    if txt.endswith(f"get_time({src})"):
        return "source"
    if txt.endswith(f"get_time({tgt})"):
        return "target"
    if isinstance(idx, ast.Name):
        d = single_def(f, idx.id)
        return time_role(f, d, src, tgt, depth + 1) if d is not None else None
    return None


def edge_endpoints(f: FuncInfo, loop: ast.For):
    """names of (source, target) unpacked from the loop's edge variable"""
    if isinstance(loop.target, ast.Tuple) and len(loop.target.elts) == 2 and all(isinstance(x, ast.Name) for x in loop.target.elts):
        return loop.target.elts[0].id, loop.target.elts[1].id
    if isinstance(loop.target, ast.Name):
        for s in loop.body:
            if isinstance(s, ast.Assign) and isinstance(s.targets[0], ast.Tuple) and isinstance(s.value, ast.Name) and s.value.id == loop.target.id:
                a, b = s.targets[0].elts
                return a.id, b.id
    return None


def run(P: Program, R: Report, tier: str) -> None:
    R.explanation = (
        "Trigger matrix for the edge annotator; ordering of mutation and notification; a "
        "provenance analysis of the two frame indices at every call of the pairwise IoU kernel "
        "against the endpoints of the edges whose value is written; matching discipline of the "
        "kernel's (label, label, value) entries."
    )
    R.decides += [
        "edge-adding and mask-changing edits trigger the IoU update after the change",
        "on both the bulk and the incremental path the kernel is given the source's and the target's own frames for every edge it writes, "
        "and an edge receives the entry matched on both of its labels",
    ]
    R.decides += ['enabling with recomputation computes every requested key; the IoU write kernel reaches its catch-all loop on every path; memo discipline']
    R.not_decided += ["the value of the ratio itself"]
    A = ActionAnalysis(P)
    ann = P.class_named("EdgeAnnotator")
    n = trigger_rules(P, R, A, "R09.1", only_annotators={ann.name})
    R.floor("R09.1", "matrix cells", n, 3)
    notify_last(P, R, A, "R09.2")

    kernel_name = "_compute_ious"
    helper = None
    for m in ann.methods.values():
        if calls_to(m, kernel_name) and len(m.params) >= 4 and m.name not in ("update", "compute"):
            helper = m
    n_sites = 0
    for m in ann.methods.values():
        # (a) direct kernel calls with single-edge witness
        for c in calls_to(m, kernel_name):
            if helper is not None and m is helper:
                continue
            n_sites += 1
            loops = [lp for lp in ast.walk(m.node) if isinstance(lp, ast.For) and c in list(ast.walk(lp))]
            ends = edge_endpoints(m, loops[-1]) if loops else None
            if ends is None or len(c.args) != 2:
                R.undecided("R09.3", m, c, f"{m.short}: kernel call is tied to one edge", "cannot relate the frames to an edge's endpoints: not decided")
                continue
            r1 = time_role(m, frame_index(m, c.args[0]), *ends)
            r2 = time_role(m, frame_index(m, c.args[1]), *ends)
            cst = f"{m.short}: kernel frames are the frames at time(source) and time(target) of the edge being updated"
            if r1 == "source" and r2 == "target":
                R.ok("R09.3", m, c, cst, via="provenance")
            elif {r1, r2} == {"source", "target"}:
                R.fail("R09.3", m, c, cst, "the two frames are swapped relative to the edge's endpoints")
            else:
                R.undecided("R09.3", m, c, cst, f"first frame indexed by {norm(frame_index(m, c.args[0]) or ast.Constant('?'))}, second by "
                            f"{norm(frame_index(m, c.args[1]) or ast.Constant('?'))}: provenance not recognised")
            # masked to the endpoint labels -> the single entry is the edge's own
            masked = all("np.where" in norm(single_def(m, a.id) or ast.Constant("")) for a in c.args if isinstance(a, ast.Name))
            if masked:
                R.ok("R09.4", m, c, f"{m.short}: frames are masked to the two endpoint labels, so the only entry is the edge's own", via="provenance")
            else:
                R.undecided("R09.4", m, c, f"{m.short}: frames are masked to the two endpoint labels, so the only entry is the edge's own", "masking not recognised")
        # (b) calls of the helper with a grouped edge list
        if helper is not None:
            for c in calls_to(m, helper.name):
                n_sites += 1
                if len(c.args) != 3:
                    R.undecided("R09.3", m, c, f"{m.short}: helper call shape", "not recognised")
                    continue
                i1, i2 = frame_index(m, c.args[1]), frame_index(m, c.args[2])
                loops = [lp for lp in ast.walk(m.node) if isinstance(lp, ast.For) and c in list(ast.walk(lp))]
                ok, why = False, "the edge set is not grouped by the times of both endpoints"
                if loops:
                    lp = loops[-1]
                    # for (ta, tb), edges in groups.items():
                    key_t = lp.target.elts[0] if isinstance(lp.target, ast.Tuple) and len(lp.target.elts) == 2 else None
                    if isinstance(key_t, ast.Name):
                        # for frames, edges in groups.items():  ta, tb = frames
                        un = [s_ for s_ in lp.body if isinstance(s_, ast.Assign) and isinstance(s_.targets[0], ast.Tuple) and norm(s_.value) == key_t.id and len(s_.targets[0].elts) == 2]
                        key_t = un[0].targets[0] if un else None
                    if isinstance(key_t, ast.Tuple) and isinstance(lp.iter, ast.Call) and call_name(lp.iter) == "items":
                        ta, tb = [norm(x) for x in key_t.elts]
                        edges_var = norm(lp.target.elts[1])
                        groups = norm(lp.iter.func.value)
                        # groups[(get_time(u), get_time(v))].append((u, v))
                        fills = [x for x in ast.walk(m.node) if isinstance(x, ast.Call) and call_name(x) == "append" and (
                            (isinstance(x.func.value, ast.Subscript) and norm(x.func.value.value) == groups)
                            or (isinstance(x.func.value, ast.Call) and call_name(x.func.value) == "setdefault" and norm(x.func.value.func.value) == groups))]
                        good_fill = False
                        for fl in fills:
                            key = fl.func.value.slice if isinstance(fl.func.value, ast.Subscript) else fl.func.value.args[0]
                            if isinstance(key, ast.Name):
                                key = single_def(m, key.id) or key
                            item = fl.args[0]
                            if isinstance(key, ast.Tuple) and len(key.elts) == 2 and isinstance(item, ast.Tuple) and len(item.elts) == 2:
                                u, v = norm(item.elts[0]), norm(item.elts[1])
                                if norm(key.elts[0]).endswith(f"get_time({u})") and norm(key.elts[1]).endswith(f"get_time({v})"):
                                    good_fill = True
                            # ta, tb = (get_time(n) for n in edge);  groups[(ta, tb)].append(edge)
                            if isinstance(key, ast.Tuple) and len(key.elts) == 2 and isinstance(item, ast.Name):
                                for s_ in ast.walk(m.node):
                                    if isinstance(s_, ast.Assign) and isinstance(s_.targets[0], ast.Tuple) and [norm(x) for x in s_.targets[0].elts] == [norm(x) for x in key.elts] \
                                            and isinstance(s_.value, (ast.GeneratorExp, ast.ListComp)) and norm(s_.value.generators[0].iter) == item.id \
                                            and norm(s_.value.elt).endswith(f"get_time({norm(s_.value.generators[0].target)})"):
                                        good_fill = True
                        if good_fill and fills and norm(c.args[0]) == edges_var and i1 is not None and i2 is not None and norm(i1) == ta and norm(i2) == tb:
                            ok = True
                        else:
                            why = f"groups keyed by both endpoint times: {good_fill}; frames indexed by {norm(i1) if i1 is not None else '?'} / {norm(i2) if i2 is not None else '?'}"
                    else:
                        why = (f"edges are `{norm(c.args[0])}` and the frames are indexed by `{norm(i1) if i1 is not None else '?'}` / `{norm(i2) if i2 is not None else '?'}`: "
                               "nothing ties the second frame to the time of each edge's target (a frame-skipping edge gets 0)")
                cst = f"{m.short}: bulk kernel call receives edges grouped by (time(source), time(target)) and exactly those frames"
                adjacent = any(isinstance(x, ast.BinOp) and isinstance(x.op, (ast.Add, ast.Sub)) and isinstance(x.right, ast.Constant) and x.right.value == 1
                               for i_ in (i1, i2) if i_ is not None for x in ast.walk(i_))
                # groups keyed by ONE endpoint's time: the edges of a group may end (or start) in different frames
                one_sided = False
                if loops and isinstance(loops[-1].iter, ast.Call) and call_name(loops[-1].iter) == "items":
                    groups_ = norm(loops[-1].iter.func.value)
                    for fl in [x for x in ast.walk(m.node) if isinstance(x, ast.Call) and call_name(x) == "append"]:
                        recv = fl.func.value
                        key_ = recv.slice if isinstance(recv, ast.Subscript) and norm(recv.value) == groups_ else (
                            recv.args[0] if isinstance(recv, ast.Call) and call_name(recv) == "setdefault" and norm(recv.func.value) == groups_ and recv.args else None)
                        if key_ is not None:
                            if isinstance(key_, ast.Name):
                                key_ = single_def(m, key_.id) or key_
                            if not isinstance(key_, ast.Tuple) and norm(key_).count("get_time(") == 1:
                                one_sided = True
                if ok:
                    R.ok("R09.3", m, c, cst, via="provenance")
                elif one_sided:
                    R.fail("R09.3", m, c, cst, "the edges are grouped by the time of ONE endpoint only: edges of one group that end in different frames are all "
                           "compared against one frame (the others get IoU 0)")
                elif adjacent or not (loops and isinstance(loops[-1].iter, ast.Call) and call_name(loops[-1].iter) == "items"):
                    R.fail("R09.3", m, c, cst, why)
                else:
                    R.undecided("R09.3", m, c, cst, why)
    R.floor("R09.3", "kernel call sites", n_sites, 1)
    # no frame index is computed as (a time) +- 1: both endpoint times are looked up, never assumed adjacent
    for m in ann.methods.values():
        timev = {t.id for s_ in ast.walk(m.node) if isinstance(s_, ast.Assign) and "get_time(" in norm(s_.value) for t in s_.targets if isinstance(t, ast.Name)}
        timev |= {lp_.target.id for lp_ in ast.walk(m.node) if isinstance(lp_, ast.For) and isinstance(lp_.target, ast.Name) and "range(" in norm(lp_.iter) and "shape" in norm(lp_.iter)}
        for x in ast.walk(m.node):
            if isinstance(x, ast.BinOp) and isinstance(x.op, (ast.Add, ast.Sub)) and isinstance(x.right, ast.Constant) and x.right.value == 1 and (
                    (isinstance(x.left, ast.Name) and x.left.id in timev) or "get_time(" in norm(x.left)):
                R.fail("R09.3", m, x, f"{m.short}: the frames of an edge are the frames at its endpoints' own times",
                       f"`{norm(x)}` assumes the other endpoint lies in the adjacent frame: an edge that skips frames is compared against the wrong frame")
    # ---- R09.4 in the helper: match on both labels
    if helper is not None:
        ok = False
        for lp in ast.walk(helper.node):
            if isinstance(lp, ast.For) and isinstance(lp.target, ast.Tuple) and len(lp.target.elts) == 3:
                a, b, v = [norm(x) for x in lp.target.elts]
                body = norm(ast.Module(lp.body, []))
                edge_def = [s for s in lp.body if isinstance(s, ast.Assign) and norm(s.value) == f"({a}, {b})"]
                writes = [c for c in ast.walk(lp) if isinstance(c, ast.Call) and call_name(c) == "_set_edge_attr"]
                if edge_def and writes and all(norm(w.args[0]) == norm(edge_def[0].targets[0]) and norm(w.args[2]) == v for w in writes):
                    guarded = any(isinstance(g, ast.If) and f"{norm(edge_def[0].targets[0])} in " in norm(g.test) for g in ast.walk(lp))
                    ok = guarded
        bad_single = None
        zero = any(isinstance(c, ast.Call) and call_name(c) == "_set_edge_attr" and norm(c.args[2]) == "0" for c in ast.walk(helper.node))
        for dc in ast.walk(helper.node):
            # {(a, b): v for a, b, v in kernel(..)}  ...  table.get(edge, 0)
            if isinstance(dc, ast.DictComp) and isinstance(dc.generators[0].target, ast.Tuple) and len(dc.generators[0].target.elts) == 3:
                a, b, v = [norm(x) for x in dc.generators[0].target.elts]
                tbl = [s_.targets[0].id for s_ in ast.walk(helper.node) if isinstance(s_, ast.Assign) and s_.value is dc and isinstance(s_.targets[0], ast.Name)]
                if norm(dc.key) == f"({a}, {b})" and norm(dc.value) == v and tbl:
                    writes = [c for c in ast.walk(helper.node) if isinstance(c, ast.Call) and call_name(c) == "_set_edge_attr" and len(c.args) >= 3]
                    if writes and all(norm(w.args[2]) in (f"{tbl[0]}.get({norm(w.args[0])}, 0)", f"{tbl[0]}[{norm(w.args[0])}]") for w in writes):
                        ok = True
                        zero = zero or any(".get(" in norm(w.args[2]) and norm(w.args[2]).endswith(", 0)") for w in writes)
                elif norm(dc.key) in (a, b):
                    bad_single = dc
        cst = f"{helper.short}: an edge receives the kernel entry whose two labels are its endpoints"
        if ok:
            R.ok("R09.4", helper, helper.node, cst, via="provenance")
        elif bad_single is not None:
            R.fail("R09.4", helper, bad_single, cst, f"`{norm(bad_single)[:70]}` keys the kernel entries by ONE label: a node overlapping several nodes of the other frame gives "
                   "every one of its edges the same (last) value")
        else:
            one_sided = [g for g in ast.walk(helper.node) if isinstance(g, ast.If) and any(isinstance(c, ast.Call) and call_name(c) == "_set_edge_attr" for c in ast.walk(g))
                         and isinstance(g.test, ast.Compare) and len(g.test.ops) == 1 and isinstance(g.test.ops[0], ast.Eq) and "[" in norm(g.test) and " and " not in norm(g.test)]
            if one_sided:
                R.fail("R09.4", helper, one_sided[0], cst, f"the entry is selected by `{norm(one_sided[0].test)}` only: it is matched on one endpoint label")
            else:
                R.undecided("R09.4", helper, helper.node, cst, "selection of the value not recognised")
        if zero:
            R.ok("R09.4", helper, helper.node, f"{helper.short}: edges without an overlapping entry get 0", via="syntax")
        else:
            R.undecided("R09.4", helper, helper.node, f"{helper.short}: edges without an overlapping entry get 0", "no default write recognised")
    update_guards(P, R, ann, "R09.5")
    from .annot import compute_is_memoryless

    compute_is_memoryless(P, R, ann, "R09.6")
    # ---- R09.7 the kernel treats labels as names (no arithmetic in the image dtype)
    from .labels import labels_are_names

    ks = [f for f in P.find_funcs(kernel_name) if ".annotators." in f.qname and f.parent is None]
    if len(ks) != 1:
        raise AnalysisError(f"IoU kernel {kernel_name} of the annotators package: found {len(ks)}")
    labels_are_names(P, R, ks[0], "R09.7")
    # ---- R09.8 a query of the data model never answers from a memo that some writer forgets to drop
    from .memo import no_stale_memo

    no_stale_memo(P, R, "R09.8")
    # ---- R09.9 (= R10.6) enabling with recomputation computes every requested key, also one that was registered before
    from .c10 import enable_recomputes_requested

    enable_recomputes_requested(P, R, "R09.9")
    # ---- R09.10 the IoU write kernel writes every edge it is handed (no early exit past the catch-all loop)
    from .annot import total_write

    total_write(P, R, P.class_named("EdgeAnnotator"), "R09.10")
