"""Shared by C04 / C05: classify every structural edit a user action performs itself
(primitives constructed in its own body; nested user actions answer for themselves) and
collect the relabelling primitives available on the same path.

Classification uses the terms and the degree facts the abstract interpreter holds at the
moment of the graph operation - not source text.
"""

from __future__ import annotations

from dataclasses import dataclass, field

from ..absint import Event, parse_call_term
from ..actions import ActionAnalysis, strip
from ..model import Program
from .c03 import deg, snap_state
from .triggers import effects_of


@dataclass
class Step:
    kind: str  # join divide cut-orphan cut-division splice-cut splice-in reconnect removal-edge unknown-add unknown-cut
    action: str
    f: object
    ev: Event  # the graph mutation event
    s: str
    t: str
    relabels_before: list = field(default_factory=list)
    relabels_after: list = field(default_factory=list)
    info: dict = field(default_factory=dict)
    trail: list = field(default_factory=list)

    def label(self) -> str:
        return f"{self.kind} {strip(self.s)[:40]} -> {strip(self.t)[:40]}"


def roles(P: Program, A: ActionAnalysis) -> dict:
    r = {"edge+": set(), "edge-": set(), "node+": set(), "node-": set(), "relabel": set()}
    for c in A.primitives:
        e = effects_of(A, c)[0]
        for k in ("edge+", "edge-", "node+", "node-"):
            if k in e:
                r[k].add(c.name)
        if e == {"delegated"}:
            r["relabel"].add(c.name)
    return r


def nbrs_base(term: str):
    """'nbrs(tid, T)@e[i]' -> (base, tid, T, i) else None"""
    if term.endswith("[0]") or term.endswith("[1]"):
        base = term[:-3]
        p = parse_call_term(base)
        if p and p[0] == "nbrs" and len(p[1]) >= 2:
            return base, p[1][0], p[1][1], int(term[-2])
    return None


def relabel_args(P: Program, ev: Event) -> dict:
    """positional roles of the relabelling primitive: (tracks, start, tracklet id, lineage id)"""
    cls = P.class_named(ev.name)
    init = P.lookup_method(cls.qname, "__init__")
    ps = init.params[1:]
    g = lambda i: ev.args.get(ps[i]) if len(ps) > i else None  # noqa: E731
    return {"start": g(1), "tid": g(2), "lid": g(3), "epoch": ev.pre["epoch"] if ev.pre else None}


def steps_of(P: Program, A: ActionAnalysis):
    R = roles(P, A)
    user_names = {c.name for c in A.user_actions}
    out: list[Step] = []
    stats = {"sequences": 0}
    for c in A.user_actions:
        f = A.init_of(c)
        _, results = A.run(f)

        def keep(e: Event) -> bool:
            if e.kind == "construct" and e.xdepth == 0:
                return True
            if e.kind == "mut" and e.name in ("add_edge", "remove_edge", "add_node", "remove_node"):
                return bool(e.xctx) and e.xctx[0].split(".")[0] not in user_names
            return False

        def extra(e: Event):
            if e.kind == "mut" and e.pre is not None and "source" in e.args:
                s0 = snap_state(e.pre)
                return (deg(s0, "out", e.args["source"]), deg(s0, "in", e.args["target"]))
            if e.kind == "construct" and e.pre is not None:
                items = tuple(sorted(f_ for f_ in e.pre["facts"] if f_[0] == "item"))
                return (e.pre["epoch"], items)
            return None

        for pr in results:
            if pr.kind == "raise":
                continue
            for seq in pr.sequences(keep, extra=extra):
                stats["sequences"] += 1
                cons = [e for e in seq if e.kind == "construct"]
                muts = [e for e in seq if e.kind == "mut"]
                added = {e.args["node"] for e in muts if e.name == "add_node"}
                removed = {e.args["node"] for e in muts if e.name == "remove_node"}
                relabels = [e for e in cons if e.name in R["relabel"]]
                add_targets = {(e.args["source"], e.args["target"]) for e in muts if e.name == "add_edge"}
                for i, e in enumerate(seq):
                    if e.kind != "mut" or e.name not in ("add_edge", "remove_edge"):
                        continue
                    s, t = e.args["source"], e.args["target"]
                    s0 = snap_state(e.pre)
                    before = [u for u in seq[:i] if u in relabels]
                    after = [u for u in seq[i + 1:] if u in relabels]
                    st = Step("?", c.name, f, e, s, t, before, after, trail=pr.trail)
                    st.info["dout_s"] = deg(s0, "out", s)
                    st.info["din_t"] = deg(s0, "in", t)
                    st.info["added"] = added
                    st.info["removed"] = removed
                    st.info["seq"] = seq
                    nxt = next((u for u in seq[i + 1:] if u.kind == "construct" and u.pre is not None), None)
                    st.info["dout_s_after"] = deg(snap_state(nxt.pre), "out", s) if nxt is not None else None
                    ns, nt = nbrs_base(s), nbrs_base(t)
                    if e.name == "add_edge":
                        if s in added or t in added:
                            st.kind = "splice-in"
                            new = s if s in added else t
                            other = nt if s in added else ns
                            st.info["new"] = new
                            st.info["nbr"] = other
                            st.info["addnode"] = next((x for x in cons if x.name in R["node+"] and x.args.get("node") == new), None)
                        elif ns and nt and ns[0] == nt[0] and ns[3] == 0 and nt[3] == 1:
                            # both are the track neighbours of one (track id, time)
                            tid_t = parse_call_term(ns[1])
                            owner = tid_t[1][0] if tid_t and tid_t[0] == "tid" else None
                            if owner is not None and owner in removed and ns[2] in (f"time({owner})",):
                                st.kind = "reconnect"
                                st.info["owner"] = owner
                            else:
                                st.kind = "unknown-add"
                        else:
                            lo, hi, _ = st.info["dout_s"]
                            if hi == 0:
                                st.kind = "join"
                            elif lo == 1 and hi == 1:
                                st.kind = "divide"
                            else:
                                st.kind = "unknown-add"
                    else:
                        lo, hi, _ = st.info["dout_s"]  # before removal
                        if s in removed or t in removed:
                            st.kind = "removal-edge"
                            st.info["node"] = s if s in removed else t
                            st.info["reconnected"] = any(tt == t for (_, tt) in add_targets) if s in removed else any(ss == s for (ss, _) in add_targets)
                        elif ns and nt and ns[0] == nt[0] and any(
                            (s, n) in add_targets and (n, t) in add_targets for n in added
                        ):
                            st.kind = "splice-cut"
                        else:
                            a = st.info["dout_s_after"] or (max(lo - 1, 0), max(hi - 1, 0), True)
                            if a[1] == 0:
                                st.kind = "cut-orphan"
                            elif a[0] == 1 and a[1] == 1:
                                st.kind = "cut-division"
                            else:
                                st.kind = "unknown-cut"
                    out.append(st)
    return out, R, stats


def current(term: str | None, epoch) -> bool:
    """Is a state-read term (`tid(x)@e`, `fresh_tid@e`, ...) from the given epoch?"""
    if term is None or "@" not in term:
        return True
    try:
        return int(term.rsplit("@", 1)[1].split("[")[0].split("#")[0]) == epoch
    except ValueError:
        return True
