"""C06 - track lookups and freshly issued ids agree with the graph (structural part).

R06.1 cache ownership          R06.2 attribute write => bookkeeping of the same node collection
R06.3 only the annotator writes the id attributes on nodes
R06.4 AddNode / DeleteNode / UpdateTrackIDs are handled (trigger matrix)
R06.5 monotone maxima          R06.6 new node ids: reserve, then draw, every id membership-checked
R06.7 the tracklet and lineage bookkeeping helpers have the same effect shape
"""

from __future__ import annotations

import ast

from ..actions import ActionAnalysis
from ..cfg import build_cfg
from ..effects import Effects
from ..model import AnalysisError, Program, call_name, norm
from ..report import Report
from .triggers import trigger_rules


def families(P: Program, ann) -> list[dict]:
    """(key attribute, id->nodes map attribute, maximum attribute) triples of the annotator."""
    init = ann.methods["__init__"]
    fams: dict[str, dict] = {}
    for n in ast.walk(init.node):
        if isinstance(n, ast.Assign) and isinstance(n.value, ast.Call) and call_name(n.value) == "_get_max_id_and_map":
            key = norm(n.value.args[0]) if n.value.args else ""
            names = [norm(x) for t in n.targets for x in (t.elts if isinstance(t, ast.Tuple) else [t])]
            fams[key] = {"key": key.replace("self.", ""), "tmp": names}
    # follow the temporaries to the attributes they are stored in
    for n in ast.walk(init.node):
        if isinstance(n, ast.Assign) and isinstance(n.value, ast.Name) and isinstance(n.targets[0], ast.Attribute):
            for fam in fams.values():
                if n.value.id in fam["tmp"]:
                    idx = fam["tmp"].index(n.value.id)
                    fam.setdefault("attrs", {})[n.targets[0].attr] = idx
    out = []
    for key, fam in fams.items():
        attrs = fam.get("attrs", {})
        mp = [a for a in attrs if a.endswith("_to_nodes")]
        mx = [a for a in attrs if a.startswith("max_")]
        fam_attrs = sorted(attrs)
        if len(fam_attrs) >= 2:
            # pair by the position in the returned tuple: (max, map)
            by_idx = {}
            for a, i in attrs.items():
                by_idx.setdefault(i, []).append(a)
        if mp and mx:
            # several assignments share the temporaries: match by name stem
            for m in mp:
                stem = m.replace("_id_to_nodes", "")
                if stem in fam["key"] or fam["key"].replace("_key", "") in stem:
                    out.append({"key": fam["key"], "map": m, "max": next(x for x in mx if stem in x)})
    if len(out) < 2:
        raise AnalysisError(f"could not derive the (key, map, maximum) families of {ann.name}: {fams}")
    return out


def run(P: Program, R: Report, tier: str) -> None:
    R.explanation = (
        "Who-may-write analysis of the lookup caches (E4), pairing of attribute writes with "
        "bookkeeping calls inside the track annotator, handler exhaustiveness from the trigger "
        "matrix, monotonicity of the maxima and the reserve-then-draw discipline of the node id issuer."
    )
    R.decides += [
        "the id->nodes maps and maxima are written only by the track annotator; every id-attribute write on nodes is followed by "
        "bookkeeping of the same node collection; maxima never decrease on incremental paths; new node ids are reserved before "
        "replacements are drawn and each is membership-checked",
    ]
    R.decides += ['memo discipline; annotator key names come from the feature dictionary; the special keys survive dump_json / from_json']
    R.not_decided += ["that get_track_neighbors / has_track_id_at_time return what a scan returns; cascades of the C05 findings (stale lineage cache)"]
    E = Effects(P)
    ann = P.class_named("TrackAnnotator")
    fams = families(P, ann)
    cache_attrs = {f["map"] for f in fams} | {f["max"] for f in fams}
    # ---- R06.1 ownership
    n = 0
    for q, s in E.summ.items():
        fn = P.functions[q]
        for p, pa, kind, w in s.effects:
            hit = [a for a in cache_attrs if a in pa]
            if not hit or not w.startswith(fn.module.rel + ":"):
                continue
            # only the function in which the write syntactically occurs
            line = int(w.rsplit(":", 1)[1])
            if not (fn.node.lineno <= line <= (fn.node.end_lineno or fn.node.lineno)):
                continue
            if any(line >= sub.node.lineno and line <= (sub.node.end_lineno or 0) for sub in fn.locals_.values()):
                continue
            n += 1
            inside = fn.cls is not None and fn.cls.qname == ann.qname
            if kind == "order":
                R.ok("R06.1", fn, w, f"{fn.short} reorders {hit[0]} in place (order-only, observed as a set)", via="effect-analysis")
            else:
                R.check(inside, "R06.1", fn, w, f"content write of {hit[0]} happens inside {ann.name}",
                        f"{fn.short} writes the lookup cache {hit[0]} from outside the annotator", via="who-may-write")
    R.floor("R06.1", "cache write sites", n, 10)

    # ---- R06.2 write => bookkeeping
    n = 0
    for m in ann.methods.values():
        for lp in [x for x in ast.walk(m.node) if isinstance(x, (ast.For, ast.While))]:
            pass
        writes = [c for c in ast.walk(m.node) if isinstance(c, ast.Call) and call_name(c) in ("_set_node_attr", "_set_nodes_attr") and len(c.args) >= 2]
        from ..resolve import Resolver as _Rs62

        rs62 = _Rs62(P, m)
        for w in writes:
            fam = next((f for f in fams if rs62.text(w.args[1]) == f"self.{f['key']}"), None)  # `lineage_key = self.lineage_key` hoisted out of a loop is the same key
            if fam is None:
                continue
            n += 1
            node_var = norm(w.args[0])
            # the list that collects the same node next to the write (same statement list); a bulk write names it itself
            coll = node_var if call_name(w) == "_set_nodes_attr" and isinstance(w.args[0], ast.Name) else None
            preset = coll is not None
            for blk in ast.walk(m.node):
                for fld in ("body", "orelse"):
                    stmts = getattr(blk, fld, None)
                    if not preset and isinstance(stmts, list) and any(w in list(ast.walk(s)) for s in stmts if isinstance(s, ast.stmt)):
                        for s in stmts:
                            if isinstance(s, ast.Expr) and isinstance(s.value, ast.Call) and call_name(s.value) == "append" and s.value.args and norm(s.value.args[0]) == node_var:
                                if not any(w in list(ast.walk(inner)) for inner in ast.walk(blk) if inner is not blk and isinstance(inner, (ast.If, ast.For, ast.While)) and any(s2 is s for s2 in ast.walk(inner))):
                                    coll = norm(s.value.func.value)
            if coll is None:
                R.fail("R06.2", m, w, f"{m.short}: nodes whose {fam['key']} is written are collected for bookkeeping",
                       "no list collects the node next to the attribute write")
                continue
            ok = False
            for c in ast.walk(m.node):
                if isinstance(c, ast.Call) and c.args and norm(c.args[0]) == coll and isinstance(c.func, ast.Attribute):
                    callee = P.lookup_method(ann.qname, c.func.attr)
                    if callee is not None and any(fam["map"] in pa for p, pa, k, _ in E.summ[callee.qname].effects):
                        ok = True
            R.check(ok, "R06.2", m, w, f"{m.short}: the nodes collected in `{coll}` are handed to the {fam['map']} bookkeeping",
                    f"`{coll}` (nodes whose {fam['key']} was rewritten) is never passed to a function that updates {fam['map']}: the lookup goes stale",
                    via="dataflow")
    R.floor("R06.2", "id attribute writes in the annotator", n, 2)

    # ---- R06.3 only the annotator (and AddNode's generic attribute copy) writes the id keys
    for fn in P.functions.values():
        if fn.parent is not None:
            continue
        for c in ast.walk(fn.node):
            if isinstance(c, ast.Call) and call_name(c) in ("_set_node_attr", "_set_nodes_attr") and len(c.args) >= 2:
                k = norm(c.args[1])
                if "tracklet_key" in k or "lineage_key" in k:
                    inside = fn.cls is not None and fn.cls.qname == ann.qname
                    R.check(inside, "R06.3", fn, c, f"write of node attribute {k} happens in {ann.name}",
                            f"{fn.short} writes an id attribute without updating the lookups", via="who-may-write")

    # ---- R06.4 handlers
    A = ActionAnalysis(P)
    ncell = trigger_rules(P, R, A, "R06.4", only_annotators={ann.name})
    R.floor("R06.4", "matrix cells", ncell, 3)

    # ---- R06.5 monotone maxima
    monotone_maxima(P, R, ann, fams, "R06.5")

    # ---- R06.6 new node ids
    fresh_node_ids(P, R)

    # ---- R06.7 sibling agreement
    def shape(prefix: str, fam: dict) -> dict:
        out = {}
        for role in ("_add_to_", "_remove_from_", "_update_"):
            cands = [m for name, m in ann.methods.items() if name.startswith(role) and fam["map"].split("_id_")[0] in name and "bookkeeping" in name]
            if cands:
                eff = {pa[0].replace(fam["map"], "MAP").replace(fam["max"], "MAX") for p, pa, k, _ in E.summ[cands[0].qname].effects if p == "self" and pa}
                out[role] = eff
        return out

    shapes = [shape("", f) for f in fams]
    R.check(shapes[0] == shapes[1] and len(shapes[0]) == 3, "R06.7", ann.methods["update"], ann.node,
            "tracklet and lineage bookkeeping helpers have the same effect shape",
            f"{shapes[0]} vs {shapes[1]}", via="sibling-agreement")

    # ---- R06.8 a move in the bookkeeping takes the nodes out of the old entry BEFORE it puts them into the new one
    move_order(P, R, ann, fams)
    no_wholesale_replace(P, R, ann, fams)
    positional_reads(P, R)
    family_independence(P, R, ann, fams)
    # ---- R06.9 the neighbour query returns the time-nearest members of the track
    from .neighbours import nearest_neighbour

    nearest_neighbour(P, R, "R06.9")
    # ---- R06.13 a query of the data model never answers from a memo that some writer forgets to drop
    from .memo import no_stale_memo

    no_stale_memo(P, R, "R06.13")
    # ---- R06.14 the annotator maintains the attribute the queries read (key names threaded from the feature dictionary)
    from .annot import keys_threaded

    keys_threaded(P, R, "R06.14")
    # ---- R06.15 (= R14.2) the keys the lookups are built for survive save / load
    from .c14 import feature_dict_keys_agree

    feature_dict_keys_agree(P, R, "R06.15")
    # ---- R06.16 a lookup that is handed out is a plain dict: reading a missing id must not insert it
    from .memo import no_autoinsert_lookup

    no_autoinsert_lookup(P, R, "R06.16")


def move_order(P: Program, R: Report, ann, fams) -> None:
    """old id == new id is legal (an inverse hands back the captured id of a relabel that did not change it).
    With an adder that de-duplicates (or a remover that drops every occurrence), add-then-remove leaves the nodes
    in NO entry although they still carry the id; remove-then-add is right for every pair of ids."""
    n = 0
    for fam in fams:
        mp = fam["map"]

        def aliases(m):
            return {t.id for s_ in ast.walk(m.node) if isinstance(s_, ast.Assign) and f"self.{mp}" in norm(s_.value) for t in s_.targets if isinstance(t, ast.Name)}

        def touches(m, kinds, depth=0):
            out = []
            al = aliases(m)
            # delegation: the map is handed to a helper that edits it through its parameter
            if depth == 0:
                for x in ast.walk(m.node):
                    if isinstance(x, ast.Call) and isinstance(x.func, ast.Attribute) and any(norm(a_) == f"self.{mp}" for a_ in x.args):
                        h = ann.methods.get(x.func.attr)
                        if h is None or h is m:
                            continue
                        idx = [norm(a_) for a_ in x.args].index(f"self.{mp}")
                        hp = [p_ for p_ in h.params if p_ not in ("self", "cls")]
                        if idx >= len(hp):
                            continue
                        pn = hp[idx]
                        derived = {pn}
                        for s_ in ast.walk(h.node):
                            if isinstance(s_, ast.Assign) and any(isinstance(y, ast.Name) and y.id in derived for y in ast.walk(s_.value)):
                                derived |= {t.id for t in s_.targets if isinstance(t, ast.Name)}
                        for y in ast.walk(h.node):
                            if isinstance(y, ast.Call) and isinstance(y.func, ast.Attribute) and y.func.attr in kinds and isinstance(y.func.value, ast.Name) and y.func.value.id in derived:
                                out.append(x)
                            if "del" in kinds and isinstance(y, ast.Delete) and any(isinstance(t, ast.Subscript) and isinstance(t.value, ast.Name) and t.value.id in derived for t in y.targets):
                                out.append(x)
            for x in ast.walk(m.node):
                if isinstance(x, ast.Call) and isinstance(x.func, ast.Attribute) and x.func.attr in kinds and (
                        f"self.{mp}" in norm(x.func.value) or (isinstance(x.func.value, ast.Name) and x.func.value.id in al)):
                    out.append(x)
                if "del" in kinds and isinstance(x, ast.Delete) and any(f"self.{mp}[" in norm(t) for t in x.targets):
                    out.append(x)
            return out

        adders = {name: m for name, m in ann.methods.items() if touches(m, ("append", "extend", "add", "update", "insert"))}
        removers = {name: m for name, m in ann.methods.items() if touches(m, ("remove", "discard", "difference_update", "pop"))}
        only_add = {k: v for k, v in adders.items() if k not in removers}
        only_rem = {k: v for k, v in removers.items() if k not in adders}
        for name, m in ann.methods.items():
            calls = [c for c in ast.walk(m.node) if isinstance(c, ast.Call) and isinstance(c.func, ast.Attribute) and norm(c.func.value) == "self"]
            a_calls = [c for c in calls if c.func.attr in only_add]
            r_calls = [c for c in calls if c.func.attr in only_rem]
            if not a_calls or not r_calls:
                continue
            cfg = build_cfg(m.node)

            stmt = cfg.node_containing

            for a in a_calls:
                for r in r_calls:
                    if not a.args or not r.args or norm(a.args[0]) != norm(r.args[0]):
                        continue
                    n += 1
                    sa_, sr = stmt(a), stmt(r)
                    if sa_ is None or sr is None:
                        R.undecided("R06.8", m, a, f"{name}: order of the move in {mp}", "call sites not found in the flow graph")
                        continue
                    add_first = sa_ != sr and cfg.reachable(sa_, sr)
                    adder = only_add[a.func.attr]
                    al_ = aliases(adder)
                    dedup = any(isinstance(i, ast.If) and "not in" in norm(i.test) and any(isinstance(x, ast.Call) and call_name(x) in ("append", "extend") for x in ast.walk(i))
                                for i in ast.walk(adder.node) if isinstance(i, ast.If) and ((mp in norm(i.test) and "[" in norm(i.test)) or any(
                                    isinstance(x, ast.Name) and x.id in al_ for x in ast.walk(i.test)))) or bool(touches(adder, ("add", "update")))
                    remover = only_rem[r.func.attr]
                    rem_all = bool(touches(remover, ("discard", "difference_update"))) or any(
                        isinstance(s, ast.Assign) and f"self.{mp}[" in norm(s.targets[0]) and isinstance(s.value, (ast.ListComp, ast.SetComp)) for s in ast.walk(remover.node))
                    guarded = any(isinstance(i, ast.If) and isinstance(i.test, ast.Compare) and isinstance(i.test.ops[0], ast.NotEq)
                                  and {norm(i.test.left), norm(i.test.comparators[0])} == {norm(a.args[1]) if len(a.args) > 1 else "", norm(r.args[1]) if len(r.args) > 1 else ""}
                                  for i in ast.walk(m.node))
                    if not add_first or guarded:
                        R.ok("R06.8", m, r, f"{name}: nodes leave the old {mp} entry before they enter the new one", via="cfg-order")
                    elif dedup or rem_all:
                        R.fail("R06.8", m, a, f"{name}: nodes leave the old {mp} entry before they enter the new one",
                               f"`{norm(a)[:60]}` runs before `{norm(r)[:60]}`; {a.func.attr} {'de-duplicates' if dedup else 'adds'} and {r.func.attr} removes"
                               f"{' every occurrence' if rem_all else ''}: when the old and the new id are equal (undo of a relabel that kept the id) the nodes end up in no entry")
                    else:
                        R.ok("R06.8", m, a, f"{name}: add-then-remove on a plain list (extend, then remove one occurrence each) keeps one copy", via="cfg-order")
    R.floor("R06.8", "move sites (remove + add of the same nodes)", n, 1)


def fresh_node_ids(P: Program, R: Report) -> None:
    """R06.6: the batch of candidates is reserved first (the counter moves past all of them), every candidate is
    tested against the graph in a retry loop that draws from the counter, and what passed the test is returned.
    The issuer and the same-class helpers it calls are looked at together."""
    issuer = P.func_named("_get_new_node_ids", "Tracks")
    cls = issuer.cls
    closure = [issuer]
    for c in ast.walk(issuer.node):
        if isinstance(c, ast.Call) and isinstance(c.func, ast.Attribute) and norm(c.func.value) == "self":
            h = P.lookup_method(cls.qname, c.func.attr) if cls else None
            if h is not None and h not in closure and h.cls is not None and h.cls.name in ("Tracks", "SolutionTracks"):
                closure.append(h)
    counters = set()
    for m in closure:
        for s_ in ast.walk(m.node):
            if isinstance(s_, ast.AugAssign) and isinstance(s_.target, ast.Attribute) and norm(s_.target.value) == "self" and isinstance(s_.op, ast.Add):
                counters.add(s_.target.attr)
    if len(counters) != 1:
        R.undecided("R06.6", issuer, issuer.node, "new node ids are drawn from one counter", f"counter attribute not recognised ({sorted(counters)})")
        return
    counter = counters.pop()
    nparam = issuer.params[1] if len(issuer.params) > 1 else "n"
    reserve = [s_ for s_ in ast.walk(issuer.node)
               if (isinstance(s_, ast.AugAssign) and isinstance(s_.target, ast.Attribute) and s_.target.attr == counter and nparam in norm(s_.value))
               or (isinstance(s_, ast.Assign) and any(isinstance(t, ast.Attribute) and t.attr == counter for t in s_.targets) and nparam in norm(s_.value))]
    R.check(bool(reserve), "R06.6", issuer, issuer.node, "the counter is advanced by the batch size", "", via="syntax")
    loops = []  # (holder, loop)
    for m in closure:
        for s_ in ast.walk(m.node):
            if isinstance(s_, ast.While):
                t = norm(s_.test)
                inner_test = any(isinstance(i, ast.If) and ("has_node" in norm(i.test) or " in " in norm(i.test)) for i in ast.walk(s_))
                if "has_node" in t or " in " in t or (t == "True" and inner_test):
                    loops.append((m, s_))
    R.check(bool(loops), "R06.6", issuer, issuer.node, "every candidate id is tested against the graph in a retry loop",
            "no membership retry loop: an id already in the graph can be returned", via="syntax")
    cfg = build_cfg(issuer.node)
    for holder, lp in loops:
        draws = [s_ for s_ in ast.walk(lp) if isinstance(s_, ast.Assign) and f"self.{counter}" in norm(s_.value)]
        R.check(bool(draws), "R06.6", holder, lp, "a colliding candidate is replaced by a new draw from the counter", "", via="syntax")
        # where, in the issuer, the retry loop runs: the loop itself or the call of its holder
        if holder is issuer:
            site = lp
        else:
            site = next((c for c in ast.walk(issuer.node) if isinstance(c, ast.Call) and isinstance(c.func, ast.Attribute) and c.func.attr == holder.name), None)
        outer = None
        if site is not None:
            for nnode in cfg.stmts():
                if nnode.ast is not None and any(x is site for x in ast.walk(nnode.ast)):
                    if outer is None or isinstance(nnode.ast, ast.For):
                        outer = nnode.id
        for r in reserve:
            rn = cfg.node_of(r)
            if rn is None or outer is None:
                R.undecided("R06.6", issuer, r, "the batch is reserved before replacements are drawn", "statements not found in the flow graph")
                continue
            ok = cfg.dominates(rn, outer) and not cfg.reachable(outer, rn)
            R.check(ok, "R06.6", issuer, r, "the batch is reserved (counter advanced past all candidates) before replacements are drawn",
                    "replacements are drawn while the counter still points inside the candidate batch: one call can return the same id twice",
                    via="cfg-dominance")
        # the id that went through the retry loop is what ends up in the result
        checked = {x.id for x in ast.walk(lp) if isinstance(x, ast.Name) and isinstance(x.ctx, ast.Store)} | {x.id for x in ast.walk(lp.test) if isinstance(x, ast.Name)}
        if holder is issuer:
            stores_back = any(
                (isinstance(s_, ast.Assign) and any(isinstance(t, ast.Subscript) for t in s_.targets) and isinstance(s_.value, ast.Name) and s_.value.id in checked)
                or (isinstance(s_, ast.Call) and call_name(s_) == "append" and s_.args and isinstance(s_.args[0], ast.Name) and s_.args[0].id in checked)
                for s_ in ast.walk(issuer.node))
            R.check(stores_back, "R06.6", issuer, lp, "the checked id is what ends up in the returned list",
                    "the value that passed the membership loop is not the one returned", via="dataflow")
        else:
            returned = [r_ for r_ in ast.walk(holder.node) if isinstance(r_, ast.Return) and r_.value is not None]
            ok = bool(returned) and all(isinstance(r_.value, ast.Name) and r_.value.id in checked for r_ in returned)
            if ok:
                R.ok("R06.6", holder, lp, f"{holder.short} returns the id that passed the membership test", via="dataflow")
            else:
                R.undecided("R06.6", holder, lp, "the checked id is what the helper returns", "return shape not recognised")


def no_wholesale_replace(P: Program, R: Report, ann, fams, rule: str = "R06.10") -> None:
    """R06.10: an existing entry of an id -> nodes map is never replaced wholesale.  `MAP[new] = <nodes>` is only right
    when `new` has no entry yet; when a whole tracklet is merged INTO an existing id (join of two tracks, sibling adopts
    the parent's id) the members already listed under `new` drop out of the lookup."""
    n = 0
    for fam in fams:
        mp = f"self.{fam['map']}"
        for m in ann.methods.values():
            for s_ in ast.walk(m.node):
                if not (isinstance(s_, ast.Assign) and len(s_.targets) == 1 and isinstance(s_.targets[0], ast.Subscript) and norm(s_.targets[0].value) == mp):
                    continue
                n += 1
                k = norm(s_.targets[0].slice)
                v = s_.value
                empty = (isinstance(v, (ast.List, ast.Dict, ast.Set)) and not getattr(v, "elts", getattr(v, "keys", []))) or (
                    isinstance(v, ast.Call) and call_name(v) in ("list", "set", "dict") and not v.args)
                from .util import guards_of

                gs = [g_.replace(" ", "") for g_ in guards_of(m, s_)]
                guarded = f"{k}notin{mp}".replace(" ", "") in gs
                R.check(empty or guarded, rule, m, s_, f"{m.short}: an entry of {fam['map']} is created only when the id has none",
                        f"`{norm(s_)[:80]}` can replace the list already stored under `{k}`: when nodes are moved INTO an id that is in use, "
                        "its earlier members vanish from the lookup (neighbour and presence queries then miss them)", via="guard-shape")
    R.count(f"{rule} entry assignments", n)


def family_independence(P: Program, R: Report, ann, fams) -> None:
    """R06.12: whether a node is booked in / out of the TRACK lookup does not depend on its LINEAGE id (and vice versa).
    A node can carry a track id and no lineage id (lineage feature off, node added with an explicit track id): a merged
    guard `if track_id is None or lineage_id is None: return` leaves its track entry stale."""
    if len(fams) < 2:
        return
    from .util import guards_of

    n = 0
    for i, fam in enumerate(fams):
        other = fams[1 - i] if len(fams) == 2 else None
        if other is None:
            continue
        stem = fam["map"].split("_id_")[0]
        ostem = other["map"].split("_id_")[0]
        for m in ann.methods.values():
            if "bookkeeping" in m.name:
                continue
            # locals derived from the other family's key
            tainted = set()
            for s_ in ast.walk(m.node):
                if isinstance(s_, ast.Assign) and (f"self.{other['key']}" in norm(s_.value) or f"get_{ostem}" in norm(s_.value)) and f"self.{fam['key']}" not in norm(s_.value):
                    tainted |= {t.id for t in s_.targets if isinstance(t, ast.Name)}
            for c in ast.walk(m.node):
                if isinstance(c, ast.Call) and isinstance(c.func, ast.Attribute) and norm(c.func.value) == "self" and stem in c.func.attr and "bookkeeping" in c.func.attr:
                    st = next((s_ for s_ in ast.walk(m.node) if isinstance(s_, ast.Expr) and s_.value is c), None)
                    if st is None:
                        continue
                    n += 1
                    gs = guards_of(m, st)
                    dep = [g_ for g_ in gs if any(isinstance(x, ast.Name) and x.id in tainted for x in ast.walk(ast.parse(g_, mode="eval")))]
                    R.check(not dep, "R06.12", m, c, f"{m.short}: the {stem} lookup is updated whatever the node's {ostem} id is",
                            f"`{norm(c)[:60]}` runs only under {dep}: a node with a {stem} id but no {ostem} id is never booked {'out' if 'remove' in c.func.attr else 'in'} - its entry goes stale",
                            via="guard-shape")
    R.floor("R06.12", "bookkeeping calls in the handlers", n, 4)


def positional_reads(P: Program, R: Report) -> None:
    """R06.11: apart from get_track_neighbors (which orders by time first, R06.9), no query picks an element of a per-id
    node list BY POSITION: the lists are in joining order, so `nodes[0]` / `nodes[-1]` are not the first / last in time."""
    st = P.class_named("SolutionTracks")
    n = 0
    for m in st.methods.values():
        if m.name == "get_track_neighbors":
            continue
        cands = set()
        changed = True
        while changed:
            changed = False
            for s_ in ast.walk(m.node):
                if isinstance(s_, ast.Assign) and len(s_.targets) == 1 and isinstance(s_.targets[0], ast.Name) and s_.targets[0].id not in cands:
                    src = norm(s_.value)
                    if "_to_nodes[" in src or "_to_node[" in src or "_to_node.get(" in src or "_to_nodes.get(" in src or any(isinstance(x, ast.Name) and x.id in cands for x in ast.walk(s_.value)):
                        cands.add(s_.targets[0].id)
                        changed = True
        if not cands and "_to_node" not in norm(m.node):
            continue
        n += 1
        sorted_by_time = any(isinstance(c, ast.Call) and call_name(c) in ("sort", "sorted") and any(k.arg == "key" and "time" in norm(k.value) for k in c.keywords) for c in ast.walk(m.node))
        pos = [x for x in ast.walk(m.node) if isinstance(x, ast.Subscript) and isinstance(x.ctx, ast.Load) and (
            (isinstance(x.value, ast.Name) and x.value.id in cands) or "_to_node" in norm(x.value))
            and (isinstance(x.slice, ast.Constant) and isinstance(x.slice.value, int) or (isinstance(x.slice, ast.UnaryOp) and isinstance(x.slice.operand, ast.Constant)))]
        R.check(not pos or sorted_by_time, "R06.11", m, pos[0] if pos else m.node, f"{m.short} does not pick members of a per-id list by position",
                f"`{norm(pos[0])[:50]}` takes an element by position, but the list is in joining order (a node re-added by undo is appended at the end): "
                "the query disagrees with a scan of the graph" if pos else "", via="order-dependence")
    R.floor("R06.11", "SolutionTracks queries over the per-id lists", n, 1)


def monotone_maxima(P: Program, R: Report, ann, fams, rule: str, only_key: str | None = None, floor: int = 4) -> None:
    """The maximum that `get_next_*_id()` is derived from only ever grows on incremental paths, and every insertion of a
    new id into a lookup raises it: a lowered maximum hands out an id that is still in use."""
    if only_key is not None:
        fams = [f_ for f_ in fams if only_key in f_["key"]]
    n = 0
    for m in ann.methods.values():
        bulk = any(
            isinstance(s, ast.Assign) and any(isinstance(t, ast.Attribute) and t.attr in {f["map"] for f in fams} for t in s.targets)
            for s in ast.walk(m.node)
        )
        for fam in fams:
            inserts = [
                s for s in ast.walk(m.node)
                if (isinstance(s, ast.Assign) and any(isinstance(t, ast.Subscript) and norm(t.value) == f"self.{fam['map']}" for t in s.targets))
                or (isinstance(s, ast.Call) and isinstance(s.func, ast.Attribute) and s.func.attr in ("extend", "append", "setdefault")
                    and norm(s.func.value).startswith(f"self.{fam['map']}"))
            ]
            assigns = [s for s in ast.walk(m.node) if isinstance(s, ast.Assign) and any(norm(t) == f"self.{fam['max']}" for t in s.targets)]
            for a in assigns:
                n += 1
                if bulk or m.name == "__init__":
                    R.ok(rule, m, a, f"{m.short}: {fam['max']} installed together with a freshly built map", via="bulk")
                    continue
                v = norm(a.value)
                mono = False
                # max(self.max, x)  or  guarded by  x > self.max
                if isinstance(a.value, ast.Call) and call_name(a.value) in ("max", "maximum") and f"self.{fam['max']}" in v:
                    mono = True
                for blk in ast.walk(m.node):
                    if isinstance(blk, ast.If) and a in blk.body and isinstance(blk.test, ast.Compare) and len(blk.test.ops) == 1:
                        L, Rr, op = norm(blk.test.left), norm(blk.test.comparators[0]), blk.test.ops[0]
                        if (L == v and Rr == f"self.{fam['max']}" and isinstance(op, (ast.Gt, ast.GtE))) or (
                            Rr == v and L == f"self.{fam['max']}" and isinstance(op, (ast.Lt, ast.LtE))):
                            mono = True
                R.check(mono, rule, m, a, f"{m.short}: {fam['max']} only ever grows on incremental paths",
                        f"`{norm(a)}` can lower the maximum: a later get_next id may be a live id", via="monotone-form")
            if inserts and not bulk and m.name != "__init__" and not any(isinstance(s, ast.Delete) for s in ()):
                has_raise = bool(assigns)
                adds_new_key = any(isinstance(s, ast.Assign) for s in inserts) or any(isinstance(s, ast.Call) and s.func.attr == "setdefault" for s in inserts if isinstance(s, ast.Call))
                if adds_new_key:
                    n += 1
                    R.check(has_raise, rule, m, inserts[0], f"{m.short}: inserting an id into {fam['map']} raises {fam['max']}",
                            "a new id enters the lookup without the maximum being raised", via="pairing")
    R.floor(rule, "maximum updates", n, floor)

