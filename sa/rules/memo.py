"""No stale memo in the data model.

The actions change the graph directly (`tracks.graph.remove_node(..)`, `tracks.graph.nodes[n][k] = v`, item assignment
on the feature dictionary).  A query method of the data model that answers from a memo of its own - an instance
attribute it fills on a miss and consults on the next call - is only right while EVERY writer of what it memoises drops
the entry.  On the pinned tree no query keeps a memo; the rule decides, for a memo that appears:

  ok         every function that writes the memoised storage also invalidates the memo (directly or through one call)
  violation  some writer does not (it is named): after that write the query answers from the past - a node id re-used in
             another frame keeps its old time, a feature registered later is not seen by the capture of a deletion, ...
  undecided  the memoised storage is not recognised

memo = an attribute `self.M` of a data-model class that a query method (get_* / has_* / is_* / property) both stores
(plain assignment, not a counter `+=`) and reads.
"""

from __future__ import annotations

import ast

from ..model import FuncInfo, Program, call_name, norm
from ..report import Report

NODE_WRITERS = {"add_node", "remove_node", "add_nodes_from", "remove_nodes_from", "set_node_attributes", "clear", "update"}
EDGE_WRITERS = {"add_edge", "remove_edge", "add_edges_from", "remove_edges_from", "set_edge_attributes", "clear", "update", "remove_node", "remove_nodes_from"}
DICT_MUTATORS = {"__setitem__", "__delitem__"}


def _self_attr_base(t: ast.expr):
    b = t
    while isinstance(b, ast.Subscript):
        b = b.value
    if isinstance(b, ast.Attribute) and norm(b.value) == "self":
        return b.attr
    return None


def _returns_from(m: FuncInfo, M: str) -> bool:
    """some returned value is read from `self.M` (directly or through locals): a counter or a log that a query keeps is
    not a memo - its answer does not come from it"""
    def mentions(e: ast.AST, names: set[str]) -> bool:
        for x in ast.walk(e):
            if isinstance(x, ast.Attribute) and x.attr == M and norm(x.value) == "self" and isinstance(x.ctx, ast.Load):
                return True
            if isinstance(x, ast.Name) and x.id in names and isinstance(x.ctx, ast.Load):
                return True
        return False

    tainted: set[str] = set()
    changed = True
    while changed:
        changed = False
        for s_ in ast.walk(m.node):
            if isinstance(s_, (ast.Assign, ast.AnnAssign, ast.NamedExpr)) and getattr(s_, "value", None) is not None and mentions(s_.value, tainted):
                tg = s_.targets if isinstance(s_, ast.Assign) else [s_.target]
                for t in tg:
                    for n in ([t] if isinstance(t, ast.Name) else t.elts if isinstance(t, (ast.Tuple, ast.List)) else []):
                        if isinstance(n, ast.Name) and n.id not in tainted:
                            tainted.add(n.id)
                            changed = True
    return any(isinstance(r, ast.Return) and r.value is not None and mentions(r.value, tainted) for r in ast.walk(m.node))


def _stored_from_itself(m: FuncInfo, M: str) -> bool:
    """every value stored into `self.M` is computed from `self.M` (directly or through locals that are ONLY ever defined from
    it): a counter / issuer written as `self.M = self.M + n` or `first = self.M; self.M = first + n`, not a memo of
    something else.  A local that is also assigned from another source (`t = self.M.get(k); if t is None: t = compute()`)
    is not such a local."""
    defs: dict[str, list[ast.expr]] = {}
    for s_ in ast.walk(m.node):
        if isinstance(s_, ast.Assign):
            for t in s_.targets:
                if isinstance(t, ast.Name):
                    defs.setdefault(t.id, []).append(s_.value)
    pure = set(defs)

    def mentions(e: ast.AST) -> bool:
        for x in ast.walk(e):
            if isinstance(x, ast.Attribute) and x.attr == M and norm(x.value) == "self" and isinstance(x.ctx, ast.Load):
                return True
            if isinstance(x, ast.Name) and x.id in pure and isinstance(x.ctx, ast.Load):
                return True
        return False

    changed = True
    while changed:
        changed = False
        for nm in list(pure):
            if not all(mentions(v) for v in defs[nm]):
                pure.discard(nm)
                changed = True
    vals = []
    for s_ in ast.walk(m.node):
        if isinstance(s_, ast.Assign) and any(_self_attr_base(t) == M for t in s_.targets):
            vals.append(s_.value)
    return bool(vals) and all(mentions(v) for v in vals)


def find_memos(P: Program):
    out = []
    for ci in P.classes.values():
        if not any(k in ci.qname for k in (".data_model.", ".features.")):
            continue
        for m in ci.methods.values():
            if m.name.startswith("__"):
                continue
            if not (m.name.startswith(("get_", "has_", "is_", "_get", "_has", "_is")) or "property" in m.decorators() or "cached_property" in m.decorators()):
                continue
            stores, loads = {}, set()
            for x in ast.walk(m.node):
                if isinstance(x, ast.Assign):
                    for t in x.targets:
                        a = _self_attr_base(t)
                        if a:
                            stores.setdefault(a, x)
                if isinstance(x, ast.Call) and isinstance(x.func, ast.Attribute) and x.func.attr == "setdefault" and _self_attr_base(x.func.value):
                    stores.setdefault(_self_attr_base(x.func.value), x)
                if isinstance(x, ast.Attribute) and norm(x.value) == "self" and isinstance(x.ctx, ast.Load):
                    loads.add(x.attr)
            has_ret = any(isinstance(r, ast.Return) and r.value is not None and not isinstance(r.value, ast.Constant) for r in ast.walk(m.node))
            for a, st in stores.items():
                if a in loads and has_ret and _returns_from(m, a) and not _stored_from_itself(m, a):
                    out.append((ci, m, a, st))
            if "cached_property" in m.decorators():
                out.append((ci, m, m.name, m.node))
    return out


def _invalidates(fn: ast.AST, M: str) -> bool:
    for x in ast.walk(fn):
        if isinstance(x, ast.Call) and isinstance(x.func, ast.Attribute) and x.func.attr in ("pop", "clear", "popitem") and isinstance(x.func.value, ast.Attribute) and x.func.value.attr == M:
            return True
        if isinstance(x, ast.Delete):
            for t in x.targets:
                b = t
                while isinstance(b, ast.Subscript):
                    b = b.value
                if isinstance(b, ast.Attribute) and b.attr == M:
                    return True
        if isinstance(x, ast.Assign):
            for t in x.targets:
                if isinstance(t, ast.Attribute) and t.attr == M:
                    return True
    return False


def _graph_writes(f: FuncInfo, kinds: set[str]) -> ast.AST | None:
    for x in ast.walk(f.node):
        if isinstance(x, ast.Call) and isinstance(x.func, ast.Attribute):
            recv = norm(x.func.value)
            if recv.endswith("graph") and ((("node" in kinds) and x.func.attr in NODE_WRITERS) or (("edge" in kinds) and x.func.attr in EDGE_WRITERS)):
                return x
            if x.func.attr in ("set_node_attributes",) and "node" in kinds:
                return x
            if x.func.attr in ("set_edge_attributes",) and "edge" in kinds:
                return x
        if isinstance(x, (ast.Assign, ast.AugAssign, ast.Delete)):
            for t in (x.targets if isinstance(x, (ast.Assign, ast.Delete)) else [x.target]):
                if isinstance(t, ast.Subscript):
                    txt = norm(t)
                    if "node" in kinds and ".graph.nodes[" in txt:
                        return x
                    if "edge" in kinds and ".graph.edges[" in txt:
                        return x
                if isinstance(t, ast.Attribute) and t.attr == "graph" and isinstance(x, ast.Assign) and f.name != "__init__":
                    return x
    return None


def no_stale_memo(P: Program, R: Report, rule: str) -> None:
    memos = find_memos(P)
    if not memos:
        R.ok(rule, "data model", "", "no query method of the data model answers from a memo of its own", "nothing to invalidate", via="syntax")
        return
    for ci, m, M, st in memos:
        label = f"{m.short}: the memo `self.{M}` is dropped by every writer of what it memoises"
        # what the miss path reads
        reads = {x.attr for x in ast.walk(m.node) if isinstance(x, ast.Attribute) and norm(x.value) == "self" and isinstance(x.ctx, ast.Load)} - {M}
        body = norm(m.node)
        is_dict = any(norm(b) in ("dict", "UserDict", "OrderedDict") or norm(b).startswith("dict[") for c_ in P.mro(ci.qname) for b in c_.node.bases)
        reads_self_items = is_dict and any(k in body for k in ("self.items()", "self.values()", "self.keys()", "in self ", "self[", "for k in self", "self.get("))
        kinds: set[str] = set()
        if "graph" in reads or any(k in body for k in ("get_node_attr", "get_nodes_attr", "_get_node_attr", "get_positions", "get_times")):
            if any(k in body for k in (".nodes", "node_attr", "nodes_attr", "get_time", "has_node")):
                kinds.add("node")
            if any(k in body for k in (".edges", "edge_attr", "successors", "predecessors", "degree", "in_edges", "out_edges", "has_edge")):
                kinds.add("edge")
            if not kinds:
                kinds = {"node", "edge"}
        bad = None
        n_writers = 0
        if kinds:
            for f in P.functions.values():
                if f is m or f.name == "__init__" and f.cls is ci:
                    continue
                w = _graph_writes(f, kinds)
                if w is None:
                    continue
                n_writers += 1
                ok = _invalidates(f.node, M)
                if not ok:
                    # one level: a call to a function that invalidates
                    for c in ast.walk(f.node):
                        if isinstance(c, ast.Call):
                            nm = call_name(c)
                            for g in P.find_funcs(nm) if nm else []:
                                if g is not m and _invalidates(g.node, M):
                                    ok = True
                if not ok and bad is None:
                    bad = (f, w)
        if reads_self_items:
            over = [ci.methods.get(k) for k in DICT_MUTATORS]
            n_writers += 1
            if not all(o is not None and _invalidates(o.node, M) for o in over) and bad is None:
                bad = (m, st)
                R.fail(rule, m, st, label, f"`self.{M}` memoises a view of the dictionary's own items, but item assignment / deletion (`d[key] = feature`, `del d[key]`) "
                       f"does not pass through any code of {ci.name} that drops it: a feature registered after the first read is not in the view - e.g. the capture of a "
                       "deletion misses its values and undo restores the element without them")
                continue
        others = reads - {"graph", "features", "tracks"} if not kinds and not reads_self_items else set()
        for a in sorted(others):
            for f in P.functions.values():
                if f is m or f.name == "__init__":
                    continue
                writes_a = any(isinstance(x, (ast.Assign, ast.AugAssign)) and any(_self_attr_base(t) == a or (isinstance(t, ast.Attribute) and t.attr == a) for t in (x.targets if isinstance(x, ast.Assign) else [x.target]))
                               for x in ast.walk(f.node))
                if writes_a:
                    n_writers += 1
                    if not _invalidates(f.node, M) and bad is None:
                        bad = (f, f.node)
        if bad is not None:
            f, w = bad
            R.fail(rule, m, st, label, f"{f.short} writes the memoised storage (`{norm(w)[:60]}`) without dropping `{M}`: after that write {m.name} answers from the past "
                   "(a node id re-used in another frame keeps its old value; consumers validate, measure and look up pixels with it)")
        elif n_writers:
            R.ok(rule, m, st, label, f"{n_writers} writer(s), all invalidate", via="who-writes")
        else:
            R.undecided(rule, m, st, label, f"what `self.{M}` memoises was not recognised (reads {sorted(reads)})")


def no_autoinsert_lookup(P: Program, R: Report, rule: str) -> None:
    """A `defaultdict` inserts a key when it is merely READ with a key it does not have.  Inside a function that is a
    convenient way to group; handed out - returned, or stored on the object as one of its lookups - it turns every
    `lookup[id]` of a missing id into a silent write (a phantom track id with an empty node list), so a pure query, or an
    edit that is refused afterwards, changes the track lookups.  In the annotators and the data model a local bound to
    `defaultdict(..)` leaves its function only as `dict(local)` (or a comprehension over it)."""
    n = 0
    for f in P.functions.values():
        if not any(k in f.qname for k in (".annotators.", ".data_model.", ".features.")):
            continue
        dd = {t.id for s in ast.walk(f.node) if isinstance(s, ast.Assign) and isinstance(s.value, ast.Call) and call_name(s.value) == "defaultdict"
              for t in s.targets if isinstance(t, ast.Name)}
        if not dd:
            continue
        n += 1
        label = f"{f.short}: an auto-inserting map ({', '.join(sorted(dd))}) does not leave the function as it is"
        bad = None
        for s in ast.walk(f.node):
            if isinstance(s, ast.Return) and s.value is not None:
                vals = s.value.elts if isinstance(s.value, ast.Tuple) else [s.value]
                for v in vals:
                    if isinstance(v, ast.Name) and v.id in dd:
                        bad = s
            if isinstance(s, ast.Assign) and isinstance(s.value, ast.Name) and s.value.id in dd and any(isinstance(t, ast.Attribute) for t in s.targets):
                bad = s
        if bad is not None:
            R.fail(rule, f, bad, label, f"`{norm(bad)[:70]}` hands the defaultdict out: from then on reading the lookup with an id it does not have inserts that id "
                   "with an empty list - a query (or a refused edit that only looked) changes the track lookups")
        else:
            R.ok(rule, f, f.node, label, "converted or kept local", via="syntax")
    if n == 0:
        R.ok(rule, "annotators / data model", "", "no auto-inserting map is built in the annotators or the data model", via="syntax")
