"""C19 - label utilities (structural part).

R19.1 monotone running offset in ensure_unique_labels
R19.2 relabel-by-track: fresh zero destination, per-frame source-only masks, counter
      incremented once per component
R19.3 ensure_unique_labels works in and returns a dtype wide enough for the accumulated offsets
"""

from __future__ import annotations

import ast

from ..model import AnalysisError, Program, call_name, norm
from ..report import Report


def fresh_destination(R: Report, rule: str, f, dest_hint: str | None = None):
    """Shared with C13: destination created zero-filled, written by boolean masks computed from
    the source only, never read."""
    zeros = [s for s in ast.walk(f.node) if isinstance(s, ast.Assign) and isinstance(s.targets[0], ast.Name) and "zeros_like(" in norm(s.value) or (isinstance(s, ast.Assign) and isinstance(s.targets[0], ast.Name) and "np.zeros(" in norm(s.value))]
    rets = [s for s in ast.walk(f.node) if isinstance(s, ast.Return) and isinstance(s.value, ast.Name)]
    if not rets:
        R.fail(rule, f, f.node, f"{f.short}: returns a named array", "return shape not recognised")
        return None, None
    dest = rets[-1].value.id
    zdef = [z for z in zeros if z.targets[0].id == dest]
    R.check(bool(zdef), rule, f, rets[-1], f"{f.short}: the returned array `{dest}` is created zero-filled (fresh destination)",
            f"`{dest}` is not a fresh zero array: labels that are not rewritten survive, and rewrites can chain", via="fresh-destination")
    if not zdef:
        defs = [s for s in ast.walk(f.node) if isinstance(s, ast.Assign) and isinstance(s.targets[0], ast.Name) and s.targets[0].id == dest]
        return dest, None
    src_arg = None
    m = zdef[0].value
    for c in ast.walk(m):
        if isinstance(c, ast.Call) and call_name(c) in ("zeros_like",) and c.args:
            src_arg = norm(c.args[0])
    # destination is never read (only subscript-stored / returned)
    reads = []
    for n in ast.walk(f.node):
        if isinstance(n, ast.Name) and n.id == dest and isinstance(n.ctx, ast.Load):
            reads.append(n)
    bad_reads = []
    vws = views_of(f, dest)
    for n in reads:
        parent_ok = any(n is x for v_ in vws.values() for x in ast.walk(v_))
        for s in ast.walk(f.node):
            if isinstance(s, ast.Return) and s.value is n:
                parent_ok = True
            if isinstance(s, ast.Assign):
                for t in s.targets:
                    x = t
                    while isinstance(x, ast.Subscript):
                        x = x.value
                    if x is n and isinstance(t, ast.Subscript):
                        parent_ok = True
            if isinstance(s, ast.AugAssign):
                x = s.target
                while isinstance(x, ast.Subscript):
                    x = x.value
                if x is n:
                    parent_ok = False
        if not parent_ok:
            bad_reads.append(n)
    R.check(not bad_reads, rule, f, bad_reads[0] if bad_reads else f.node, f"{f.short}: the destination `{dest}` is only written, never read",
            f"`{dest}` is read at line {getattr(bad_reads[0], 'lineno', '?') if bad_reads else '?'}: a rewritten label can be rewritten again", via="fresh-destination")
    return dest, src_arg


def views_of(f, dest: str) -> dict[str, ast.Subscript]:
    """`frame = dest[t]` where `frame` is then used only as the base of subscript stores (`frame[mask] = label`): a numpy
    view, the store writes through into dest[t][mask]"""
    out: dict[str, ast.Subscript] = {}
    for s in ast.walk(f.node):
        if isinstance(s, ast.Assign) and len(s.targets) == 1 and isinstance(s.targets[0], ast.Name) and isinstance(s.value, ast.Subscript) \
                and isinstance(s.value.value, ast.Name) and s.value.value.id == dest:
            v = s.targets[0].id
            ndefs = sum(1 for x in ast.walk(f.node) if isinstance(x, ast.Name) and x.id == v and isinstance(x.ctx, ast.Store))
            loads = [x for x in ast.walk(f.node) if isinstance(x, ast.Name) and x.id == v and isinstance(x.ctx, ast.Load)]
            store_bases = {id(t.value) for a in ast.walk(f.node) if isinstance(a, ast.Assign) for t in a.targets if isinstance(t, ast.Subscript)}
            if ndefs == 1 and loads and all(id(x) in store_bases for x in loads):
                out[v] = s.value
    return out


def run(P: Program, R: Report, tier: str) -> None:
    R.explanation = (
        "Form of the reassignment of the running label offset (monotone or not), the dtype the "
        "offsets are accumulated and returned in, and the fresh-destination / per-frame source-only "
        "masking discipline of the relabel-by-track function."
    )
    R.decides += [
        "the per-frame offset never decreases (an empty frame cannot reset it)",
        "relabel-by-track writes into a fresh zero array through per-frame masks of the source only, one label per component",
    ]
    R.decides += ["the running offset is initialised outside every loop; the time attribute the relabeller indexes with is the frame index of the caller's own array"]
    R.not_decided += ["partition preservation per frame and label equality per track as values"]
    f = P.func_named("ensure_unique_labels")
    # the running offset: a variable initialised before the frame loop and reassigned inside it, whose value is
    # what gets added to the labels of a frame (directly, or through a helper it is passed to)
    loops = [x for x in ast.walk(f.node) if isinstance(x, ast.For)]
    cands = []
    for lp in loops:
        before = {st.targets[0].id for st in ast.walk(f.node) if isinstance(st, ast.Assign) and isinstance(st.targets[0], ast.Name) and st.lineno < lp.lineno and isinstance(st.value, ast.Constant)}
        for st in ast.walk(lp):
            tg = st.targets if isinstance(st, ast.Assign) else ([st.target] if isinstance(st, ast.AugAssign) else [])
            for t in tg:
                if isinstance(t, ast.Name) and t.id in before:
                    used_as_addend = any(
                        (isinstance(u_, ast.AugAssign) and isinstance(u_.op, ast.Add) and isinstance(u_.value, ast.Name) and u_.value.id == t.id)
                        or (isinstance(u_, ast.Call) and any(isinstance(a_, ast.Name) and a_.id == t.id for a_ in u_.args) and call_name(u_) not in ("max", "maximum", "int", "min"))
                        for u_ in ast.walk(lp))
                    if used_as_addend:
                        cands.append((lp, t.id, st))
    if not cands:
        R.undecided("R19.1", f, f.node, "the running offset of ensure_unique_labels", "offset variable not recognised: not decided")
    reassign = [c_[2] for c_ in cands]
    # the offset starts once: its constant initialisation is not inside a loop (one running offset for all frames AND hypotheses)
    if cands:
        v0 = cands[0][1]
        inits = [st for st in ast.walk(f.node) if isinstance(st, ast.Assign) and isinstance(st.targets[0], ast.Name) and st.targets[0].id == v0 and isinstance(st.value, ast.Constant)]
        for st in inits:
            inside = [lp_ for lp_ in ast.walk(f.node) if isinstance(lp_, (ast.For, ast.While)) and any(x is st for x in ast.walk(lp_))]
            R.check(not inside, "R19.1", f, st, f"the running offset `{v0}` is initialised once, outside every loop",
                    f"`{norm(st)}` sits inside the loop over `{norm(inside[0].target) if inside and isinstance(inside[0], ast.For) else '?'}`: the offset restarts for each of its "
                    "iterations, so labels are unique within one hypothesis but repeat between hypotheses", via="monotone-form")
    reassign = [c_[2] for c_ in cands if not (isinstance(c_[2], ast.Assign) and isinstance(c_[2].value, ast.Constant))]
    v = cands[0][1] if cands else "?"
    lp = cands[0][0] if cands else None
    for s in reassign:
        mono = False
        if isinstance(s, ast.AugAssign) and isinstance(s.op, ast.Add):
            mono = True
        else:
            val = s.value
            for sub in ast.walk(val):
                if isinstance(sub, ast.Call) and call_name(sub) in ("max", "maximum") and any(isinstance(a, ast.Name) and a.id == v for a in sub.args):
                    outer = val
                    while isinstance(outer, ast.Call) and outer is not sub and call_name(outer) in ("int", "float") and len(outer.args) == 1:
                        outer = outer.args[0]
                    mono = mono or outer is sub
            if isinstance(val, ast.BinOp) and isinstance(val.op, ast.Add) and any(isinstance(x, ast.Name) and x.id == v for x in (val.left, val.right)):
                mono = True
            if isinstance(val, ast.IfExp) and any(isinstance(x, ast.Name) and x.id == v for x in (val.body, val.orelse)):
                mono = True
            for i in ast.walk(lp):
                if isinstance(i, ast.If) and s in i.body and not i.orelse and v in {x.id for x in ast.walk(i.test) if isinstance(x, ast.Name)}:
                    mono = True
        R.check(mono, "R19.1", f, s, f"reassignment of the offset `{v}` cannot decrease it",
                f"`{norm(s)}` resets the offset when a frame has no labels (maximum 0): labels of later frames repeat earlier ones", via="monotone-form")
    # ---- R19.3 dtype
    casts = [s for s in ast.walk(f.node) if isinstance(s, ast.Assign) and "astype(" in norm(s.value)]
    wide = any("uint64" in norm(s.value) or "int64" in norm(s.value) for s in casts)
    R.check(wide, "R19.3", f, f.node, "labels are accumulated in a 64-bit integer array", "no widening cast", via="syntax")
    # the widening is not optional: no path reaches the frame loop (where offsets are added) without it
    from ..cfg import build_cfg

    cfg = build_cfg(f.node)
    wide_nodes = {cfg.node_of(s) for s in ast.walk(f.node) if isinstance(s, ast.Assign) and ("uint64" in norm(s.value) or "int64" in norm(s.value))
                  and any(k in norm(s.value) for k in ("astype(", "asarray(", "np.array(", "dtype="))} - {None}
    entry = next(n.id for n in cfg.nodes.values() if n.kind == "entry")
    adds = [x for x in ast.walk(f.node) if isinstance(x, ast.For)]
    for lp_ in adds[:1]:
        ln = cfg.node_of(lp_)
        if ln is None or not wide_nodes:
            continue
        R.check(not cfg.reachable(entry, ln, avoiding=wide_nodes), "R19.3", f, lp_, "every path into the frame loop has widened the labels to 64 bit",
                "some path reaches the loop that adds the running offset without the widening cast: for a narrow unsigned input (uint8 / uint16) the "
                "sum wraps around - a region becomes background or collides with a label of an earlier frame", via="cfg-must-pass")
    for r in [s for s in ast.walk(f.node) if isinstance(s, ast.Return) and s.value is not None]:
        txt = norm(r.value)
        R.check("astype(" not in txt or "int64" in txt, "R19.3", f, r, "the result is returned in the wide dtype",
                f"`{txt}` narrows the result: accumulated offsets wrap around, merging regions into background or other labels", via="syntax")
    narrowing = [s for s in casts if "uint64" not in norm(s.value) and "int64" not in norm(s.value)]
    R.check(not narrowing, "R19.3", f, narrowing[0] if narrowing else f.node, "no narrowing cast of the label array", norm(narrowing[0])[:80] if narrowing else "", via="syntax")
    # ---- R19.2
    g = P.func_named("relabel_segmentation_with_track_id")
    dest, src = fresh_destination(R, "R19.2", g)
    if dest is not None:
        seg_param = g.params[1]
        vws = views_of(g, dest)
        writes = [s for s in ast.walk(g.node) if isinstance(s, ast.Assign) and isinstance(s.targets[0], ast.Subscript)
                  and (norm(s.targets[0]).startswith(dest) or (isinstance(s.targets[0].value, ast.Name) and s.targets[0].value.id in vws))]
        R.check(bool(writes), "R19.2", g, g.node, "labels are written through masks", "", via="syntax")
        for w in writes:
            t = w.targets[0]
            # dest[time][mask] = label   (or through a view: frame = dest[time]; frame[mask] = label)
            base = vws[t.value.id] if isinstance(t.value, ast.Name) and t.value.id in vws else t.value
            ok = isinstance(base, ast.Subscript) and norm(base.value) == dest
            time_idx = norm(base.slice) if ok else None
            mask = t.slice if ok else None
            mask_src = None
            if isinstance(mask, ast.Name):
                d = [s for s in ast.walk(g.node) if isinstance(s, ast.Assign) and isinstance(s.targets[0], ast.Name) and s.targets[0].id == mask.id]
                mask_src = d[0].value if len(d) == 1 else None
            elif mask is not None:
                mask_src = mask
            good = ok and mask_src is not None and isinstance(mask_src, ast.Compare) and norm(mask_src.left) == f"{seg_param}[{time_idx}]"
            R.check(good, "R19.2", g, w, "each mask compares the SOURCE array at the node's own frame with the node's label",
                    f"write `{norm(w)[:90]}`: the mask is not `{seg_param}[<node time>] == <label>` - a label value reused in another frame picks up this track's id",
                    via="provenance")
        whole = [n for n in ast.walk(g.node) if isinstance(n, ast.Subscript) and isinstance(n.slice, ast.Name) and n.slice.id == seg_param]
        R.check(not whole, "R19.2", g, whole[0] if whole else g.node, "the source array is never used as a whole-array index (per-frame lookups only)",
                "a lookup table indexed by the whole segmentation ignores the time frame", via="provenance")
        # counter incremented once per component
        from ..resolve import Resolver

        rsg = Resolver(P, g)
        comp_loops = [x for x in ast.walk(g.node) if isinstance(x, ast.For) and "connected_components" in rsg.text(x.iter)]
        okc = False
        for lp in comp_loops:
            incs = [s for s in lp.body if isinstance(s, ast.AugAssign) and isinstance(s.op, ast.Add) and norm(s.value) == "1"]
            enum = isinstance(lp.iter, ast.Call) and call_name(lp.iter) == "enumerate" and any(k.arg == "start" and norm(k.value) == "1" for k in lp.iter.keywords)
            okc = len(incs) == 1 or enum
        R.check(okc, "R19.2", g, g.node, "the label counter advances exactly once per component", "", via="syntax")
        # components are taken in a graph WITHOUT the edges that leave a dividing node: either they are removed from a copy,
        # or a new graph is built from the edges whose source does not divide (here or in a helper the graph is passed to)
        scope = [g]
        for c_ in ast.walk(g.node):
            if isinstance(c_, ast.Call) and isinstance(c_.func, ast.Name):
                hq = P.resolve_name(g.module, c_.func.id)
                if hq in P.functions and P.functions[hq] not in scope:
                    scope.append(P.functions[hq])
        cut = any("remove_edges_from" in norm(s_) or "remove_edge(" in norm(s_) for h_ in scope for s_ in ast.walk(h_.node) if isinstance(s_, ast.Call))
        degree_based = any("out_degree" in norm(h_.node) for h_ in scope)
        rebuilt = any(isinstance(s_, ast.Call) and call_name(s_) == "add_edges_from" and s_.args and isinstance(s_.args[0], (ast.GeneratorExp, ast.ListComp))
                      and any("not in" in norm(i_) for i_ in s_.args[0].generators[0].ifs) for h_ in scope for s_ in ast.walk(h_.node))
        if (cut or rebuilt) and degree_based:
            R.ok("R19.2", g, g.node, "division edges are left out before components are taken", via="syntax")
        elif not comp_loops or any("connected_components" in norm(x.iter) and norm(x.iter).count(g.params[0]) and "copy" not in norm(g.node) for x in comp_loops) and not (cut or rebuilt):
            R.fail("R19.2", g, g.node, "division edges are left out before components are taken",
                   "components are taken in the solution graph itself: both daughters of a division get their mother's label")
        else:
            R.undecided("R19.2", g, g.node, "division edges are left out before components are taken", "construction of the cut graph not recognised")
    # ---- R19.4 / R19.5 the relabeller indexes the caller's array with the node's time attribute: the producers of that
    # attribute store the frame index of the caller's own array
    from .c18 import callers_container, time_is_frame_index

    reads_time = any(isinstance(x, ast.Subscript) and norm(x.slice) in ("NodeAttr.TIME.value", "'time'") for x in ast.walk(g.node))
    if reads_time:
        time_is_frame_index(P, R, "R19.4", only_seg=True)
        callers_container(P, R, "R19.5", only_seg=True)
    else:
        R.undecided("R19.4", g, g.node, "the relabeller finds a node's frame through its time attribute", "read of the time attribute not recognised")
    # ---- R19.6 (= R18.8) building the candidate graph (and its IoU pass) only reads the caller's label array: the relabeller is
    # later handed the same array and looks the solution's seg ids up in it
    from .c18 import callers_container_untouched

    callers_container_untouched(P, R, "R19.6")
