"""C08 - node measurements equal those of the node's current mask (structural part).

R08.1 every primitive that changes a node's mask and keeps the node triggers recomputation
R08.2 mutate, then notify: annotators never measure the old mask
R08.3 one kernel, one scale: bulk and incremental paths reach the same per-frame kernel; its
      spacing is tracks.scale without the time axis on every call; the incremental path masks
      the node's own frame with the node's own id
R08.4 update() leaves early only for accepted reasons (type filter, no segmentation, nothing active)
"""

from __future__ import annotations

import ast

from ..actions import ActionAnalysis
from ..model import AnalysisError, Program, call_name, norm
from ..report import Report
from .annot import calls_to, update_guards
from .triggers import notify_last, trigger_rules


def scale_derived(expr: ast.expr, f, depth: int = 0) -> bool:
    txt = norm(expr)
    if ".scale[1:]" in txt or ".scale [1:]" in txt:
        return True
    if isinstance(expr, ast.Name):
        defs = [s for s in ast.walk(f.node) if isinstance(s, ast.Assign) and any(isinstance(t, ast.Name) and t.id == expr.id for t in s.targets)]
        return bool(defs) and all(scale_derived(d.value, f, depth + 1) for d in defs) if depth < 3 else False
    if isinstance(expr, ast.IfExp):
        # None if scale is None else tuple(scale[1:])
        return scale_derived(expr.orelse, f, depth + 1) or scale_derived(expr.body, f, depth + 1)
    return False


def run(P: Program, R: Report, tier: str) -> None:
    R.explanation = (
        "Trigger matrix (effects of primitives x handlers of the regionprops annotator), ordering of "
        "mutation and notification in every primitive, provenance of the spacing argument at every "
        "call of the per-frame kernel, and the idioms by which update() may leave early."
    )
    R.decides += [
        "every mask change of a surviving node triggers recomputation, after the array was written, through the same kernel and scale as bulk computation, on the node's own frame and id",
    ]
    R.not_decided += ["any numerical equality (area, centroid, shape features are runtime values)"]
    A = ActionAnalysis(P)
    ann = P.class_named("RegionpropsAnnotator")
    n = trigger_rules(P, R, A, "R08.1", only_annotators={ann.name})
    R.floor("R08.1", "matrix cells", n, 3)
    notify_last(P, R, A, "R08.2")
    # ---- R08.3
    kernel = None
    for m in ann.methods.values():
        for c in ast.walk(m.node):
            if isinstance(c, ast.Call) and "regionprops" in (call_name(c) or "") and any(k.arg == "spacing" for k in c.keywords):
                kernel = (m, c)
    if kernel is None:
        raise AnalysisError("regionprops kernel call with a spacing argument not found")
    km, kc = kernel
    sp = next(k.value for k in kc.keywords if k.arg == "spacing")
    callers = [(m, c) for m in ann.methods.values() for c in calls_to(m, km.name)]
    R.floor("R08.3", "kernel call sites", len(callers), 2)
    entry = {m.name for m, _ in callers}
    R.check({"compute", "update"} <= entry, "R08.3", km, km.node, "bulk (compute) and incremental (update) paths reach the same kernel",
            f"kernel {km.name} is called from {sorted(entry)}", via="call-graph")
    if isinstance(sp, ast.Name) and sp.id in km.params:
        # spacing is a parameter: every call site must pass a scale-derived value
        for m, c in callers:
            idx = km.params.index(sp.id) - 1
            arg = c.args[idx] if idx < len(c.args) else next((k.value for k in c.keywords if k.arg == sp.id), None)
            R.check(arg is not None and scale_derived(arg, m), "R08.3", m, c,
                    f"{m.short} passes the voxel spacing (tracks.scale[1:]) to the kernel",
                    f"call `{norm(c)[:90]}` " + ("does not pass the spacing: the kernel falls back to its default and measures in pixels" if arg is None else f"passes `{norm(arg)}`"),
                    via="dataflow")
    else:
        R.check(scale_derived(sp, km), "R08.3", km, kc, "the kernel's spacing is tracks.scale without the time axis",
                f"spacing is `{norm(sp)}`", via="dataflow")
    upd = ann.methods["update"]
    src = norm(upd.node)
    ok = "self.tracks.get_time(node)" in src and "self.tracks.segmentation[time]" in src and "np.where(seg_frame == node, node, 0)" in src
    # tolerate renamed locals: time of the action's node, frame at that time, mask by equality with the node
    if not ok:
        t_defs = [s for s in ast.walk(upd.node) if isinstance(s, ast.Assign) and "get_time(" in norm(s.value)]
        m_defs = [s for s in ast.walk(upd.node) if isinstance(s, ast.Assign) and "np.where(" in norm(s.value) and "==" in norm(s.value)]
        ok = bool(t_defs) and bool(m_defs) and "action.node" in src
    R.check(ok, "R08.3", upd, upd.node, "the incremental path masks the node's own frame with the node's own id", src[:120], via="syntax")
    update_guards(P, R, ann, "R08.4")
