"""C08 - node measurements equal those of the node's current mask (structural part).

R08.1 every primitive that changes a node's mask and keeps the node triggers recomputation
R08.2 mutate, then notify: annotators never measure the old mask
R08.3 one kernel, one scale: bulk and incremental paths reach the same per-frame kernel; its
      spacing is tracks.scale without the time axis on every call; the incremental path masks
      the node's own frame with the node's own id
R08.4 update() leaves early only for accepted reasons (type filter, no segmentation, nothing active)
"""

from __future__ import annotations

import ast

from ..actions import ActionAnalysis
from ..model import AnalysisError, Program, call_name, norm
from ..report import Report
from .annot import calls_to, update_guards
from .triggers import notify_last, trigger_rules


def scale_derived(expr: ast.expr, f, depth: int = 0, P=None) -> bool:
    txt = norm(expr)
    if ".scale[1:]" in txt or ".scale [1:]" in txt:
        return True
    if isinstance(expr, ast.Subscript) and norm(expr.slice) == "1:" and depth < 9:
        base = expr.value
        if isinstance(base, ast.Name):
            defs = [s for s in ast.walk(f.node) if isinstance(s, ast.Assign) and any(isinstance(t, ast.Name) and t.id == base.id for t in s.targets)]
            return bool(defs) and all(norm(d.value).endswith(".scale") for d in defs)
    if isinstance(expr, ast.Call) and call_name(expr) == "tuple" and expr.args:
        return scale_derived(expr.args[0], f, depth + 1, P)
    if P is not None and isinstance(expr, ast.Call) and isinstance(expr.func, ast.Attribute) and norm(expr.func.value) == "self" and f.cls is not None and depth < 8:
        m = P.lookup_method(f.cls.qname, expr.func.attr)
        if m is not None:
            rets = [r for r in ast.walk(m.node) if isinstance(r, ast.Return) and r.value is not None and norm(r.value) != "None"]
            return bool(rets) and all(scale_derived(r.value, m, depth + 1, P) for r in rets)
    if P is not None and isinstance(expr, ast.Attribute) and norm(expr.value) == "self" and f.cls is not None and depth < 8:
        m = P.lookup_method(f.cls.qname, expr.attr)
        if m is not None and "property" in m.decorators():
            rets = [r for r in ast.walk(m.node) if isinstance(r, ast.Return) and r.value is not None and norm(r.value) != "None"]
            return bool(rets) and all(scale_derived(r.value, m, depth + 1, P) for r in rets)
    if isinstance(expr, ast.Name) and expr.id in getattr(f, "params", []) and P is not None and f.cls is not None and depth < 8:
        # a parameter: every same-class call site passes a scale-derived value
        sites = [(m, c) for m in f.cls.methods.values() for c in ast.walk(m.node)
                 if isinstance(c, ast.Call) and isinstance(c.func, ast.Attribute) and c.func.attr == f.name and norm(c.func.value) == "self"]
        idx = f.params.index(expr.id) - 1
        vals = [(m, c.args[idx] if idx < len(c.args) else next((k.value for k in c.keywords if k.arg == expr.id), None)) for m, c in sites]
        return bool(vals) and all(v is not None and scale_derived(v, m, depth + 1, P) for m, v in vals)
    if isinstance(expr, ast.Name):
        defs = [s for s in ast.walk(f.node) if isinstance(s, ast.Assign) and any(isinstance(t, ast.Name) and t.id == expr.id for t in s.targets)]
        return bool(defs) and all(scale_derived(d.value, f, depth + 1, P) for d in defs) if depth < 8 else False
    if isinstance(expr, ast.IfExp):
        # None if scale is None else tuple(scale[1:])
        return scale_derived(expr.orelse, f, depth + 1, P) or scale_derived(expr.body, f, depth + 1, P)
    return False


def own_pixels_only(P: Program, R: Report, rule: str) -> None:
    """The per-region measurement objects receive the label image of the WHOLE frame (bulk computation hands over a
    frame with every node in it).  A measurement of region L may look at that image only through `image == L` (or at its
    shape); a reduction over the raw image - or over its bounding-box crop - counts the pixels of neighbouring labels as
    well, and the stored value then depends on whether it came from bulk computation or from an incremental update."""
    SHAPE_ONLY = {"ndim", "shape", "dtype", "size"}
    REDUCE = {"sum", "count_nonzero", "nonzero", "any", "where", "argwhere", "flatnonzero", "mean", "marching_cubes", "find_contours", "bincount"}
    n_use = 0
    for ci in P.classes.values():
        if not any(norm(b_).endswith("RegionProperties") for c_ in P.mro(ci.qname) for b_ in c_.node.bases):
            continue
        for m in ci.methods.values():
            parents = {}
            for x in ast.walk(m.node):
                for ch in ast.iter_child_nodes(x):
                    parents[id(ch)] = x
            for x in ast.walk(m.node):
                if not (isinstance(x, ast.Attribute) and x.attr == "_label_image" and norm(x.value) == "self"):
                    continue
                n_use += 1
                # climb: Subscript crops keep the raw image; stop at the first non-subscript parent
                cur = x
                par = parents.get(id(cur))
                while isinstance(par, ast.Subscript) and par.value is cur:
                    cur, par = par, parents.get(id(par))
                if isinstance(par, ast.Attribute) and par.attr in SHAPE_ONLY:
                    R.ok(rule, m, x, f"{m.short}: the frame's label image is only asked for its shape", via="syntax")
                    continue
                if isinstance(par, ast.Compare) and len(par.ops) == 1 and isinstance(par.ops[0], ast.Eq) and any(
                        norm(o) in ("self.label", "self._label") for o in [par.left, *par.comparators] if o is not cur):
                    R.ok(rule, m, x, f"{m.short}: the frame's label image is looked at through `== self.label` only", via="syntax")
                    continue
                bad = None
                if isinstance(par, ast.Call) and call_name(par) in REDUCE and any(a_ is cur for a_ in par.args):
                    bad = par
                elif isinstance(par, ast.Compare) and all(isinstance(o_, (ast.Gt, ast.NotEq)) for o_ in par.ops) and any(
                        isinstance(o, ast.Constant) and o.value == 0 for o in par.comparators):
                    bad = par
                elif isinstance(par, ast.Call) and isinstance(par.func, ast.Attribute) and par.func.value is cur and par.func.attr in REDUCE | {"astype"}:
                    bad = par
                if bad is not None:
                    R.fail(rule, m, x, f"{m.short}: the frame's label image is looked at through `== self.label` only",
                           f"`{norm(bad)[:80]}` looks at every non-zero pixel of the frame (or of the bounding box): pixels of neighbouring nodes are measured as if "
                           "they were this node's - the bulk path and the incremental path (frame masked to one node) then store different values")
                else:
                    R.undecided(rule, m, x, f"{m.short}: the frame's label image is looked at through `== self.label` only", f"use `{norm(par)[:60] if par is not None else ''}` not recognised")
    if n_use == 0:
        R.undecided(rule, "RegionProperties subclasses", "", "per-region measurements look at their own pixels only", "no use of the frame's label image found")


def kernel_sees_the_frame(P: Program, R: Report, rule: str) -> None:
    """skimage's regionprops reports centroids, bounding boxes and slices in the coordinates of the array it is given.
    The measurement wrappers hand it the frame they received, unchanged: a cropped (or otherwise sub-selected) array moves
    every coordinate by the crop origin, and skimage's `offset` argument is in scaled units, so a pixel origin is only
    right for unit spacing."""
    from .provenance import classify

    n = 0
    for f in P.functions.values():
        if ".annotators." not in f.qname:
            continue
        for c in ast.walk(f.node):
            if not (isinstance(c, ast.Call) and call_name(c) == "regionprops" and c.args):
                continue
            n += 1
            label = f"{f.short}: regionprops measures the frame it was handed, in the frame's own coordinates"
            v, why = classify(P, f, c.args[0], c.lineno)
            if v == "bad":
                R.fail(rule, f, c, label, f"{why}: centroids and slices are relative to the sub-array; a pixel `offset` is added AFTER scaling, so positions are "
                       "wrong for every non-unit spacing (bulk and incremental alike)")
            elif v == "ident":
                off = next((k for k in c.keywords if k.arg == "offset"), None)
                if off is not None and not (isinstance(off.value, ast.Constant) and off.value.value is None):
                    R.undecided(rule, f, c, label, f"an explicit offset `{norm(off.value)[:40]}` is passed")
                else:
                    R.ok(rule, f, c, label, f"`{norm(c.args[0])}` is the parameter `{why}`", via="provenance")
            else:
                R.undecided(rule, f, c, label, why)
    if n == 0:
        R.undecided(rule, "annotators", "", "regionprops measures the frame it was handed", "no regionprops call found in the annotators package")


def run(P: Program, R: Report, tier: str) -> None:
    R.explanation = (
        "Trigger matrix (effects of primitives x handlers of the regionprops annotator), ordering of "
        "mutation and notification in every primitive, provenance of the spacing argument at every "
        "call of the per-frame kernel, and the idioms by which update() may leave early."
    )
    R.decides += [
        "every mask change of a surviving node triggers recomputation, after the array was written, through the same kernel and scale as bulk computation, on the node's own frame and id",
    ]
    R.decides += ['per-region measurements look at their own label only; regionprops is handed the frame unchanged; enabling with recomputation computes every requested key; memo discipline; position key threading']
    R.not_decided += ["any numerical equality (area, centroid, shape features are runtime values)"]
    A = ActionAnalysis(P)
    ann = P.class_named("RegionpropsAnnotator")
    n = trigger_rules(P, R, A, "R08.1", only_annotators={ann.name})
    R.floor("R08.1", "matrix cells", n, 3)
    notify_last(P, R, A, "R08.2")
    # ---- R08.3
    kernel = None
    for m in ann.methods.values():
        for c in ast.walk(m.node):
            if isinstance(c, ast.Call) and "regionprops" in (call_name(c) or "") and any(k.arg == "spacing" for k in c.keywords):
                kernel = (m, c)
    if kernel is None:
        raise AnalysisError("regionprops kernel call with a spacing argument not found")
    km, kc = kernel
    sp = next(k.value for k in kc.keywords if k.arg == "spacing")
    callers = [(m, c) for m in ann.methods.values() for c in calls_to(m, km.name)]
    # methods from which the kernel's holder is reachable through calls on self
    reach = {km.name}
    changed = True
    while changed:
        changed = False
        for m in ann.methods.values():
            if m.name not in reach and any(calls_to(m, r) for r in list(reach)):
                reach.add(m.name)
                changed = True
    R.floor("R08.3", "methods reaching the kernel", len(reach), 3)
    entry = reach
    R.check({"compute", "update"} <= entry, "R08.3", km, km.node, "bulk (compute) and incremental (update) paths reach the same kernel",
            f"kernel {km.name} is called from {sorted(entry)}", via="call-graph")
    if isinstance(sp, ast.Name) and sp.id in km.params:
        # spacing is a parameter: every call site must pass a scale-derived value
        for m, c in callers:
            idx = km.params.index(sp.id) - 1
            arg = c.args[idx] if idx < len(c.args) else next((k.value for k in c.keywords if k.arg == sp.id), None)
            R.check(arg is not None and scale_derived(arg, m, 0, P), "R08.3", m, c,
                    f"{m.short} passes the voxel spacing (tracks.scale[1:]) to the kernel",
                    f"call `{norm(c)[:90]}` " + ("does not pass the spacing: the kernel falls back to its default and measures in pixels" if arg is None else f"passes `{norm(arg)}`"),
                    via="dataflow")
    else:
        R.check(scale_derived(sp, km, 0, P), "R08.3", km, kc, "the kernel's spacing is tracks.scale without the time axis",
                f"spacing is `{norm(sp)}`", via="dataflow")
    # the incremental path masks the node's own frame with the node's own id (possibly in a helper)
    from ..resolve import Resolver

    found = []
    for m in ann.methods.values():
        rs = Resolver(P, m)
        for c in ast.walk(m.node):
            if isinstance(c, ast.Call) and call_name(c) == "where" and len(c.args) == 3 and isinstance(c.args[0], ast.Compare):
                cmp_ = c.args[0]
                found.append((m, c, rs.text(cmp_.left), rs.text(cmp_.comparators[0]), rs.text(c.args[1]), rs.text(c.args[2])))
    if not found:
        R.undecided("R08.3", ann.methods["update"], ann.node, "the incremental path masks the node's frame with np.where", "no np.where(frame == node, node, 0) found")
    expanded = []
    for m, c, left, right, keep, other in found:
        params = [p_ for p_ in m.params if p_ not in ("self", "cls")]
        if params and left in params and right in params:
            # the mask lives in a helper(frame, label): look at what its callers pass
            for m2 in ann.methods.values():
                rs2 = Resolver(P, m2)
                for c2 in calls_to(m2, m.name):
                    argmap = {p_: rs2.text(a_) for p_, a_ in zip(params, c2.args, strict=False)}
                    expanded.append((m2, c2, argmap.get(left, left), argmap.get(right, right), argmap.get(keep, keep), other))
        else:
            expanded.append((m, c, left, right, keep, other))
    for m, c, left, right, keep, other in expanded:
        node_txt = right
        good = ("segmentation[" in left and f"get_time({node_txt})" in left and keep == node_txt and other == "0") or (
            "segmentation[" in left and "get_time(action.node)" in left and right == "action.node")
        R.check(good, "R08.3", m, c, "the incremental path masks the node's own frame with the node's own id",
                f"mask is np.where({left} == {right}, {keep}, {other})", via="provenance")
    update_guards(P, R, ann, "R08.4")
    from .annot import compute_is_memoryless

    compute_is_memoryless(P, R, ann, "R08.5")
    # ---- R08.6 in the paint update the overlapped nodes are shrunk before the painted node is measured
    from .c07 import release_before_claim

    uu = P.class_named("UserUpdateSegmentation")
    if uu is None:
        raise AnalysisError("paint-driven user action UserUpdateSegmentation not found")
    fu = A.init_of(uu)
    _, res_u = A.run(fu)
    release_before_claim(R, fu, res_u, "R08.6")
    own_pixels_only(P, R, "R08.7")
    kernel_sees_the_frame(P, R, "R08.11")
    # ---- R08.8 a query of the data model never answers from a memo that some writer forgets to drop
    from .memo import no_stale_memo

    no_stale_memo(P, R, "R08.8")
    # ---- R08.9 the annotator maintains the attribute the queries read (key names threaded from the feature dictionary)
    from .annot import keys_threaded

    keys_threaded(P, R, "R08.9", only=('position',))
    # ---- R08.10 (= R10.6) enabling with recomputation computes every requested key, also one that was registered before
    from .c10 import enable_recomputes_requested

    enable_recomputes_requested(P, R, "R08.10")
