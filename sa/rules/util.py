"""Helpers shared by the shape rules."""

from __future__ import annotations

import ast

from ..model import FuncInfo, norm


def guards_of(f: FuncInfo, stmt: ast.stmt) -> list[str]:
    """Conditions known true at stmt: enclosing if-tests and preceding `if c: continue` in the same loop body."""
    out = []

    def rec(body, acc):
        local = list(acc)
        for s in body:
            if s is stmt:
                out.extend(local)
                return True
            if isinstance(s, ast.If):
                if rec(s.body, local + [norm(s.test)]):
                    return True
                if rec(s.orelse, local + [f"not ({norm(s.test)})"]):
                    return True
                if len(s.body) == 1 and isinstance(s.body[0], (ast.Continue, ast.Break, ast.Return)) and not s.orelse:
                    local.append(f"not ({norm(s.test)})")
            elif isinstance(s, (ast.For, ast.While)):
                if rec(s.body, local) or rec(s.orelse, local):
                    return True
            elif isinstance(s, ast.With):
                if rec(s.body, local):
                    return True
        return False

    rec(f.node.body, [])
    return out


