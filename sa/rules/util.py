"""Helpers shared by the shape rules."""

from __future__ import annotations

import ast

from ..model import FuncInfo, norm


def conjuncts(test: ast.expr, positive: bool = True) -> list[str]:
    """The atomic conditions known when `test` is true (positive) / false (not positive)."""
    if isinstance(test, ast.UnaryOp) and isinstance(test.op, ast.Not):
        return conjuncts(test.operand, not positive)
    if isinstance(test, ast.BoolOp):
        if isinstance(test.op, ast.And) and positive or isinstance(test.op, ast.Or) and not positive:
            out = []
            for v in test.values:
                out += conjuncts(v, positive)
            return out
        return [norm(test) if positive else f"not ({norm(test)})"]
    if isinstance(test, ast.Compare) and len(test.ops) == 1 and not positive:
        flip = {ast.In: ast.NotIn, ast.NotIn: ast.In, ast.Is: ast.IsNot, ast.IsNot: ast.Is, ast.Eq: ast.NotEq, ast.NotEq: ast.Eq}
        for a, b in flip.items():
            if isinstance(test.ops[0], a):
                return [norm(ast.Compare(test.left, [b()], test.comparators))]
    return [norm(test) if positive else f"not ({norm(test)})"]


def guards_of(f: FuncInfo, stmt: ast.stmt) -> list[str]:
    """Conditions known true at stmt: enclosing if-tests and preceding `if c: continue` in the same loop body."""
    out = []

    def rec(body, acc):
        local = list(acc)
        for s in body:
            if s is stmt:
                out.extend(local)
                return True
            if isinstance(s, ast.If):
                if rec(s.body, local + conjuncts(s.test, True)):
                    return True
                if rec(s.orelse, local + conjuncts(s.test, False)):
                    return True
                if len(s.body) == 1 and isinstance(s.body[0], (ast.Continue, ast.Break, ast.Return, ast.Raise)) and not s.orelse:
                    local += conjuncts(s.test, False)
            elif isinstance(s, (ast.For, ast.While)):
                if rec(s.body, local) or rec(s.orelse, local):
                    return True
            elif isinstance(s, ast.With):
                if rec(s.body, local):
                    return True
        return False

    rec(f.node.body, [])
    return out


