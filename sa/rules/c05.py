"""C05 - lineage ids label exactly the connected components (edit side).

R05.1  every structural edit a user action makes itself that joins or splits components is
       accompanied, on the same path, by a lineage update of the moved side.
R05.2  lineage ids come from get_next_lineage_id() / get_lineage_id(<node>) in the current state.
R05.3  a new node gets the lineage of a neighbour it is linked to, or a fresh one.
R05.4  optional ids are never tested by truthiness (0 is a legal id).
"""

from __future__ import annotations

import ast

from ..absint import parse_call_term
from ..actions import ActionAnalysis, strip, trail_text
from ..model import Program, call_name, norm
from ..report import Report
from .c04 import attr_value
from .relabel import relabel_args, steps_of

LKEY = "$tracks.features.lineage_key"


def is_lid_of(term, node, epoch) -> bool:
    p = parse_call_term(term or "")
    return bool(p and p[0] == "lid" and p[1] == [node] and p[2] == epoch)


def run(P: Program, R: Report, tier: str) -> None:
    R.explanation = (
        "Structural graph operations of each user action (classified from interpreter terms and "
        "degree facts) are matched against the lineage argument of the relabelling primitives on "
        "the same path; plus provenance of lineage ids and an id-truthiness lint."
    )
    R.decides += [
        "every edit path whose own structural effect joins or splits components carries a lineage update for the moved side",
        "a spliced-in node adopts the lineage of a node it is linked to; lineage ids are fresh or read in the current state",
    ]
    R.decides += ['history shape and registration (shared R02.x); no wholesale replacement of a per-id entry and the neighbour contract; the lineage key is threaded into the annotator']
    R.not_decided += ["the iff over all node pairs; the bulk assignment; the downstream walk of the annotator beyond its gating"]
    A = ActionAnalysis(P, loop_iters=1 if tier == "quick" else 2)
    steps, roles, stats = steps_of(P, A)
    R.floor("R05.1", "structural steps", len(steps), 8)
    removal_done: set = set()
    for st in steps:
        f, ev, s, t = st.f, st.ev, st.s, st.t
        allU = st.relabels_before + st.relabels_after
        label = f"{st.kind}: {strip(s)[:36]} -> {strip(t)[:36]}"
        path = trail_text(st.trail)

        def find(start, pool):
            for u in pool:
                a = relabel_args(P, u)
                if a["start"] == start and a["lid"] not in (None, "None"):
                    return u, a
            return None, None

        if st.kind in ("join", "divide"):
            u, a = find(t, st.relabels_before + st.relabels_after)
            R.check(u is not None, "R05.1", f, ev.where(), f"{label}: attached subtree adopts the source's lineage",
                    "the target's component is joined to the source's but no lineage update starts at the target", via="path-shape", path=path)
            if u is not None:
                R.check(is_lid_of(a["lid"], s, a["epoch"]), "R05.2", f, u.where(), f"{label}: lineage passed is the source's current lineage",
                        f"lineage passed is {strip(str(a['lid']))}", via="dataflow", path=path)
        elif st.kind in ("cut-orphan", "cut-division"):
            u, a = find(t, st.relabels_after)
            R.check(u is not None, "R05.1", f, ev.where(), f"{label}: detached subtree gets a lineage of its own",
                    "the edge is removed, the target's subtree is a component of its own, but no lineage update starts at the target", via="path-shape", path=path)
            if u is not None:
                R.check(a["lid"] == f"fresh_lid@{a['epoch']}", "R05.2", f, u.where(), f"{label}: detached subtree gets a fresh lineage id",
                        f"lineage passed is {strip(str(a['lid']))}", via="dataflow", path=path)
        elif st.kind == "removal-edge":
            node = st.info["node"]
            key = (id(st.info["seq"]), node)
            if key in removal_done:
                continue
            removal_done.add(key)
            group = [x for x in steps if x.kind == "removal-edge" and x.info["node"] == node and x.info["seq"] is st.info["seq"]]
            has_parent = any(x.t == node for x in group)
            loose = [x for x in group if x.s == node and not x.info["reconnected"]]
            need = len(loose) if has_parent else max(len(loose) - 1, 0)
            updated = [x for x in loose if find(x.t, x.relabels_before + x.relabels_after)[0] is not None]
            shape = f"{'parent side + ' if has_parent else ''}{len(loose)} detached child subtree(s)"
            lbl = f"removal of {strip(node)[:30]}"
            if need == 0:
                R.ok("R05.1", f, ev.where(), f"{lbl}: {shape}: at most one component remains", via="path-shape")
            else:
                # the key does not depend on how many children the path happens to have (loop unrolling)
                R.check(len(updated) >= need, "R05.1", f, loose[0].ev.where(),
                        f"{lbl}: every additional component left behind gets a lineage of its own",
                        f"{shape}: {need} detached subtree(s) need a fresh lineage id, {len(updated)} get one: several components share one id",
                        via="path-shape", path=path)
        elif st.kind == "splice-in":
            an = st.info["addnode"]
            if an is None:
                continue
            seq = st.info["seq"]
            provided = any(e.kind == "cond" for e in ())  # conds are not in this sequence; see below
            X, val = attr_value(an, LKEY)
            nbr_terms = {x.s for x in steps if x.kind == "splice-in" and x.info.get("addnode") is an and x.s != st.info["new"]} | {
                x.t for x in steps if x.kind == "splice-in" and x.info.get("addnode") is an and x.t != st.info["new"]
            }
            if val is None:
                R.ok("R05.3", f, an.where(), f"{label}: lineage of the new node is the caller's (or the feature is off)", via="dataflow")
            else:
                p = parse_call_term(val)
                ok = bool(p and p[0] == "lid" and p[1][0] in nbr_terms)
                R.check(ok, "R05.3", f, an.where(), f"{label}: new node adopts the lineage of a node it is linked to",
                        f"lineage written is {strip(val)} but the node is linked to {sorted(strip(x)[:40] for x in nbr_terms)}", via="dataflow", path=path)
        elif st.kind in ("splice-cut", "reconnect"):
            R.ok("R05.1", f, ev.where(), f"{label}: connectivity unchanged by the splice", via="path-shape")
        else:
            R.fail("R05.1", f, ev.where(), f"{label}: structural edit matches no known shape", str(st.info["dout_s"]), path=path)

    # R05.3 for isolated new nodes: fresh lineage
    for c in A.user_actions:
        f = A.init_of(c)
        _, results = A.run(f)
        for pr in results:
            if pr.kind == "raise":
                continue
            keep = lambda e: (e.kind == "construct" and e.xdepth == 0 and e.name in roles["node+"]) or (e.kind == "mut" and e.name == "add_edge" and e.depth <= 2)  # noqa: E731
            for seq in pr.sequences(keep, extra=lambda e: tuple(sorted(x for x in e.pre["facts"] if x[0] == "item")) if e.kind == "construct" and e.pre else None):
                adds = [e for e in seq if e.kind == "construct"]
                edges = [e for e in seq if e.kind == "mut"]
                for an in adds:
                    node = an.args.get("node")
                    if any(node in (e.args["source"], e.args["target"]) for e in edges):
                        continue
                    X, val = attr_value(an, LKEY)
                    if val is None:
                        continue
                    R.check(val.startswith("fresh_lid@"), "R05.3", f, an.where(), "an unlinked new node gets a fresh lineage id",
                            f"lineage written is {strip(val)}", via="dataflow")
    id_truthiness(P, R, "R05.4")
    walk_completeness(P, R, "R05.5")
    bulk_write_arity(P, R, "R05.6")
    # R05.7 a "fresh" lineage id is fresh: the maximum behind get_next_lineage_id never goes down
    from .c06 import families, monotone_maxima

    ta = P.class_named("TrackAnnotator")
    monotone_maxima(P, R, ta, families(P, ta), "R05.7", only_key="lineage", floor=1)
    # R05.8 the lookups the splice / bridge steps read lose no member: a stale per-track list makes UserDeleteNode skip the
    # bridge, and the two halves of the track keep one lineage id (shared with C06 / C04)
    from .c06 import no_wholesale_replace
    from .neighbours import nearest_neighbour

    no_wholesale_replace(P, R, ta, families(P, ta), rule="R05.8")
    nearest_neighbour(P, R, "R05.8")
    # ---- R02.6 (shared): every top-level action is one history step and a nested one none - a stray step makes a later
    # undo / redo replay half an edit, which is a state this property quantifies over ("after every ... undo or redo")
    from . import c02 as _c02r

    _c02r.history_shape(P, R)
    _c02r.registration(P, R, tier, A=A, facade=False)
    # ---- R05.9 the annotator maintains the attribute the queries read (key names threaded from the feature dictionary)
    from .annot import keys_threaded

    keys_threaded(P, R, "R05.9", only=('lineage',))


ID_SOURCES = ("get_track_neighbors", "get_lineage_id", "get_track_id", "get_next_track_id", "get_next_lineage_id")


def id_truthiness(P: Program, R: Report, rule: str, modules: tuple[str, ...] = ("user_actions", "actions", "annotators", "data_model")) -> None:
    """Values that denote node / track / lineage ids must be compared with `is None`,
    never by truthiness: 0 is a legal id (imported data, node id 0)."""
    n = 0
    for fn in P.functions.values():
        if fn.parent is not None or not any(f".{m}." in fn.qname for m in modules):
            continue
        ids: set[str] = set()
        # locals that hold optional ids
        for node in ast.walk(fn.node):
            if isinstance(node, ast.Assign):
                v = node.value
                src = norm(v)
                is_id = any(f".{s}(" in src for s in ID_SOURCES) or (
                    isinstance(v, ast.Call) and norm(v.func) == "next" and ("predecessors(" in src or "successors(" in src)
                ) or (isinstance(v, ast.Attribute) and v.attr in ("new_lineage_id", "old_lineage_id", "new_tracklet_id", "old_tracklet_id", "start_node", "node"))
                if is_id:
                    for t in node.targets:
                        for x in ast.walk(t):
                            if isinstance(x, ast.Name):
                                ids.add(x.id)
        a = fn.node.args
        for p in a.posonlyargs + a.args + a.kwonlyargs:
            ann = norm(p.annotation) if p.annotation is not None else ""
            if ("int | None" in ann or "Node | None" in ann) and ("id" in p.arg or "node" in p.arg):
                ids.add(p.arg)
        def is_id_expr(e):
            if isinstance(e, ast.Name) and e.id in ids:
                return True
            if isinstance(e, ast.Call):
                src = norm(e)
                if norm(e.func) == "next" and ("predecessors(" in src or "successors(" in src):
                    return True
                if any(src.endswith(")") and f".{s_}(" in src and norm(e.func).endswith(s_) for s_ in ID_SOURCES):
                    return True
            return False

        for node in ast.walk(fn.node):
            bad = None
            if isinstance(node, (ast.If, ast.While, ast.IfExp, ast.Assert)):
                t = node.test
                leaves = [t]
                while leaves:
                    x = leaves.pop()
                    if isinstance(x, ast.BoolOp):
                        leaves.extend(x.values)
                    elif isinstance(x, ast.UnaryOp) and isinstance(x.op, ast.Not):
                        leaves.append(x.operand)
                    elif is_id_expr(x):
                        bad = x
            elif isinstance(node, ast.BoolOp) and any(is_id_expr(v) for v in node.values[:-1] if isinstance(node.op, ast.Or)) :
                bad = next(v for v in node.values if is_id_expr(v))
            elif isinstance(node, ast.BoolOp) and isinstance(node.op, ast.And) and any(is_id_expr(v) for v in node.values):
                bad = next(v for v in node.values if is_id_expr(v))
            elif isinstance(node, ast.Call) and norm(node.func) == "bool" and node.args and is_id_expr(node.args[0]):
                bad = node.args[0]
            if bad is not None:
                n += 1
                R.fail(rule, fn, bad, f"optional id `{norm(bad)[:50]}` tested by truthiness in {fn.short}",
                       "an id of 0 is treated like 'no id': compare with `is None`")
        R.ok(rule, fn, fn.node, f"{fn.short}: {len(ids)} id-valued local(s), none tested by truthiness", via="lint") if ids and not any(
            o.rule == rule and o.func == fn.short and o.status == "violated" for o in R.obligations
        ) else None


def walk_completeness(P: Program, R: Report, rule: str) -> None:
    """The downstream walk that rewrites lineage ids visits every descendant: inside the
    worklist loops nothing can leave early, successors are enqueued unconditionally and the
    lineage write is gated only by loop-invariant flags."""
    anns = [c for c in P.annotators() if any("lineage_key" in norm(m.node) for m in c.methods.values())]
    n = 0
    for c in anns:
        for m in c.methods.values():
            loops = [x for x in ast.walk(m.node) if isinstance(x, (ast.While, ast.For))]
            for lp in loops:
                writes = [
                    s for s in ast.walk(lp)
                    if isinstance(s, ast.Call) and isinstance(s.func, ast.Attribute) and s.func.attr in ("_set_node_attr", "_set_nodes_attr")
                    and len(s.args) >= 2 and "lineage_key" in norm(s.args[1])
                ]
                enq = [
                    s for s in ast.walk(lp)
                    if isinstance(s, ast.Call) and isinstance(s.func, ast.Attribute) and s.func.attr in ("extend", "append")
                    and s.args and "successors(" in norm(s.args[0])
                ]
                if not writes or not enq:
                    continue
                # outermost loop containing both
                if any(lp is not o and lp in list(ast.walk(o)) for o in loops if any(w in list(ast.walk(o)) for w in writes)):
                    continue
                n += 1
                assigned = {x.id for s in ast.walk(lp) for x in ast.walk(s) if isinstance(x, ast.Name) and isinstance(x.ctx, ast.Store)}
                assigned -= {x.id for x in ast.walk(lp.target) if isinstance(x, ast.Name)} if isinstance(lp, ast.For) else set()
                from ..cfg import build_cfg

                cfg = build_cfg(m.node)

                def stmt_of(call):
                    """CFG node of the statement containing `call` (or of the enclosing `if` header for guarded writes)"""
                    best = None
                    for nn in cfg.stmts():
                        if nn.ast is not None and nn.kind in ("stmt",) and any(x is call for x in ast.walk(nn.ast)):
                            best = nn.id
                    return best

                def gate_of(call):
                    """outermost loop-invariant `if` around the call inside the loop (its test node), else the statement"""
                    node = stmt_of(call)
                    for nn in cfg.stmts():
                        if nn.kind == "test" and isinstance(nn.ast, ast.If) and any(x is call for x in ast.walk(nn.ast)) and any(nn.ast is y for y in ast.walk(lp)):
                            names = {x.id for x in ast.walk(nn.ast.test) if isinstance(x, ast.Name)}
                            if not names & assigned:
                                return nn.id
                    return node

                hard = [s for s in ast.walk(lp) if isinstance(s, (ast.Break, ast.Return))]
                R.check(not hard, rule, m, hard[0] if hard else lp, f"{m.short}: the downstream walk never stops early (no break / return)",
                        f"`{norm(hard[0]) if hard else ''}` inside the walk: descendants behind it keep a stale lineage id", via="loop-shape")
                for cont in [s for s in ast.walk(lp) if isinstance(s, ast.Continue)]:
                    cn = cfg.node_of(cont)
                    need = [gate_of(x) for x in writes + enq]
                    ok = cn is not None and all(g is not None and cfg.dominates(g, cn) for g in need)
                    R.check(ok, rule, m, cont, f"{m.short}: `continue` is reached only after the lineage write and the enqueueing of successors",
                            "a node can be skipped before its lineage is written or its successors are enqueued", via="cfg-dominance")

                def guards(target):
                    out = []

                    def rec(node, stack):
                        if node is target:
                            out.extend(stack)
                            return True
                        for ch in ast.iter_child_nodes(node):
                            st = stack + [node.test] if isinstance(node, (ast.If, ast.While)) and ch in getattr(node, "body", []) else (
                                stack + [ast.UnaryOp(ast.Not(), node.test)] if isinstance(node, ast.If) and ch in node.orelse else stack)
                            if rec(ch, st):
                                return True
                        return False

                    for b in lp.body:
                        if rec(b, []):
                            break
                    return out

                for w in writes:
                    g = guards(w)
                    variant = [x.id for t in g for x in ast.walk(t) if isinstance(x, ast.Name) and x.id in assigned]
                    R.check(not variant, rule, m, w, f"{m.short}: the lineage write is gated only by loop-invariant flags",
                            f"gated by {sorted(set(variant))}, which change during the walk", via="loop-shape")
                for q in enq:
                    g = guards(q)
                    variant = [x.id for t in g for x in ast.walk(t) if isinstance(x, ast.Name) and x.id in assigned]
                    R.check(not g or not variant, rule, m, q, f"{m.short}: successors are enqueued for every visited node",
                            f"enqueueing is conditional on {sorted(set(variant))}: part of the subtree is never visited", via="loop-shape")
    R.floor(rule, "lineage walks", n, 1)


def bulk_write_arity(P: Program, R: Report, rule: str) -> None:
    """`_set_nodes_attr(nodes, key, values)` pairs nodes with values positionally and silently stops at the shorter
    one.  When the values are built from a length (`[v] * len(X)`) or by mapping a collection (`[.. for n in X]`),
    X has to be the very collection passed as `nodes` - otherwise some nodes keep their old value."""
    from ..resolve import Resolver

    n = 0
    for fn in P.functions.values():
        if fn.parent is not None or not any(f".{m}." in fn.qname for m in ("annotators", "data_model", "actions", "user_actions")):
            continue
        rs = None
        for c in ast.walk(fn.node):
            if not (isinstance(c, ast.Call) and isinstance(c.func, ast.Attribute) and c.func.attr in ("_set_nodes_attr", "_set_edges_attr") and len(c.args) >= 3):
                continue
            rs = rs or Resolver(P, fn)
            nodes, vals = c.args[0], c.args[2]
            v = rs.expand(vals)
            src = None
            if isinstance(v, ast.BinOp) and isinstance(v.op, ast.Mult):
                for side in (v.left, v.right):
                    if isinstance(side, ast.Call) and call_name(side) == "len" and side.args:
                        src = side.args[0]
            elif isinstance(v, (ast.ListComp, ast.GeneratorExp)) and len(v.generators) == 1:
                src = v.generators[0].iter
            elif isinstance(v, ast.Call) and call_name(v) in ("list", "tuple") and v.args and isinstance(v.args[0], (ast.ListComp, ast.GeneratorExp)):
                src = v.args[0].generators[0].iter
            if src is None:
                continue
            n += 1
            a, b = rs.text(nodes), rs.text(src)
            same = a == b or norm(nodes) == norm(src) or b in (f"list({a})", f"tuple({a})") or a in (f"list({b})", f"tuple({b})")
            R.check(same, rule, fn, c, f"{fn.short}: bulk write pairs `{norm(nodes)[:30]}` with one value per element of the same collection",
                    f"values are built from `{norm(src)[:40]}` but written to `{norm(nodes)[:40]}`: the pairing stops at the shorter one and the remaining nodes keep their old value")
    R.floor(rule, "bulk writes with derived value lists", n, 1)
