"""Labels are names, not numbers.

In the IoU kernels the label images keep the dtype the user's segmentation has (uint8 / uint16 are common).  The
kernels may compare labels, index with them, count them - every such use is exact in any integer dtype.  Arithmetic
on label VALUES (encoding a pair as a * K + b, shifting, adding offsets) is exact only while the result fits the
array's dtype; numpy wraps silently, two different pairs then share a code and their overlap counts are merged.

rule: inside the kernel no arithmetic operator has a label-valued operand, unless that operand was widened first
      (`.astype(np.int64 | np.uint64 | int | np.intp)` or `np.int64(..)`), which makes the encoding exact for every
      label an image can hold.

label-valued = the array parameters; what indexing / masking / flattening / stacking / np.unique (first result) /
min / max of a label-valued thing gives.  Counts (return_counts), boolean masks and sizes are not label-valued.
"""

from __future__ import annotations

import ast

from ..model import FuncInfo, Program, call_name, norm
from ..report import Report

PRESERVING_METHODS = {"flatten", "ravel", "reshape", "copy", "max", "min", "squeeze", "view", "transpose", "T", "item", "tolist"}
PRESERVING_FUNCS = {"array", "asarray", "stack", "vstack", "hstack", "concatenate", "ravel", "max", "min", "amax", "amin", "where", "take", "compress", "extract"}
WIDE = ("int64", "uint64", "intp", "np.int64", "np.uint64", "np.intp", "numpy.int64", "numpy.uint64", "np.float64", "float64")
PYINT = ("int", "float")  # python scalars: exact on their own, but WEAK next to a numpy array (the array's dtype wins)
ARITH = (ast.Add, ast.Sub, ast.Mult, ast.LShift, ast.RShift, ast.BitOr, ast.BitXor, ast.Pow, ast.FloorDiv, ast.Mod, ast.MatMult)


def labels_are_names(P: Program, R: Report, f: FuncInfo, rule: str, label_params: list[str] | None = None) -> None:
    fn = f.node
    params = label_params if label_params is not None else [p for p in f.params if p not in ("self", "cls")]
    labels: set[str] = set(params)
    wide: set[str] = set()
    pyint: set[str] = set()

    def is_wide(e: ast.AST) -> bool:
        """numpy-wide (64 bit): wins the promotion against any narrower operand"""
        if isinstance(e, ast.Name):
            return e.id in wide
        if isinstance(e, ast.Call):
            if isinstance(e.func, ast.Attribute) and e.func.attr == "astype" and e.args and norm(e.args[0]).strip("'\"") in WIDE + PYINT:
                return True
            if norm(e.func) in WIDE:
                return True
            if any(k.arg == "dtype" and norm(k.value).strip("'\"") in WIDE + PYINT for k in e.keywords) and call_name(e) in PRESERVING_FUNCS:
                return True
            if isinstance(e.func, ast.Attribute) and e.func.attr in PRESERVING_METHODS:
                return is_wide(e.func.value)
        if isinstance(e, ast.Subscript):
            return is_wide(e.value)
        if isinstance(e, ast.BinOp):
            return is_wide(e.left) or is_wide(e.right)
        return False

    def is_pyint(e: ast.AST) -> bool:
        """a python scalar: arbitrary precision among python scalars"""
        if isinstance(e, ast.Constant):
            return True
        if isinstance(e, ast.Name):
            return e.id in pyint
        if isinstance(e, ast.Call) and norm(e.func) in PYINT:
            return True
        if isinstance(e, ast.Call) and isinstance(e.func, ast.Attribute) and e.func.attr in ("item", "tolist") :
            return True
        if isinstance(e, ast.BinOp):
            return is_pyint(e.left) and is_pyint(e.right)
        return False

    def is_label(e: ast.AST) -> bool:
        if isinstance(e, ast.Name):
            return e.id in labels
        if isinstance(e, ast.Subscript):
            return is_label(e.value)
        if isinstance(e, ast.Attribute) and e.attr in ("T",):
            return is_label(e.value)
        if isinstance(e, (ast.List, ast.Tuple)):
            return any(is_label(x) for x in e.elts)
        if isinstance(e, ast.Call):
            nm = call_name(e)
            if isinstance(e.func, ast.Attribute) and e.func.attr in PRESERVING_METHODS | {"astype"} and is_label(e.func.value):
                return True
            if nm in PRESERVING_FUNCS and any(is_label(a) for a in e.args):
                return True
            if nm == "unique" and e.args and is_label(e.args[0]):
                return True  # the tuple's first component; handled at the assignment
            if norm(e.func) in WIDE + PYINT and e.args and is_label(e.args[0]):
                return True
        if isinstance(e, ast.BinOp):
            return is_label(e.left) or is_label(e.right)
        if isinstance(e, ast.IfExp):
            return is_label(e.body) or is_label(e.orelse)
        return False

    # propagate through assignments to a fixed point (flow-insensitive: once a label, always a label)
    changed = True
    while changed:
        changed = False
        for s in ast.walk(fn):
            if not isinstance(s, ast.Assign) or len(s.targets) != 1:
                continue
            t, v = s.targets[0], s.value
            new_l: list[str] = []
            new_w: list[str] = []
            if isinstance(t, ast.Name):
                if is_label(v):
                    new_l.append(t.id)
                    if is_wide(v):
                        new_w.append(t.id)
                    if is_pyint(v) and t.id not in pyint:
                        pyint.add(t.id)
                        changed = True
            elif isinstance(t, ast.Tuple) and all(isinstance(x, ast.Name) for x in t.elts):
                if isinstance(v, ast.Call) and call_name(v) == "unique" and v.args and is_label(v.args[0]):
                    new_l.append(t.elts[0].id)  # values; the other results are indices / counts
                    if is_wide(v.args[0]):
                        new_w.append(t.elts[0].id)
                elif isinstance(v, ast.Tuple) and len(v.elts) == len(t.elts):
                    for a, b in zip(t.elts, v.elts, strict=True):
                        if is_label(b):
                            new_l.append(a.id)
                            if is_wide(b):
                                new_w.append(a.id)
                elif is_label(v):
                    new_l += [x.id for x in t.elts]
                    if is_wide(v):
                        new_w += [x.id for x in t.elts]
            for nm in new_l:
                if nm not in labels:
                    labels.add(nm)
                    changed = True
            for nm in new_w:
                if nm not in wide:
                    wide.add(nm)
                    changed = True
        # a name assigned both a narrow and a wide value is not wide
        for s in ast.walk(fn):
            if isinstance(s, ast.Assign) and len(s.targets) == 1 and isinstance(s.targets[0], ast.Name) and s.targets[0].id in wide and is_label(s.value) and not is_wide(s.value):
                wide.discard(s.targets[0].id)
        for s in ast.walk(fn):
            if isinstance(s, ast.For) and is_label(s.iter):
                for x in ast.walk(s.target):
                    if isinstance(x, ast.Name) and x.id not in labels:
                        labels.add(x.id)
                        changed = True

    n_bad = 0
    for s in ast.walk(fn):
        ops = []
        if isinstance(s, ast.BinOp) and isinstance(s.op, ARITH):
            ops = [s.left, s.right]
        elif isinstance(s, ast.AugAssign) and isinstance(s.op, ARITH):
            ops = [s.target, s.value]
        elif isinstance(s, ast.Call) and call_name(s) in ("multiply", "add", "left_shift", "ravel_multi_index", "bitwise_or", "dot", "cumsum", "prod"):
            ops = list(s.args)
        lab = [o for o in ops if is_label(o)]
        if not lab:
            continue
        # numpy promotes to the widest ARRAY operand; python scalars are exact only among themselves
        safe = any(is_wide(o) for o in ops) or all(is_pyint(o) for o in ops)
        narrow = [o for o in lab if not is_wide(o)]
        if narrow and not safe:
            n_bad += 1
            R.fail(rule, f, s, f"{f.short}: label values are compared, indexed and counted, never computed with (in the image's own dtype)",
                   f"`{norm(s)[:80]}` does arithmetic on the label-valued `{norm(narrow[0])[:30]}` without widening it: in a uint8 / uint16 label image the result "
                   "wraps, different label pairs collide and their overlaps are merged or lost")
    if not n_bad:
        R.ok(rule, f, fn, f"{f.short}: {len(labels)} label-valued name(s), none is an operand of (un-widened) arithmetic", f"label-valued: {sorted(labels)}", via="taint")
