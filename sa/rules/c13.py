"""C13 - relabelling on import moves each mask to its node id pixel-exactly (mechanism).

R13.1 fresh destination, source-only reads in relabel_segmentation (mappings cannot chain);
      followed through helper functions the frames are handed to
R13.2 the frame read and the frame written are the same time point
R13.3 joint offset: graph relabel and id-array shift under the same condition, same amount
R13.4 relabelling is skipped only when seg ids and node ids agree position by position
"""

from __future__ import annotations

import ast

from ..model import AnalysisError, FuncInfo, Program, call_name, norm
from ..report import Report
from ..resolve import Resolver
from .util import guards_of


def root_and_index(e: ast.expr):
    """x[i][j] -> ('x', ['i','j']);  x -> ('x', [])"""
    idx = []
    while isinstance(e, ast.Subscript):
        idx.insert(0, norm(e.slice))
        e = e.value
    return (e.id if isinstance(e, ast.Name) else None), idx


class Frames:
    """Which names denote (views of) the destination / the source array, in the relabel function
    and in module-level helpers that receive such views."""

    def __init__(self, P: Program, f: FuncInfo, dest: str, src: str):
        self.P = P
        self.roles: dict[tuple[str, str], tuple[str, list[str]]] = {}  # (func qname, name) -> (role, index path)
        self.roles[(f.qname, dest)] = ("dest", [])
        self.roles[(f.qname, src)] = ("src", [])
        self.funcs = [f]
        self._propagate(f)

    def role(self, f: FuncInfo, e: ast.expr):
        name, idx = root_and_index(e)
        r = self.roles.get((f.qname, name)) if name else None
        if r is None:
            return None
        return r[0], r[1] + idx

    def _propagate(self, f: FuncInfo, depth: int = 0) -> None:
        if depth > 3:
            return
        # local aliases:  frame = dest[t]
        for _ in range(2):
            for s in ast.walk(f.node):
                if isinstance(s, ast.Assign) and len(s.targets) == 1 and isinstance(s.targets[0], ast.Name):
                    r = self.role(f, s.value) if isinstance(s.value, (ast.Name, ast.Subscript)) else None
                    if r is not None:
                        self.roles.setdefault((f.qname, s.targets[0].id), r)
        for c in ast.walk(f.node):
            if not (isinstance(c, ast.Call) and isinstance(c.func, ast.Name)):
                continue
            q = self.P.resolve_name(f.module, c.func.id)
            callee = self.P.functions.get(q) if q else None
            if callee is None or callee is f or callee in self.funcs:
                continue
            bound = {}
            for p, a in zip(callee.params, c.args, strict=False):
                bound[p] = a
            for k in c.keywords:
                if k.arg:
                    bound[k.arg] = k.value
            hit = False
            for p, a in bound.items():
                r = self.role(f, a) if isinstance(a, (ast.Name, ast.Subscript)) else None
                if r is not None:
                    self.roles[(callee.qname, p)] = r
                    hit = True
            if hit:
                self.funcs.append(callee)
                self._propagate(callee, depth + 1)


def run(P: Program, R: Report, tier: str) -> None:
    R.explanation = (
        "Alias-aware fresh-destination / source-only-read analysis of relabel_segmentation and the "
        "helpers it hands frames to, agreement of the time index read and written, pairing of the "
        "graph relabel with the id shift, and the path condition under which relabelling is skipped."
    )
    R.decides += [
        "masks are read from the original array and written into a fresh zero array at the same time point, so label->id mappings cannot chain and unlisted labels vanish",
        "when id 0 forces a shift, graph and id array shift together; relabelling is skipped only when seg ids equal node ids position by position",
    ]
    R.decides += ['the relabelled array is never cast back to a narrow dtype; a loaded seg-id property is not dropped before the relabel decision']
    R.not_decided += ["pixel equality of the result (runtime values)"]
    f = P.func_named("relabel_segmentation")

    def fresh_destination_rules():
        f = P.func_named("relabel_segmentation")
        rets = [s for s in ast.walk(f.node) if isinstance(s, ast.Return) and isinstance(s.value, ast.Name)]
        if not rets:
            raise AnalysisError("relabel_segmentation: no named array is returned")
        dest = rets[-1].value.id
        zdef = [s for s in ast.walk(f.node) if isinstance(s, ast.Assign) and norm(s.targets[0]) == dest]
        fresh = [z for z in zdef if "zeros_like(" in norm(z.value) or "np.zeros(" in norm(z.value)]
        R.check(len(zdef) == 1 and len(fresh) == 1, "R13.1", f, zdef[0] if zdef else f.node, f"the returned array `{dest}` is created zero-filled (fresh destination)",
                f"`{dest}` is defined by `{norm(zdef[0].value)[:80] if zdef else '?'}`: labels that are not rewritten survive and rewrites can chain", via="fresh-destination")
        if not fresh:
            return
        src = None
        for c in ast.walk(fresh[0].value):
            if isinstance(c, ast.Call) and call_name(c) == "zeros_like" and c.args and isinstance(c.args[0], ast.Name):
                src = c.args[0].id
        if src is None:
            R.undecided("R13.1", f, fresh[0], "the source array is the argument of zeros_like", "shape not recognised")
            return
        fr = Frames(P, f, dest, src)
        n_w = 0
        for g in fr.funcs:
            for s in ast.walk(g.node):
                tgts = s.targets if isinstance(s, ast.Assign) else ([s.target] if isinstance(s, ast.AugAssign) else [])
                for t in tgts:
                    if not isinstance(t, ast.Subscript):
                        continue
                    base = fr.role(g, t.value)
                    if base is None or base[0] != "dest":
                        if base is not None and base[0] == "src":
                            R.fail("R13.1", g, s, "the source array is never written", f"`{norm(s)[:80]}` writes the source array")
                        continue
                    n_w += 1
                    mask = t.slice
                    rs = Resolver(P, g)
                    mexp = rs.expand(mask)
                    reads = []
                    for tree in (mask, mexp):
                        inner = {id(x.value) for x in ast.walk(tree) if isinstance(x, ast.Subscript)}
                        reads += [fr.role(g, x) for x in ast.walk(tree) if isinstance(x, (ast.Subscript, ast.Name)) and id(x) not in inner]
                    reads = [r for r in reads if r is not None]
                    bad = [r for r in reads if r[0] == "dest"]
                    R.check(not bad and bool(reads), "R13.1", g, s, f"{g.short}: a mask written into the destination is computed from the source array only",
                            f"`{norm(s)[:90]}`: the mask reads " + ("the destination (already rewritten labels can be rewritten again)" if bad else "neither array"),
                            via="provenance")
                    for r in reads:
                        if r[0] == "src":
                            R.check(r[1][:1] == base[1][:1] and len(base[1]) >= 1, "R13.2", g, s, f"{g.short}: the frame read and the frame written are the same time point",
                                    f"reads frame {r[1][:1]} of the source, writes frame {base[1][:1]} of the destination", via="provenance")
                    if isinstance(s, ast.AugAssign):
                        R.fail("R13.1", g, s, "the destination is only assigned, never updated in place from its own content", norm(s)[:80])
            # reads of the destination other than as a store base / call argument / return value
            for n in ast.walk(g.node):
                if isinstance(n, ast.Name) and isinstance(n.ctx, ast.Load) and fr.roles.get((g.qname, n.id), ("", []))[0] == "dest":
                    ok = False
                    for s in ast.walk(g.node):
                        if isinstance(s, ast.Return) and s.value is n:
                            ok = True
                        if isinstance(s, ast.Assign):
                            for t in s.targets:
                                x = t
                                while isinstance(x, ast.Subscript):
                                    x = x.value
                                if x is n and isinstance(t, ast.Subscript):
                                    ok = True
                            if isinstance(s.targets[0], ast.Name) and (s.value is n or (isinstance(s.value, ast.Subscript) and root_and_index(s.value)[0] == n.id)) and fr.roles.get((g.qname, s.targets[0].id), ("", []))[0] == "dest":
                                ok = True
                        if isinstance(s, ast.Call) and any((a is n) or (isinstance(a, ast.Subscript) and any(y is n for y in ast.walk(a))) for a in list(s.args) + [k.value for k in s.keywords]):
                            q = P.resolve_name(g.module, s.func.id) if isinstance(s.func, ast.Name) else None
                            if q in P.functions and P.functions[q] in fr.funcs:
                                ok = True
                            # numpy writers whose first argument is the array written
                            if call_name(s) in ("copyto", "putmask", "place", "put") and s.args and (s.args[0] is n or any(y is n for y in ast.walk(s.args[0]))):
                                ok = True
                        # metadata of the destination (dtype / shape) says nothing about its content
                        if isinstance(s, ast.Attribute) and s.value is n and s.attr in ("dtype", "shape", "ndim", "size"):
                            ok = True
                    R.check(ok, "R13.1", g, n, f"{g.short}: the destination is only written, handed on or returned - never read",
                            f"`{n.id}` is read at line {n.lineno}", via="fresh-destination")
        if n_w == 0:
            for g in fr.funcs:
                for c_ in ast.walk(g.node):
                    if isinstance(c_, ast.Call) and call_name(c_) in ("copyto", "putmask", "place") and c_.args:
                        base = fr.role(g, c_.args[0])
                        if base is not None and base[0] == "dest":
                            n_w += 1
                            R.undecided("R13.1", g, c_, f"{g.short}: what is written into the destination is computed from the source array only",
                                        f"written through `{norm(c_)[:70]}`: not followed")
        R.floor("R13.1", "mask writes", n_w, 1)
        # time points come from the nodes' time values, one boolean mask selects from both id arrays
        loops = [lp for lp in ast.walk(f.node) if isinstance(lp, ast.For) and "time_values" in norm(lp.iter)]
        R.check(len(loops) == 1, "R13.2", f, loops[0] if loops else f.node, "relabel_segmentation loops over the time points of the nodes", "", via="syntax")
        for lp in loops:
            tv = lp.target.id if isinstance(lp.target, ast.Name) else "?"
            masks = [s for s in ast.walk(lp) if isinstance(s, ast.Assign) and norm(s.value) == f"time_values == {tv}"]
            if len(masks) != 1:
                R.undecided("R13.2", f, lp, "one boolean time mask selects the nodes of the time point", "shape not recognised")
                continue
            m = norm(masks[0].targets[0])
            used = {norm(x.value) for x in ast.walk(lp) if isinstance(x, ast.Subscript) and norm(x.slice) == m}
            R.check({"seg_ids", "node_ids"} <= used, "R13.2", f, lp, "one boolean time mask selects from both the seg-id and the node-id array",
                    f"arrays selected with `{m}`: {sorted(used)}", via="provenance")

    fresh_destination_rules()
    # ---- R13.3 joint offset (in relabel_segmentation or in a helper that receives the graph and the id array)
    joint_offset(P, R, f)
    # ---- R13.4 shortcut
    shortcut_condition(P, R)
    # ---- R13.5 each frame is relabelled with a mapping built for THAT frame only
    frame_local_lookup(P, R, P.func_named("relabel_segmentation"), "R13.5")
    # ---- R13.6 the frames of a per-file segmentation are read in time order
    frames_in_numeric_order(P, R, "R13.6")
    relabelled_stays_wide(P, R, "R13.7")
    seg_id_survives_validation(P, R, "R13.8")


def frame_local_lookup(P: Program, R: Report, f: FuncInfo, rule: str) -> None:
    """Label values may repeat across frames (per-frame labelling).  Whatever table translates seg ids to node ids
    inside the frame loop therefore has to be created inside the iteration: a table created before the loop and only
    filled per frame still holds the entries of earlier frames, and a label that is unlisted in this frame but was
    listed in an earlier one is painted with the earlier node's id instead of becoming background."""
    rets = {norm(r.value) for r in ast.walk(f.node) if isinstance(r, ast.Return) and r.value is not None}
    loops = [lp for lp in f.node.body if isinstance(lp, ast.For)] or [lp for lp in ast.walk(f.node) if isinstance(lp, ast.For)]
    n = 0
    # aliases of (parts of) the returned array
    dest_names = {r.strip() for r in rets}
    for s_ in ast.walk(f.node):
        if isinstance(s_, ast.Assign) and any(isinstance(x, ast.Name) and x.id in dest_names for x in ast.walk(s_.value)) and isinstance(s_.value, (ast.Subscript, ast.Name)):
            dest_names |= {t.id for t in s_.targets if isinstance(t, ast.Name)}
    for lp in loops:
        # only loops in which frames of the result are produced
        if not any(isinstance(x, ast.Name) and x.id in dest_names for x in ast.walk(lp)):
            continue
        inplace: dict[str, ast.AST] = {}
        rebound: set[str] = set()
        for s in ast.walk(lp):
            if isinstance(s, (ast.Assign, ast.AugAssign)):
                for t in (s.targets if isinstance(s, ast.Assign) else [s.target]):
                    if isinstance(t, ast.Subscript):
                        r0 = t
                        while isinstance(r0, ast.Subscript):
                            r0 = r0.value
                        if isinstance(r0, ast.Name):
                            inplace.setdefault(r0.id, s)
                    elif isinstance(t, ast.Name) and isinstance(s, ast.Assign):
                        rebound.add(t.id)
                    elif isinstance(t, ast.Tuple):
                        rebound |= {x.id for x in t.elts if isinstance(x, ast.Name)}
            if isinstance(s, ast.Call) and isinstance(s.func, ast.Attribute) and isinstance(s.func.value, ast.Name) and s.func.attr in ("update", "setdefault", "append", "extend", "add", "__setitem__"):
                inplace.setdefault(s.func.value.id, s)
        for name, site in sorted(inplace.items()):
            if name in rets or name in rebound:
                continue  # the destination array / a table made afresh in the iteration
            # is it read inside the loop (used to produce this frame's output)?
            reads = [x for x in ast.walk(lp) if isinstance(x, ast.Name) and x.id == name and isinstance(x.ctx, ast.Load)]
            stores_only = all(any(x is (t.value if isinstance(t, ast.Subscript) else None) for s in ast.walk(lp) if isinstance(s, (ast.Assign, ast.AugAssign))
                                  for t in (s.targets if isinstance(s, ast.Assign) else [s.target])) for x in reads)
            n += 1
            cleared = any(isinstance(c, ast.Call) and isinstance(c.func, ast.Attribute) and norm(c.func.value) == name and c.func.attr in ("clear", "fill") for c in ast.walk(lp))
            R.check(stores_only or cleared, rule, f, site, f"{f.short}: `{name}` filled inside the frame loop is created (or emptied) inside the iteration",
                    f"`{name}` is created before the loop, filled by `{norm(site)[:60]}` in every iteration and read in the same loop: entries of earlier frames survive, "
                    "so a label that repeats in a later frame without a node there is painted with the earlier node's id", via="loop-carried-state")
    if n == 0:
        R.ok(rule, f, f.node, f"{f.short}: no table that outlives an iteration is filled inside the frame loop", via="loop-carried-state")


def joint_offset(P: Program, R: Report, f: FuncInfo) -> None:
    """If node id 0 forces a shift, the graph's node names and the id array move together, by the same amount, under
    the same condition; the caller's graph is relabelled in place."""
    holders = [f]
    for c in ast.walk(f.node):
        if isinstance(c, ast.Call) and isinstance(c.func, ast.Name):
            g = P.functions.get(P.resolve_name(f.module, c.func.id) or "")
            if g is not None and g not in holders:
                holders.append(g)
    holders = [g for g in holders if any(isinstance(c, ast.Call) and call_name(c) == "relabel_nodes" for c in ast.walk(g.node))]
    if not holders:
        R.fail("R13.3", f, f.node, "node id 0 is shifted off the background label in graph and id array together", "no relabel_nodes call found")
        return
    for g in holders:
        rs = Resolver(P, g)
        rel = [c for c in ast.walk(g.node) if isinstance(c, ast.Call) and call_name(c) == "relabel_nodes"]
        # statements that produce the shifted id array:  ids = ids + K   /   return ids + K
        shifts = [x for x in ast.walk(g.node) if isinstance(x, (ast.Assign, ast.Return)) and isinstance(x.value, ast.BinOp) and isinstance(x.value.op, ast.Add)
                  and isinstance(x.value.left, ast.Name) and "id" in x.value.left.id and not isinstance(x.value.right, (ast.Dict,))
                  and not any(isinstance(p_, (ast.DictComp,)) for p_ in ast.walk(x.value))]
        R.check(bool(shifts), "R13.3", g, rel[0], "graph relabel and id-array shift happen together",
                "relabel_nodes is present but the id array is not shifted: graph and segmentation would disagree about the ids", via="pairing")
        if not shifts:
            continue
        # same condition: the relabel and the shift have the same guards
        g_rel = sorted(x.replace(" ", "") for x in guards_of(g, _stmt_of(g, rel[0])))
        g_sh = sorted(x.replace(" ", "") for x in guards_of(g, shifts[0]))
        R.check(g_rel == g_sh, "R13.3", g, shifts[0], "graph relabel and id-array shift happen under the same condition",
                f"relabel under {g_rel}, shift under {g_sh}", via="pairing")
        cond_txt = " ".join(g_rel)
        zero_test = any(t in cond_txt for t in ("0in", "==0", "offset")) or not g_rel
        if zero_test and g_rel:
            R.ok("R13.3", g, rel[0], "the shift is made when node id 0 is present", cond_txt[:80], via="guard-shape")
        else:
            R.undecided("R13.3", g, rel[0], "the shift is made when node id 0 is present", f"condition `{cond_txt[:80]}` not recognised")
        k_arr = rs.text(shifts[0].value.right)
        adds = {rs.text(b_.right) for b_ in ast.walk(g.node) if isinstance(b_, ast.BinOp) and isinstance(b_.op, ast.Add) and b_ is not shifts[0].value
                and not (isinstance(b_.left, ast.Name) and b_.left is shifts[0].value.left)}
        adds = {a_ for a_ in adds if a_}
        if not adds:
            R.undecided("R13.3", g, rel[0], "the amount added to the graph node names", "shape not recognised")
        else:
            R.check(adds == {k_arr}, "R13.3", g, rel[0], f"graph names and id array are shifted by the same amount ({k_arr})",
                    f"graph names shifted by {sorted(adds)}, id array by {k_arr}", via="pairing")
        inplace = all(any(k.arg == "copy" and norm(k.value) == "False" for k in c.keywords) for c in rel)
        R.check(inplace, "R13.3", g, rel[0], "the caller's graph is relabelled in place", "", via="syntax")


def _stmt_of(g: FuncInfo, node: ast.AST):
    best = None
    for s_ in ast.walk(g.node):
        if isinstance(s_, ast.stmt) and not isinstance(s_, (ast.If, ast.For, ast.While, ast.With, ast.FunctionDef, ast.Try)) and any(x is node for x in ast.walk(s_)):
            best = s_
    return best or node


def shortcut_condition(P: Program, R: Report) -> None:
    h = P.func_named("handle_segmentation", "TracksBuilder")
    hr = Resolver(P, h)
    callee = P.func_named("relabel_segmentation")
    calls = [s for s in ast.walk(h.node) if isinstance(s, (ast.Assign, ast.Return)) and s.value is not None
             and any(isinstance(c, ast.Call) and call_name(c) == "relabel_segmentation" for c in ast.walk(s.value))]
    R.check(len(calls) == 1, "R13.4", h, h.node, "handle_segmentation relabels at one place", f"{len(calls)} call sites", via="syntax")
    for s in calls:
        c = next(c for c in ast.walk(s) if isinstance(c, ast.Call) and call_name(c) == "relabel_segmentation")
        bound = {}
        for p_, a_ in zip(callee.params, c.args, strict=False):
            bound[p_] = hr.text(a_)
        for k in c.keywords:
            if k.arg:
                bound[k.arg] = hr.text(k.value)
        t_node, t_seg, t_time = bound.get("node_ids", "?"), bound.get("seg_ids", "?"), bound.get("time_values", "?")
        R.check("node_ids" in t_node and ("seg_id" in t_seg or "SEG_KEY" in t_seg) and ("TIME" in t_time or "time" in t_time), "R13.4", h, c,
                "relabel_segmentation receives the loaded node ids, seg ids and times in the matching parameters",
                f"node_ids={t_node[:50]}, seg_ids={t_seg[:50]}, time_values={t_time[:50]}", via="dataflow")
        # path condition of the call
        eq_calls = []
        for gtxt in guards_of(h, s):
            try:
                ge = ast.parse(gtxt, mode="eval").body
            except SyntaxError:
                continue
            neg = isinstance(ge, ast.UnaryOp) and isinstance(ge.op, ast.Not)
            inner = ge.operand if neg else ge
            if isinstance(inner, ast.Name):
                # a boolean flag: `needs_relabel = False ... needs_relabel = not np.array_equal(..)`; constant definitions are the
                # skip cases, the computed one is the condition
                fdefs = [a.value for a in ast.walk(h.node) if isinstance(a, ast.Assign) and any(isinstance(t, ast.Name) and t.id == inner.id for t in a.targets)
                         and not isinstance(a.value, ast.Constant)]
                if len(fdefs) == 1:
                    d0 = fdefs[0]
                    dneg = isinstance(d0, ast.UnaryOp) and isinstance(d0.op, ast.Not)
                    neg = neg != dneg
                    inner = d0.operand if dneg else d0
                    neg_flag_root = True
            for x in ast.walk(inner):
                if isinstance(x, ast.Call) and call_name(x) == "array_equal" and len(x.args) == 2:
                    eq_calls.append((neg and x is inner, {hr.text(x.args[0]), hr.text(x.args[1])}))
            # the test may live in a predicate method of the builder: `if not self._needs_relabeling(): return ..`
            if isinstance(inner, ast.Call) and isinstance(inner.func, ast.Attribute) and norm(inner.func.value) == "self" and h.cls and not inner.args:
                pred = P.lookup_method(h.cls.qname, inner.func.attr)
                if pred is not None:
                    pr = Resolver(P, pred)
                    for r in ast.walk(pred.node):
                        if not (isinstance(r, ast.Return) and r.value is not None) or isinstance(r.value, ast.Constant):
                            continue
                        rneg = isinstance(r.value, ast.UnaryOp) and isinstance(r.value.op, ast.Not)
                        rin = r.value.operand if rneg else r.value
                        for x in ast.walk(rin):
                            if isinstance(x, ast.Call) and call_name(x) == "array_equal" and len(x.args) == 2:
                                # the relabel call runs when guard holds: guard = [not] pred(); pred = [not] array_equal
                                eq_calls.append(((neg != rneg) and x is rin, {pr.text(x.args[0]), pr.text(x.args[1])}))
        good = [e for e in eq_calls if e[0] and e[1] == {t_node, t_seg}]
        R.check(len(good) == 1 and len(eq_calls) == 1, "R13.4", h, s, "relabelling is skipped only when seg ids and node ids agree position by position",
                f"path condition of the relabel call involves {[sorted(e[1]) for e in eq_calls] or 'no array_equal test'} (negated: {[e[0] for e in eq_calls]}): "
                "a permuted assignment over the same values could skip relabelling", via="guard-shape")


def frames_in_numeric_order(P: Program, R: Report, rule: str) -> None:
    """A segmentation given as a folder with one image per time point is stacked in the order of the file listing.
    Plain string order puts frame_10 before frame_2, so every node from frame 2 on is relabelled from another frame's
    pixels.  The listing is sorted with a key that compares digit runs as numbers."""
    fns = [f for f in P.functions.values() if f.name == "magic_imread" and f.parent is None]
    if not fns:
        R.undecided(rule, "magic_imread", "", "per-frame image files are stacked in numeric order", "reader not found")
        return
    f = fns[0]
    n = 0
    for c in ast.walk(f.node):
        if not (isinstance(c, ast.Call) and call_name(c) in ("sorted", "sort")):
            continue
        src = norm(c.args[0]) if c.args else norm(c.func.value) if isinstance(c.func, ast.Attribute) else ""
        if "glob" not in src and "listdir" not in src and "iterdir" not in src and "dir_contents" not in src:
            continue
        n += 1
        key = next((k.value for k in c.keywords if k.arg == "key"), None)
        ok = None
        if key is None:
            ok = False
        elif isinstance(key, ast.Name):
            kf = P.functions.get(P.resolve_name(f.module, key.id) or "")
            if kf is not None:
                body = norm(kf.node)
                ok = "int(" in body and ("isdigit" in body or "re.split" in body or "findall" in body)
        elif isinstance(key, ast.Lambda):
            body = norm(key.body)
            ok = True if "int(" in body else None
        if ok is None:
            R.undecided(rule, f, c, "per-frame image files are stacked in numeric order", f"sort key `{norm(key)[:50]}` not recognised")
        else:
            R.check(ok, rule, f, c, "per-frame image files are stacked in numeric order",
                    f"`{norm(c)[:80]}` sorts the file names as plain strings: frame_10 comes before frame_2, the stack is out of time order and each node is "
                    "relabelled from the pixels of another frame", via="syntax")
    if n == 0:
        R.undecided(rule, f, f.node, "per-frame image files are stacked in numeric order", "no sorted directory listing found")


def relabelled_stays_wide(P: Program, R: Report, rule: str) -> None:
    """Node ids have nothing to do with the dtype of the label image: relabelling allocates a 64-bit array.  Between
    the relabelling and the tracks object nothing casts it to the caller's (possibly narrow) label dtype - ids that do
    not fit wrap around silently, masks then carry `id mod 2**bits` while the graph keeps the real ids."""
    WIDE = ("uint64", "int64")
    n = 0
    for f in P.functions.values():
        if ".import_export." not in f.qname or f.cls is None and "segmentation" not in f.name:
            continue
        if f.name not in ("build", "handle_segmentation", "relabel_segmentation") and "segmentation" not in f.name:
            continue
        for c in ast.walk(f.node):
            if not (isinstance(c, ast.Call) and isinstance(c.func, ast.Attribute) and c.func.attr == "astype" and c.args):
                continue
            recv = norm(c.func.value)
            if "seg" not in recv.lower():
                continue
            n += 1
            dt = norm(c.args[0])
            label = f"{f.short}: the (relabelled) segmentation is kept in a 64-bit dtype"
            if any(w in dt for w in WIDE):
                R.ok(rule, f, c, label, f"`{norm(c)[:60]}`", via="syntax")
            elif dt.endswith(".dtype") or any(k in dt for k in ("uint8", "uint16", "uint32", "int8", "int16", "int32")):
                R.fail(rule, f, c, label, f"`{norm(c)[:70]}` casts to `{dt}`: a node id above that dtype's maximum wraps around - the mask is labelled with another "
                       "number than the node's id (needs: a narrow in-memory label image, relabelling, an id that does not fit)")
            else:
                R.undecided(rule, f, c, label, f"cast to `{dt}`")
    if n == 0:
        R.ok(rule, "import_export", "", "no cast of a segmentation on the import path", via="syntax")


def seg_id_survives_validation(P: Program, R: Report, rule: str) -> None:
    """handle_segmentation takes "no seg_id property" to mean "labels already are the node ids" and skips relabelling.
    Nothing between loading and that decision may drop a seg_id property that was loaded: an `optional property failed
    validation, remove it` step turns a fixable input into a silently un-relabelled segmentation."""
    n_bad = 0
    for f in P.functions.values():
        if ".import_export." not in f.qname:
            continue
        for st in ast.walk(f.node):
            tgt = None
            if isinstance(st, ast.Delete):
                for t in st.targets:
                    if isinstance(t, ast.Subscript):
                        tgt = t.slice
            elif isinstance(st, ast.Call) and isinstance(st.func, ast.Attribute) and st.func.attr == "pop" and st.args:
                tgt = st.args[0]
            if tgt is None:
                continue
            k = norm(tgt).strip("'\"")
            q = P.resolve_name(f.module, k) if k.isidentifier() else None
            cval = P.constants.get(q) if q else None
            if k == "seg_id" or (isinstance(cval, ast.Constant) and cval.value == "seg_id") or k == "SEG_KEY":
                recv = norm(st.targets[0].value) if isinstance(st, ast.Delete) else norm(st.func.value)
                if "props" in recv:
                    n_bad += 1
                    R.fail(rule, f, st, "a loaded seg_id property reaches handle_segmentation", f"`{norm(st)[:60]}` drops the seg_id property: handle_segmentation then assumes the "
                           "labels already are the node ids and hands the segmentation on un-relabelled")
    if not n_bad:
        R.ok(rule, "import_export", "", "a loaded seg_id property reaches handle_segmentation (nothing on the import path drops it)", via="who-writes")
