"""C13 - relabelling on import moves each mask to its node id pixel-exactly (mechanism).

R13.1 fresh destination, source-only reads in relabel_segmentation (mappings cannot chain)
R13.2 one time mask selects from both id arrays; the frame read and the frame written are
      that time point
R13.3 joint offset: graph relabel and id-array shift under the same condition, same offset
R13.4 the 'no relabelling needed' shortcut compares seg ids and node ids element-wise, in order
"""

from __future__ import annotations

import ast

from ..model import AnalysisError, Program, call_name, norm
from ..report import Report
from .c19 import fresh_destination


def run(P: Program, R: Report, tier: str) -> None:
    R.explanation = (
        "Fresh-destination / source-only-read discipline of relabel_segmentation, agreement of the "
        "time index used for reading and writing, pairing of the graph relabel with the id shift, "
        "and the exact form of the shortcut that skips relabelling."
    )
    R.decides += [
        "masks are read from the original array and written into a fresh zero array, per time point, so label->id mappings cannot chain and unlisted labels vanish",
        "when id 0 forces a shift, graph and id array shift together; relabelling is skipped only when seg ids equal node ids position by position",
    ]
    R.not_decided += ["pixel equality of the result (runtime values)"]
    f = P.func_named("relabel_segmentation")
    dest, src_arg = fresh_destination(R, "R13.1", f)
    if dest is None:
        return
    # the source: what zeros_like was given
    src = src_arg
    writes = [s for s in ast.walk(f.node) if isinstance(s, ast.Assign) and isinstance(s.targets[0], ast.Subscript) and norm(s.targets[0]).startswith(dest)]
    R.floor("R13.1", "mask writes", len(writes), 1)
    for w in writes:
        t = w.targets[0]
        ok = isinstance(t.value, ast.Subscript) and norm(t.value.value) == dest and isinstance(t.slice, ast.Compare)
        if not ok:
            R.fail("R13.1", f, w, "a mask write has the form dest[t][source[t] == label] = id", norm(w)[:100])
            continue
        tw = norm(t.value.slice)
        cmp_ = t.slice
        left = cmp_.left
        reads_src = isinstance(left, ast.Subscript) and norm(left.value) == src
        tr = norm(left.slice) if isinstance(left, ast.Subscript) else None
        R.check(reads_src, "R13.1", f, w, f"the mask is computed from the source array `{src}` only",
                f"mask reads `{norm(left)}`: reading anything but the untouched source lets 1->2, 2->3 collapse into 3", via="provenance")
        R.check(tr == tw, "R13.2", f, w, "the frame read and the frame written are the same time point", f"reads frame {tr}, writes frame {tw}", via="provenance")
        # the loop over time points
        tl = [lp for lp in ast.walk(f.node) if isinstance(lp, ast.For) and w in list(ast.walk(lp)) and isinstance(lp.target, ast.Name) and lp.target.id == tw]
        R.check(bool(tl) and "time_values" in norm(tl[0].iter), "R13.2", f, w, "time points come from the nodes' time values", norm(tl[0].iter) if tl else "", via="provenance")
        if tl:
            masks = [s for s in tl[0].body if isinstance(s, ast.Assign) and norm(s.value) == f"time_values == {tw}"]
            sel = [s for s in tl[0].body if isinstance(s, ast.Assign) and masks and isinstance(s.value, ast.Subscript) and norm(s.value.slice) == norm(masks[0].targets[0])]
            both = {norm(s.value.value) for s in sel}
            R.check(len(masks) == 1 and {"seg_ids", "node_ids"} <= both, "R13.2", f, tl[0],
                    "one boolean time mask selects from both the seg-id and the node-id array", f"selected arrays: {sorted(both)}", via="provenance")
    # ---- R13.3 joint offset
    offs = [s for s in ast.walk(f.node) if isinstance(s, ast.Assign) and isinstance(s.targets[0], ast.Name) and "0 in node_ids" in norm(s.value)]
    if not offs:
        R.fail("R13.3", f, f.node, "the offset is derived from the presence of node id 0", "no such assignment")
    else:
        off = offs[0].targets[0].id
        ifs = [i for i in ast.walk(f.node) if isinstance(i, ast.If) and norm(i.test) == off]
        ok = False
        for i in ifs:
            body = norm(ast.Module(i.body, []))
            ok = "relabel_nodes(" in body and f"node_ids = node_ids + {off}" in body and f"old_id + {off}" in body
        R.check(ok, "R13.3", f, ifs[0] if ifs else f.node, "graph relabel and id-array shift happen under the same condition with the same offset",
                "the graph and the id array are not shifted together", via="pairing")
    # ---- R13.4 shortcut
    h = P.func_named("handle_segmentation", "TracksBuilder")
    cuts = [i for i in ast.walk(h.node) if isinstance(i, ast.If) and "array_equal" in norm(i.test)]
    R.check(len(cuts) == 1, "R13.4", h, h.node, "handle_segmentation has one shortcut that skips relabelling", f"{len(cuts)} found", via="syntax")
    for i in cuts:
        c = next(x for x in ast.walk(i.test) if isinstance(x, ast.Call) and call_name(x) == "array_equal")
        args = sorted(norm(a) for a in c.args)
        R.check(args == ["node_ids", "seg_ids"] and norm(i.test) == norm(c), "R13.4", h, i,
                "relabelling is skipped only when seg ids and node ids agree position by position",
                f"shortcut test is `{norm(i.test)[:100]}`: a permuted assignment over the same values would skip relabelling", via="guard-shape")
        # both arrays come straight from the loaded data
        defs = {n.targets[0].id: norm(n.value) for n in ast.walk(h.node) if isinstance(n, ast.Assign) and isinstance(n.targets[0], ast.Name) and n.targets[0].id in ("node_ids", "seg_ids")}
        R.check("node_ids" in defs.get("node_ids", "") and "seg_id" in defs.get("seg_ids", ""), "R13.4", h, i,
                "the compared arrays are the loaded node ids and seg ids", str(defs), via="provenance")
    call = [c for c in ast.walk(h.node) if isinstance(c, ast.Call) and call_name(c) == "relabel_segmentation"]
    R.check(len(call) == 1 and [norm(a) for a in call[0].args][2:] == ["node_ids", "seg_ids", "time_values"], "R13.4", h, call[0] if call else h.node,
            "relabel_segmentation receives node ids, seg ids and times in its parameter order", norm(call[0])[:100] if call else "", via="dataflow")
