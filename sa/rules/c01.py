"""C01 - every edit is exactly invertible (structural skeleton).

R01.1 inverse exhaustiveness      R01.2 duality is an involution     R01.3 same target
R01.4 capture before apply        R01.5 captured state feeds the inverse
R01.6 destructive primitives capture the whole registry view
R01.7 group inverse maps inverse() over the actions in reverse order
R01.8 every constructed sub-edit is recorded, in construction order
R01.9 (with E6) annotators that react to X also react to inverse(X) where it matters
R01.10 optional ids handed back by inverses are never tested by truthiness (0 is a legal id)
plus the history-shape rules R02.2-R02.4 (undo/redo apply the right inverse in the right order).
"""

from __future__ import annotations

import ast

from ..actions import ActionAnalysis, trail_text
from ..cfg import build_cfg
from ..model import AnalysisError, ClassInfo, FuncInfo, Program, call_name, norm
from ..report import Report
from . import c02


def tracks_read(e: ast.AST, tainted: set[str]) -> bool:
    """Does the expression read tracks state (a call or subscript through tracks) or a
    local that was itself read from tracks state?"""
    for n in ast.walk(e):
        if isinstance(n, ast.Call) and isinstance(n.func, ast.Attribute):
            root = n.func.value
            while isinstance(root, (ast.Attribute, ast.Subscript, ast.Call)):
                root = root.value if not isinstance(root, ast.Call) else root.func
            if isinstance(root, ast.Name) and root.id in ("tracks", "self"):
                chain = norm(n.func)
                if chain.startswith("tracks.") or chain.startswith("self.tracks."):
                    return True
        if isinstance(n, ast.Call) and isinstance(n.func, ast.Name) and not n.func.id[:1].isupper() and any(norm(a) in ("tracks", "self.tracks") for a in n.args):
            return True  # a helper function handed the tracks object
        if isinstance(n, ast.Subscript):
            chain = norm(n.value)
            if chain.startswith("tracks.") or chain.startswith("self.tracks."):
                return True
        if isinstance(n, ast.Name) and n.id in tainted:
            return True
    return False


def self_field(t: ast.expr) -> str | None:
    while isinstance(t, ast.Subscript):
        t = t.value
    if isinstance(t, ast.Attribute) and isinstance(t.value, ast.Name) and t.value.id == "self":
        return t.attr
    return None


def captured_fields(init: FuncInfo) -> dict[str, ast.AST]:
    """self.<field> assigned (directly or item-wise) from a read of tracks state."""
    tainted: set[str] = set()
    out: dict[str, ast.AST] = {}
    for _ in range(2):
        for n in ast.walk(init.node):
            if isinstance(n, ast.Assign):
                tgts, val = n.targets, n.value
            elif isinstance(n, ast.AnnAssign) and n.value is not None:
                tgts, val = [n.target], n.value
            elif isinstance(n, ast.For):
                if tracks_read(n.iter, tainted):
                    for x in ast.walk(n.target):
                        if isinstance(x, ast.Name):
                            tainted.add(x.id)
                continue
            else:
                continue
            if not tracks_read(val, tainted):
                continue
            for t in tgts:
                f = self_field(t)
                if f is not None and f != "tracks":
                    out.setdefault(f, n)
                for x in ast.walk(t):
                    if isinstance(x, ast.Name) and isinstance(x.ctx, ast.Store):
                        tainted.add(x.id)
    return out


def inverse_ctor(P: Program, c: ClassInfo):
    """-> (inverse FuncInfo, list of (return stmt, constructor Call, constructed ClassInfo))"""
    inv = P.lookup_method(c.qname, "inverse")
    if inv is None:
        return None, []
    rets = []
    env = P.local_env(inv)
    for n in ast.walk(inv.node):
        if isinstance(n, ast.Return):
            call, cls = None, None
            v = n.value
            if isinstance(v, ast.Call):
                tgt = P.resolve_call(v, env, inv, count=False)
                if tgt and tgt[0] == "class":
                    call, cls = v, tgt[1]
            rets.append((n, call, cls))
    return inv, rets


def inverse_duality(P: Program, R: Report, A) -> tuple:
    """R01.1 - R01.3, R01.5: every primitive has an inverse that builds its dual on the same tracks and element and hands
    every captured value on.  Shared with C02: the timeline of undo / redo is only as good as the inverses it replays."""
    prims = A.primitives
    base_inverse = P.class_named("Action").methods.get("inverse")
    M: dict[str, str] = {}
    for c in prims:
        inv, rets = inverse_ctor(P, c)
        own = inv is not None and inv is not base_inverse
        R.check(own, "R01.1", inv or A.init_of(c), (inv.node if inv else c.node), f"{c.name} overrides inverse()",
                f"{c.name} inherits the NotImplementedError stub: undo would raise", via="class-hierarchy")
        if not own:
            continue
        R.check(bool(rets) and all(cls is not None for _, _, cls in rets), "R01.1", inv, inv.node,
                f"every path of {c.name}.inverse returns a constructed action",
                "a return of inverse() is not a constructor call of an action class", via="syntax")
        init = A.init_of(c)
        fields = captured_fields(init)
        elem_param = init.params[2] if len(init.params) > 2 else None
        # which self field stores the element parameter
        elem_field = None
        for n in ast.walk(init.node):
            if isinstance(n, ast.Assign) and isinstance(n.value, ast.Name) and n.value.id == elem_param:
                for t in n.targets:
                    if self_field(t):
                        elem_field = self_field(t)
        for ret, call, cls in rets:
            if cls is None:
                continue
            M[c.name] = cls.name
            tinit = P.lookup_method(cls.qname, "__init__")
            tparams = tinit.params[1:]
            bound = {}
            for p, a in zip(tparams, call.args, strict=False):
                bound[p] = a
            for k in call.keywords:
                if k.arg:
                    bound[k.arg] = k.value
            # R01.3 same target
            ok_tracks = tparams and norm(bound.get(tparams[0])) == "self.tracks"
            ok_elem = len(tparams) > 1 and elem_field is not None and norm(bound.get(tparams[1])) == f"self.{elem_field}"
            R.check(ok_tracks and ok_elem, "R01.3", inv, call,
                    f"{c.name}.inverse targets the same tracks and element (self.{elem_field})",
                    f"passes tracks={norm(bound.get(tparams[0]) ) if tparams else None}, element={norm(bound.get(tparams[1])) if len(tparams) > 1 else None}",
                    via="dataflow")
            # R01.5 captured fields are used by the inverse
            used = {self_field(x) for a in list(bound.values()) for x in ast.walk(a) if isinstance(x, ast.Attribute)}
            for f, site in sorted(fields.items()):
                R.check(f in used, "R01.5", inv, call, f"captured field self.{f} of {c.name} is handed to the inverse",
                        f"{c.name}.__init__ captures self.{f} from the tracks ({init.at(site)}) but "
                        f"{c.name}.inverse() does not pass it on: `{norm(call)[:120]}`", via="dataflow")
            if cls.name == c.name:
                # self-dual: must not re-apply the same edit
                stored = {}
                for n in ast.walk(init.node):
                    if isinstance(n, ast.Assign) and isinstance(n.value, ast.Name) and n.value.id in init.params:
                        for t in n.targets:
                            if self_field(t):
                                stored[n.value.id] = self_field(t)
                identical = all(
                    norm(bound[p]) == f"self.{stored.get(p)}" for p in tparams[2:] if p in bound
                ) and all(p in bound or tinit.param_default(p) is None for p in tparams[2:])
                differs = any(
                    (p in bound and norm(bound[p]) != f"self.{stored.get(p)}") for p in tparams[2:]
                )
                R.check(differs and not (identical and tparams[2:]), "R01.5", inv, call,
                        f"self-dual {c.name}.inverse does not re-apply the same edit",
                        f"every value argument equals the stored forward argument: `{norm(call)[:120]}`", via="dataflow")
    R.floor("R01.1", "primitives", len(prims), 6)
    # R01.2 involution
    for x, y in sorted(M.items()):
        R.check(M.get(y) == x, "R01.2", f"{x}.inverse", P.class_named(x).loc, f"inverse({x}) = {y} and inverse({y}) = {x}",
                f"inverse({y}) = {M.get(y)}: redo of an undo would apply the wrong kind of edit", via="derived-map")

    return prims, M


def run(P: Program, R: Report, tier: str) -> None:
    R.explanation = (
        "Structural rules over every primitive (its constructor, _apply and inverse), the group "
        "inverse, every user-action constructor (paths with nested actions inlined) and the "
        "history methods; all read from the syntax tree / path summaries of /repo/src."
    )
    R.decides += [
        "each primitive has an inverse that constructs its dual on the same tracks and element, duality is an involution",
        "prior values are captured before the edit is applied and every captured value is handed to the inverse",
        "the group inverse inverts sub-edits in reverse order; every sub-edit of a user action is recorded in order",
        "undo/redo pick the right recorded action and apply its inverse exactly once (R02.2-R02.4)",
    ]
    R.decides += ['every top-level action is one history step (shared R02.6); no query of the data model answers from a memo that a writer forgets to drop']
    R.not_decided += [
        "equality of recomputed feature values after inversion (runtime values)",
        "aliasing of captured mutable values; the documented preconditions of primitives",
        "cascades from the C05 findings (UpdateTrackIDs restores one scalar lineage id)",
    ]
    A = ActionAnalysis(P, loop_iters=1 if tier == "quick" else 2)
    prims, M = inverse_duality(P, R, A)
    # R01.4 capture before apply / R01.6 registry view
    for c in prims:
        init = A.init_of(c)
        fields = captured_fields(init)
        cfg = build_cfg(init.node)
        E, _ = A.run(init)
        mutating = []
        env = P.local_env(init)
        for n in cfg.stmts():
            if n.kind not in ("stmt",):
                continue
            for call in [x for x in ast.walk(n.ast) if isinstance(x, ast.Call)]:
                tgt = P.resolve_call(call, env, init, count=False)
                if tgt and tgt[0] == "func" and tgt[1][0].name != "__init__" and E.flags(tgt[1][0])[1]:
                    mutating.append(n)
        if not mutating and c.name != "UpdateTrackIDs":
            pass
        for f, site in sorted(fields.items()):
            stmt_node = cfg.node_of(site) if cfg.node_of(site) is not None else None
            if stmt_node is None:
                # item-wise capture inside a loop: use the loop statement that contains it
                for n in cfg.stmts():
                    if n.ast is not None and any(x is site for x in ast.walk(n.ast)):
                        stmt_node = n.id
            ok = all(
                stmt_node is not None and not cfg.reachable(m.id, stmt_node) and cfg.reachable(stmt_node, m.id)
                for m in mutating
            )
            R.check(ok, "R01.4", init, site, f"{c.name}: capture of self.{f} precedes every mutation",
                    f"self.{f} is read from the tracks after {c.name} has already applied its change", via="cfg-order")
        # R01.6
        destructive = any("remove_node" in norm(n) or "remove_edge" in norm(n) for n in ast.walk(c.methods["_apply"].node)) if "_apply" in c.methods else False
        if destructive:
            # the iteration (for loop or comprehension) that fills a captured field key by key - in the constructor,
            # or in a helper function whose result is stored in the field
            iters = []
            for n in ast.walk(init.node):
                if isinstance(n, ast.For) and any(self_field(t) in fields for s_ in ast.walk(n) if isinstance(s_, ast.Assign) for t in s_.targets):
                    iters.append((n, n.iter, init))
                elif isinstance(n, ast.Assign) and isinstance(n.value, (ast.DictComp, ast.ListComp)) and any(self_field(t) in fields for t in n.targets):
                    iters.append((n, n.value.generators[0].iter, init))
                elif isinstance(n, ast.Assign) and isinstance(n.value, ast.Call) and any(self_field(t) in fields and "attr" in (self_field(t) or "") for t in n.targets):
                    tgt = P.resolve_call(n.value, P.local_env(init), init, count=False)
                    if tgt and tgt[0] == "func":
                        h = tgt[1][0]
                        rets = {norm(r.value) for r in ast.walk(h.node) if isinstance(r, ast.Return) and r.value is not None}
                        for hn in ast.walk(h.node):
                            if isinstance(hn, ast.For) and any(isinstance(s_, ast.Assign) and isinstance(t, ast.Subscript) and norm(t.value) in rets
                                                               for s_ in ast.walk(hn) if isinstance(s_, ast.Assign) for t in s_.targets):
                                iters.append((n, hn.iter, h))
                            elif isinstance(hn, ast.Return) and isinstance(hn.value, (ast.DictComp, ast.ListComp)):
                                iters.append((n, hn.value.generators[0].iter, h))
                            elif isinstance(hn, ast.Assign) and isinstance(hn.value, (ast.DictComp, ast.ListComp)) and any(norm(t) in rets for t in hn.targets):
                                iters.append((n, hn.value.generators[0].iter, h))
            attr_iters = [(n, it, h) for n, it, h in iters if "attr" in norm(n).lower()]
            if not attr_iters and any("attr" in f_ for f_ in fields):
                R.undecided("R01.6", init, init.node, f"{c.name} captures attribute values key by key from a registry view", "capture shape not recognised")
            else:
                R.check(bool(attr_iters), "R01.6", init, init.node, f"{c.name} captures attribute values key by key from a registry view",
                        "no attribute capture found: the inverse cannot restore the element's attributes", via="syntax")
            for n, it_expr, holder in attr_iters:
                it = norm(it_expr)
                # follow a local alias
                if isinstance(it_expr, ast.Name):
                    d_ = [x for x in ast.walk(holder.node) if isinstance(x, ast.Assign) and any(isinstance(t, ast.Name) and t.id == it_expr.id for t in x.targets)]
                    if len(d_) == 1:
                        it = norm(d_[0].value)
                ok = ".features." in it and (it.startswith("self.tracks.") or it.startswith("tracks.") or (
                    it.startswith("self.features.") and holder.cls is not None and P.is_subclass(holder.cls.qname, "Tracks")))
                literal = isinstance(it_expr, (ast.List, ast.Tuple, ast.Set))
                if ok:
                    R.ok("R01.6", init, n, f"{c.name}: capture iterates the feature registry ({it})", via="dataflow")
                elif literal or "features" not in it:
                    R.fail("R01.6", init, n, f"{c.name}: capture iterates the feature registry",
                           f"iterates `{it}`: attributes outside that collection are lost on undo")
                else:
                    R.undecided("R01.6", init, n, f"{c.name}: capture iterates `{it}`", "shape not recognised")

    # R01.7 group inverse
    G = P.class_named("ActionGroup")
    ginv = G.methods.get("inverse")
    if ginv is None:
        raise AnalysisError("ActionGroup.inverse not found")
    src = norm(ginv.node)
    comp = [n for n in ast.walk(ginv.node) if isinstance(n, (ast.ListComp, ast.For, ast.GeneratorExp))]
    rev_ok, maps_inverse, iter_txt = False, False, ""
    for n in comp:
        it = n.generators[0].iter if not isinstance(n, ast.For) else n.iter
        iter_txt = norm(it)
        if isinstance(it, ast.Subscript) and isinstance(it.slice, ast.Slice) and it.slice.step is not None and norm(it.slice.step) == "-1" and it.slice.lower is None and it.slice.upper is None and norm(it.value) == "self.actions":
            rev_ok = True
        if isinstance(it, ast.Call) and call_name(it) == "reversed" and norm(it.args[0]) in ("self.actions", "list(self.actions)"):
            rev_ok = True
        body = n.elt if not isinstance(n, ast.For) else n
        if any(isinstance(x, ast.Call) and call_name(x) == "inverse" for x in ast.walk(body)):
            maps_inverse = True
    R.check(rev_ok, "R01.7", ginv, ginv.node, "group inverse walks self.actions in reverse order",
            f"iterates `{iter_txt}`: sub-edits would be undone in forward order", via="syntax")
    R.check(maps_inverse, "R01.7", ginv, ginv.node, "group inverse inverts every sub-edit", src[:120], via="syntax")
    ret_ok = any(isinstance(n, ast.Return) and isinstance(n.value, ast.Call) and "self.tracks" in norm(n.value) for n in ast.walk(ginv.node))
    R.check(ret_ok, "R01.7", ginv, ginv.node, "group inverse returns a group on the same tracks", src[:120], via="syntax")

    # R01.8 every sub-edit recorded
    keep = lambda e: e.xdepth == 0 and (e.kind == "append" or (e.kind == "construct" and e.args.get("_kind") in ("prim", "user", "action")))  # noqa: E731
    n_sites = set()
    for c in A.user_actions:
        f = A.init_of(c)
        _, results = A.run(f)
        for pr in results:
            if pr.kind == "raise":
                continue
            for seq in pr.sequences(keep):
                built = [e for e in seq if e.kind == "construct"]
                appended = [e.args.get("arg") for e in seq if e.kind == "append"]
                for e in built:
                    n_sites.add(e.where())
                ok = [e.args["_obj"] for e in built] == appended
                if ok:
                    for e in built:
                        R.ok("R01.8", f, e.where(), f"constructed {e.name} is recorded in self.actions", via="path-pairing")
                else:
                    missing = [e for e in built if e.args["_obj"] not in appended]
                    if not built:
                        # something that was not constructed here is appended (e.g. an action built by a
                        # module-level helper): not this rule's subject
                        continue
                    e = missing[0] if missing else built[0]
                    R.fail("R01.8", f, e.where(),
                           f"constructed {e.name} is " + ("not recorded in self.actions" if missing else "recorded out of order"),
                           "an applied but unrecorded (or mis-ordered) sub-edit survives undo",
                           path=trail_text(pr.trail))
    R.floor("R01.8", "construction sites", len(n_sites), 15)

    # undo / redo apply the right inverse once, pending redo inverses keep their order
    c02.history_shape(P, R, pure=False)
    # R01.9 inverse triggers
    from .triggers import inverse_triggers

    inverse_triggers(P, R, M)
    # R01.10 an inverse hands back captured ids, and 0 is a legal id: no truthiness tests on optional ids
    from .c05 import id_truthiness

    id_truthiness(P, R, "R01.10", modules=("actions", "annotators", "user_actions"))
    attr_truthiness(P, R, "R01.11")
    paint_flow_pixels(P, R, A, "R01.12")
    apply_keeps_inverse_inputs(P, R, "R01.13")
    inverse_is_pure(P, R, "R01.14")
    # ---- R01.15 a query of the data model never answers from a memo that some writer forgets to drop
    from .memo import no_stale_memo

    no_stale_memo(P, R, "R01.15")
    # ---- R02.6 (shared): every top-level action is one history step and a nested one none - a stray step makes a later
    # undo / redo replay half an edit, which is a state this property quantifies over ("after every ... undo or redo")
    from . import c02 as _c02r

    _c02r.registration(P, R, tier, A=A, facade=False)


ATTR_READS = ("get_edge_attr", "get_node_attr", "_get_edge_attr", "_get_node_attr", "get_nodes_attr", "get_edges_attr")


def attr_truthiness(P: Program, R: Report, rule: str) -> None:
    """A primitive that captures attribute VALUES for its inverse may only ask whether a value is absent
    (`is None`): 0, 0.0, False and '' are legal feature values, and a truthiness test drops them from the
    capture, so that the inverse restores the element without them."""
    n = 0
    scope = []
    for c in P.primitives():
        scope += [(c, m) for m in c.methods.values()]
        init = c.methods.get("__init__")
        if init is not None:
            for s_ in ast.walk(init.node):
                if isinstance(s_, ast.Assign) and isinstance(s_.value, ast.Call) and any(self_field(t) for t in s_.targets):
                    tgt = P.resolve_call(s_.value, P.local_env(init), init, count=False)
                    if tgt and tgt[0] == "func" and (c, tgt[1][0]) not in scope and tgt[1][0].cls is not None:
                        scope.append((c, tgt[1][0]))
    for c, m in scope:
        if True:
            vals: set[str] = set()
            stores_: set[str] = set()  # locals holding an element's attribute dict (graph.nodes[n] / graph.edges[e])
            for s in ast.walk(m.node):
                if isinstance(s, ast.Assign) and isinstance(s.value, ast.Subscript) and any(norm(s.value.value).endswith(x) for x in ("graph.nodes", "graph.edges")):
                    stores_ |= {t.id for t in s.targets if isinstance(t, ast.Name)}

            def attr_read(e):
                if isinstance(e, ast.Call) and call_name(e) in ATTR_READS:
                    return True
                if isinstance(e, ast.Call) and call_name(e) == "get" and isinstance(e.func, ast.Attribute) and isinstance(e.func.value, ast.Name) and e.func.value.id in stores_:
                    return True
                return isinstance(e, ast.Subscript) and isinstance(e.value, ast.Name) and e.value.id in stores_

            for s in ast.walk(m.node):
                if isinstance(s, ast.Assign) and attr_read(s.value):
                    vals |= {t.id for t in s.targets if isinstance(t, ast.Name)}
                if isinstance(s, ast.NamedExpr) and attr_read(s.value):
                    vals.add(s.target.id)

            def is_val(e):
                return (isinstance(e, ast.Name) and e.id in vals) or attr_read(e) or (isinstance(e, ast.NamedExpr) and is_val(e.value))

            for s in ast.walk(m.node):
                tests = []
                if isinstance(s, (ast.If, ast.While, ast.IfExp)):
                    tests = [s.test]
                elif isinstance(s, ast.comprehension):
                    tests = list(s.ifs)
                elif isinstance(s, ast.BoolOp):
                    tests = list(s.values[:-1]) if isinstance(s.op, ast.Or) else []
                leaves = list(tests)
                while leaves:
                    x = leaves.pop()
                    if isinstance(x, ast.BoolOp):
                        leaves.extend(x.values)
                    elif isinstance(x, ast.UnaryOp) and isinstance(x.op, ast.Not):
                        leaves.append(x.operand)
                    elif is_val(x) or (isinstance(x, ast.Call) and norm(x.func) == "bool" and x.args and is_val(x.args[0])):
                        n += 1
                        R.fail(rule, m, x, f"{c.name}: attribute value `{norm(x)[:50]}` is tested for absence with `is None`",
                               "tested by truthiness: a stored 0 / 0.0 / False / '' is treated as absent, is not captured, and the inverse restores the element without it")
            if vals or stores_:
                n += 1
                if not any(o.rule == rule and o.func == m.short and o.status == "violated" for o in R.obligations):
                    R.ok(rule, m, m.node, f"{m.short}: {len(vals)} attribute-valued local(s), none tested by truthiness", via="lint")
    R.floor(rule, "primitive methods reading attribute values", n, 1)


def paint_flow_pixels(P: Program, R: Report, A: ActionAnalysis, rule: str) -> None:
    """The paint-driven action runs AFTER its caller changed the segmentation array.  A primitive that is handed no
    pixels captures them by reading the array (`get_pixels`), i.e. it captures the post-paint state and its inverse
    cannot put the old mask back.  So on every path of that action, every constructed primitive that takes a
    `pixels` argument is given one."""
    c = P.class_named("UserUpdateSegmentation")
    if c is None:
        raise AnalysisError("paint-driven user action UserUpdateSegmentation not found")
    takes = {p.name for p in P.primitives() if "pixels" in A.init_of(p).params}
    if not takes:
        raise AnalysisError("no primitive takes a `pixels` argument")
    init = A.init_of(c)
    _, results = A.run(init)
    seen: dict[tuple, object] = {}
    for pr in results:
        for seq in pr.sequences(lambda e: e.kind == "construct" and e.name in takes):
            for e in seq:
                seen.setdefault((e.name, e.args.get("pixels", "None"), e.xctx if hasattr(e, "xctx") else e.ctx), e)
    for (name, px, ctx), e in seen.items():
        via = " via " + " > ".join(ctx) if ctx else ""
        R.check(px not in ("None", "", None), rule, init, e.where(), f"paint-driven edit: {name}{via} is handed the pixels its caller already changed",
                f"{name} is constructed without pixels: it reads the already-painted array, captures the wrong mask, and undo does not restore the segmentation",
                via="interp-args")
    R.floor(rule, "pixel-taking primitives constructed in the paint-driven action", len(seen), 3)


def apply_keeps_inverse_inputs(P: Program, R: Report, rule: str) -> None:
    """`_apply` performs the edit; it does not rewrite the fields the inverse is built from.  A primitive whose _apply
    narrows or recomputes e.g. `self.pixels` from the CURRENT array records something else than what it was told to
    do - and in the paint-driven flow the array has already been changed by the caller, so the recomputed value is
    empty and the inverse restores nothing."""
    n = 0
    for c in P.primitives():
        ap, inv = c.methods.get("_apply"), P.lookup_method(c.qname, "inverse")
        if ap is None or inv is None:
            continue
        read_by_inverse = {x.attr for x in ast.walk(inv.node) if isinstance(x, ast.Attribute) and isinstance(x.value, ast.Name) and x.value.id == "self"}
        n += 1
        bad = None
        for s_ in ast.walk(ap.node):
            tg = s_.targets if isinstance(s_, ast.Assign) else ([s_.target] if isinstance(s_, (ast.AugAssign, ast.AnnAssign)) else [])
            for t in tg:
                base = t
                while isinstance(base, ast.Subscript):
                    base = base.value
                if isinstance(base, ast.Attribute) and isinstance(base.value, ast.Name) and base.value.id == "self" and base.attr in read_by_inverse and base.attr != "tracks":
                    bad = (s_, base.attr)
        R.check(bad is None, rule, ap, bad[0] if bad else ap.node, f"{c.name}._apply leaves the fields its inverse is built from untouched",
                f"`{norm(bad[0])[:80]}` rewrites self.{bad[1]} while applying: the inverse is then built from something else than the edit that was requested "
                "(after a paint stroke the array is already changed, so a value recomputed from it is empty and undo restores nothing)" if bad else "", via="def-use")
    R.floor(rule, "primitives with _apply and inverse", n, 5)


def inverse_is_pure(P: Program, R: Report, rule: str) -> None:
    """`inverse()` builds the inverse edit; it does not change the recorded action itself.  The history inverts the same
    recorded object again on every later undo of that step (undo, redo, undo ...), so an inverse() that e.g. reverses
    `self.actions` in place works once and replays the sub-edits in the wrong order the next time."""
    from ..effects import Effects

    E = Effects(P)
    n = 0
    classes = list(P.primitives()) + [c for c in P.subclasses("ActionGroup")] + ([P.class_named("ActionGroup")] if P.class_named("ActionGroup") else [])
    seen = set()
    for c in classes:
        inv = c.methods.get("inverse")
        if inv is None or inv.qname in seen:
            continue
        seen.add(inv.qname)
        n += 1
        eff = [(pa, k, w) for pa, k, w in E.effects_on(inv, "self") if not (pa and pa[0].startswith("tracks")) and "tracks" not in pa
               and not any(k in str(w) for k in ("/data_model/", "/annotators/", "/features/"))]  # a write made by a method of the data model goes to the data model (long access paths are truncated), not to the recorded action
        R.check(not eff, rule, inv, inv.node, f"{c.name}.inverse() leaves the recorded action as it is",
                f"inverse() writes {[('.'.join(pa), k) for pa, k, w in eff][:3]} on the action itself (at {eff[0][2] if eff else ''}): the same recorded object is "
                "inverted again by a later undo of the same step and then behaves differently", via="effects")
    R.floor(rule, "inverse() methods", n, 6)
