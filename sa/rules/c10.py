"""C10 - feature switching is history-independent; managed features are protected.

R10.1 protection set = ALL annotator features (not only active ones) + time key; refusal
      precedes capture and application
R10.2 validate all keys, then change (no raise after the first write) in activate/deactivate
      and enable/disable
R10.3 every graph-attribute write reachable from an annotator's update()/compute() is gated by
      a membership test of its key in an active-derived value
R10.4 activate <=> register, deactivate <=> unregister, on the same path
R10.5 every compute() filters the requested keys through the active set
R10.6 enable_features(recompute=True) recomputes every requested key
R10.7 update() leaves early only for accepted reasons
"""

from __future__ import annotations

import ast

from ..actions import ActionAnalysis
from ..model import AnalysisError, FuncInfo, Program, call_name, norm
from ..report import Report
from .annot import WRITE_CALLS, update_guards
from .c11 import typestate

ACTIVE_SOURCES = ("self.features", "self._filter_feature_keys(", "list(self.features.keys())")


ACTIVE_COLLS: set[str] = {"features"}
ACTIVE_PREDS: set[str] = set()


def _is_active_test(leaf: ast.AST, ktxt: str, f: FuncInfo) -> bool:
    """`key in <active>`  or  `self.<active predicate>(key)`"""
    if isinstance(leaf, ast.Compare) and len(leaf.ops) == 1 and isinstance(leaf.ops[0], ast.In) and norm(leaf.left) == ktxt and active_derived(f, leaf.comparators[0]):
        return True
    return (isinstance(leaf, ast.Call) and isinstance(leaf.func, ast.Attribute) and norm(leaf.func.value) == "self" and leaf.func.attr in ACTIVE_PREDS
            and len(leaf.args) == 1 and norm(leaf.args[0]) == ktxt)


def active_derived(f: FuncInfo, e: ast.expr, depth: int = 0) -> bool:
    txt = norm(e)
    if any(txt == f"self.{c_}" or txt.startswith(f"self.{c_}.") or txt.startswith(f"list(self.{c_}") for c_ in ACTIVE_COLLS):
        return True
    # [k for k in <anything> if self.<active predicate>(k)]
    if isinstance(e, (ast.ListComp, ast.SetComp, ast.GeneratorExp)) and len(e.generators) == 1 and isinstance(e.generators[0].target, ast.Name) and norm(e.elt) == e.generators[0].target.id \
            and any(_is_active_test(c_, e.generators[0].target.id, f) for c_ in e.generators[0].ifs) and depth < 4:
        return True
    if any(txt.startswith(s) or txt == s.rstrip("(") for s in ACTIVE_SOURCES) or "self.features" in txt and ".all_features" not in txt:
        return True
    # a sub-list of active keys is still a list of active keys: [k for k in <active> if ...], list(..), sorted(..)
    if isinstance(e, (ast.ListComp, ast.SetComp, ast.GeneratorExp)) and len(e.generators) == 1 and depth < 4:
        g = e.generators[0]
        if isinstance(g.target, ast.Name) and norm(e.elt) == g.target.id and active_derived(f, g.iter, depth + 1):
            return True
        # [k for k in <anything> if k in <active>]
        if isinstance(g.target, ast.Name) and norm(e.elt) == g.target.id and any(
                isinstance(c, ast.Compare) and len(c.ops) == 1 and isinstance(c.ops[0], ast.In) and norm(c.left) == g.target.id and active_derived(f, c.comparators[0], depth + 1)
                for c in g.ifs):
            return True
    if isinstance(e, ast.Call) and call_name(e) in ("list", "sorted", "set", "tuple") and len(e.args) == 1 and depth < 4 and active_derived(f, e.args[0], depth + 1):
        return True
    if isinstance(e, ast.Name) and depth < 4:
        defs = [s for s in ast.walk(f.node) if isinstance(s, ast.Assign) and any(isinstance(t, ast.Name) and t.id == e.id for t in s.targets)]
        defs += [s for s in ast.walk(f.node) if isinstance(s, ast.NamedExpr) and isinstance(s.target, ast.Name) and s.target.id == e.id]
        defs += [s for s in ast.walk(f.node) if isinstance(s, ast.AnnAssign) and s.value is not None and isinstance(s.target, ast.Name) and s.target.id == e.id]
        if defs:
            return all(active_derived(f, d.value, depth + 1) for d in defs)
    return False


def enclosing(f: FuncInfo, target: ast.AST):
    """(kind, node) for every compound statement around `target`, outermost first"""
    out = []

    def rec(node, stack):
        if node is target:
            out.extend(stack)
            return True
        for fld, val in ast.iter_fields(node):
            items = val if isinstance(val, list) else [val]
            for ch in items:
                if isinstance(ch, ast.AST):
                    st = stack
                    if isinstance(node, (ast.If, ast.For, ast.While)) and fld in ("body", "orelse"):
                        st = stack + [(fld, node)]
                    if rec(ch, st):
                        return True
        return False

    rec(f.node, [])
    return out


def key_gated_here(f: FuncInfo, call: ast.Call, key: ast.expr) -> str | None:
    """How the write of `key` is gated inside f (None if it is not)."""
    ktxt = norm(key)
    enc = enclosing(f, call)
    # (1) the key is the loop variable of a loop over an active-derived list
    for fld, node in enc:
        if isinstance(node, ast.For) and fld == "body" and isinstance(node.target, ast.Name) and node.target.id == ktxt:
            if active_derived(f, node.iter):
                return f"loop over active keys `{norm(node.iter)[:40]}`"
            if isinstance(node.iter, ast.Name) and node.iter.id in f.params:
                return f"param:{node.iter.id}"
        # (1b) `for key, x in pairs` where pairs = [(k, g(k)) for k in KEYS]: the first component ranges over KEYS
        if isinstance(node, ast.For) and fld == "body" and isinstance(node.target, ast.Tuple) and node.target.elts and isinstance(node.target.elts[0], ast.Name) \
                and node.target.elts[0].id == ktxt and isinstance(node.iter, ast.Name):
            defs = [s_.value for s_ in ast.walk(f.node) if isinstance(s_, ast.Assign) and any(isinstance(t, ast.Name) and t.id == node.iter.id for t in s_.targets)]
            if len(defs) == 1 and isinstance(defs[0], (ast.ListComp, ast.GeneratorExp)) and len(defs[0].generators) == 1 and not defs[0].generators[0].ifs \
                    and isinstance(defs[0].elt, ast.Tuple) and defs[0].elt.elts and norm(defs[0].elt.elts[0]) == norm(defs[0].generators[0].target):
                src = defs[0].generators[0].iter
                if active_derived(f, src):
                    return f"loop over pairs built from active keys `{norm(src)[:40]}`"
                if isinstance(src, ast.Name) and src.id in f.params:
                    return f"param:{src.id}"
    # (2) an enclosing `if key in <active>` or a flag assigned from such a test
    for fld, node in enc:
        if isinstance(node, ast.If) and fld == "body":
            for leaf in ast.walk(node.test):
                if _is_active_test(leaf, ktxt, f):
                    return f"enclosing test `{norm(leaf)[:50]}`"
                if isinstance(leaf, ast.Name):
                    defs = [s for s in ast.walk(f.node) if isinstance(s, ast.Assign) and any(isinstance(t, ast.Name) and t.id == leaf.id for t in s.targets)]
                    for d in defs:
                        for x in ast.walk(d.value):
                            if _is_active_test(x, ktxt, f):
                                return f"flag `{leaf.id}` assigned from `{norm(x)[:50]}`"
    # (3) a dominating early return  `if key not in <active>: return`
    for s in f.node.body:
        if s.lineno >= call.lineno:
            break
        if isinstance(s, ast.If) and len(s.body) == 1 and isinstance(s.body[0], ast.Return) and isinstance(s.test, ast.Compare) and len(s.test.ops) == 1:
            if isinstance(s.test.ops[0], ast.NotIn) and norm(s.test.left) == ktxt and active_derived(f, s.test.comparators[0]):
                return f"early return `{norm(s.test)[:50]}`"
        if isinstance(s, ast.If) and len(s.body) == 1 and isinstance(s.body[0], ast.Return) and isinstance(s.test, ast.UnaryOp) and isinstance(s.test.op, ast.Not) \
                and _is_active_test(s.test.operand, ktxt, f):
            return f"early return `{norm(s.test)[:50]}`"
    # (4) the key is a parameter: the callers must gate it
    if isinstance(key, ast.Name) and key.id in f.params:
        return f"param:{key.id}"
    return None


def gated(P: Program, cls, f: FuncInfo, call: ast.Call, key: ast.expr, depth: int = 0) -> str | None:
    g = key_gated_here(f, call, key)
    if g is None:
        # (5) the whole function is only reachable through gated call sites
        g = "param:*"
    if not g.startswith("param:"):
        return g
    if depth >= 3:
        return None
    pname = g[6:]
    sites = []
    for m in cls.methods.values():
        for c in ast.walk(m.node):
            if isinstance(c, ast.Call) and call_name(c) == f.name and isinstance(c.func, ast.Attribute) and norm(c.func.value) == "self":
                sites.append((m, c))
    if not sites:
        return None
    reasons = []
    for m, c in sites:
        if pname == "*":
            # key is a self attribute: the call itself must be gated on that key in the caller
            r = gated_call(P, cls, m, c, key, depth + 1)
        else:
            idx = f.params.index(pname) - 1
            arg = c.args[idx] if idx < len(c.args) else next((k.value for k in c.keywords if k.arg == pname), None)
            if arg is None:
                return None
            if active_derived(m, arg):
                r = f"{m.name} passes active keys `{norm(arg)[:30]}`"
            else:
                r = gated(P, cls, m, c, arg, depth + 1)
        if r is None:
            return None
        reasons.append(r)
    return "; ".join(sorted(set(reasons)))[:160]


def gated_call(P, cls, m: FuncInfo, c: ast.Call, key: ast.expr, depth: int):
    return key_gated_here(m, c, key) if not (key_gated_here(m, c, key) or "param:").startswith("param:") else gated(P, cls, m, c, key, depth)


def enable_recomputes_requested(P: Program, R: Report, rule: str) -> None:
    """enable_features(keys, recompute=True) hands exactly the requested keys to compute(), under no other condition than
    the recompute flag: a key that was registered before (loaded values, recompute=False earlier) is computed too."""
    en = P.class_named("Tracks").methods["enable_features"]
    comps = [c for c in ast.walk(en.node) if isinstance(c, ast.Call) and call_name(c) == "compute"]
    R.check(len(comps) == 1 and comps and norm(comps[0].args[0]) == en.params[1], rule, en, comps[0] if comps else en.node,
            "enable_features recomputes exactly the requested keys",
            f"compute is called with `{norm(comps[0].args[0]) if comps and comps[0].args else '?'}`: keys that are already registered are not recomputed", via="dataflow")
    for c in comps:
        guards = [norm(n.test) for fld, n in enclosing(en, c) if isinstance(n, ast.If)]
        R.check(guards == ["recompute"], rule, en, c, "recomputation depends only on the recompute flag", f"guards: {guards}", via="syntax")


def run(P: Program, R: Report, tier: str) -> None:
    R.explanation = (
        "Provenance of the protected-attribute set; validate-then-change typestate over the feature "
        "switching functions; gating analysis of every graph-attribute write in the annotators "
        "(membership of the written key in an active-derived value, followed through helper calls); "
        "pairing of activation with registration."
    )
    R.decides += [
        "time and every feature an annotator can manage (enabled or not) are refused by attribute updates",
        "unknown keys are rejected before any flag or registry entry changes",
        "a disabled feature is never written by update() or compute(); enabling with recompute recomputes every requested key",
    ]
    R.decides += ['dropping a requested key cannot raise half-way; the IoU write kernel writes every edge it is handed']
    R.not_decided += ["that recomputed values equal reference values"]
    from .annot import active_accessors

    colls_, preds_ = active_accessors(P)
    ACTIVE_COLLS.clear(); ACTIVE_COLLS.update(colls_)
    ACTIVE_PREDS.clear(); ACTIVE_PREDS.update(preds_)
    R.count("active accessors discovered", len(colls_) + len(preds_))
    A = ActionAnalysis(P)
    # ---- R10.1
    def callee_blob(fn, depth=0, seen=None) -> str:
        """source of the data-model / registry methods a function calls (transitively): where a set it tests against is built"""
        seen = seen if seen is not None else set()
        out = ""
        if depth > 3:
            return out
        for c_ in ast.walk(fn.node):
            if isinstance(c_, ast.Call) and isinstance(c_.func, ast.Attribute):
                for g_ in P.find_funcs(c_.func.attr):
                    if g_.cls is not None and g_.qname not in seen and any(k in g_.qname for k in (".data_model.", ".annotators.")) and g_.name not in ("__init__",):
                        seen.add(g_.qname)
                        out += " " + norm(g_.node) + callee_blob(g_, depth + 1, seen)
        return out

    def refuses_by_membership(c):
        init = A.init_of(c)
        from .util import guards_of as _g0

        return any(isinstance(x, ast.Raise) for x in ast.walk(init.node)) and any(
            isinstance(x, ast.Compare) and len(x.ops) == 1 and isinstance(x.ops[0], (ast.In, ast.NotIn)) for x in ast.walk(init.node))

    una = [c for c in A.primitives if refuses_by_membership(c) and any(k in norm(A.init_of(c).node) + callee_blob(A.init_of(c)) for k in (".all_features", ".annotators.features", "annotators."))]
    if not una:
        raise AnalysisError("attribute-update primitive with a protected set not found")
    for c in una:
        init = A.init_of(c)
        # collections that membership tests are made against
        tested = set()
        for n in ast.walk(init.node):
            if isinstance(n, ast.Compare) and len(n.ops) == 1 and isinstance(n.ops[0], (ast.In, ast.NotIn)):
                tested.add(norm(n.comparators[0]))
        raises = [x for x in ast.walk(init.node) if isinstance(x, ast.Raise)]
        R.check(bool(tested) and bool(raises), "R10.1", init, init.node, f"{c.name} refuses protected attributes", "no membership test / raise", via="syntax")
        for setname in sorted(tested):
            feeds = [norm(s) for s in ast.walk(init.node) if isinstance(s, (ast.Assign, ast.Expr, ast.AugAssign)) and setname in norm(s)]
            blob = " ".join(feeds) + " " + setname
            if any(isinstance(c_, ast.Call) for s_ in ast.walk(init.node) if isinstance(s_, ast.Assign) and setname in norm(s_) for c_ in ast.walk(s_.value)):
                blob += callee_blob(init)
            if ".all_features" not in blob and "features" not in blob:
                continue  # an unrelated membership test
            R.check(".all_features" in blob, "R10.1", init, init.node, f"{c.name}: the protected set `{setname}` is built from ALL annotator features",
                    f"`{setname}` is built from `{blob[:140]}`: a managed feature that is currently disabled can be overwritten", via="provenance")
            R.check("time_key" in blob, "R10.1", init, init.node, f"{c.name}: the protected set contains the time key", blob[:140], via="provenance")
    # ---- R10.2
    reg = P.class_named("AnnotatorRegistry")
    tracks = P.class_named("Tracks")
    fns = [reg.methods.get("activate_features"), reg.methods.get("deactivate_features"), tracks.methods.get("enable_features"), tracks.methods.get("disable_features")]
    if any(f is None for f in fns):
        raise AnalysisError("feature switching functions not found")
    for f in fns:
        E, results = A.run(f)
        typestate(R, "R10.2", f, E, results, "feature flags / registry")
        if f.cls.name == reg.name:
            kerr = [pr for pr in results if pr.kind == "raise" and pr.last is not None and pr.last.name == "KeyError"]
            R.check(bool(kerr), "R10.2", f, f.node, f"{f.short} rejects unknown keys with KeyError (on some path, possibly in a helper)", "no KeyError raise reachable", via="typestate")
            srcs = norm(f.node) + callee_blob(f)
            R.check(".all_features" in srcs, "R10.2", f, f.node, f"{f.short} validates against all_features (everything that can be managed)", "", via="provenance")
    # ---- R10.10 no implicit refusal half-way: removing a requested key from a registry / dictionary cannot raise for a key that
    # is known but not currently listed (disable of an available, not enabled feature; a repeated or duplicated key)
    from .util import guards_of as _gof

    for f in fns:
        loopkeys = {lp.target.id for lp in ast.walk(f.node) if isinstance(lp, ast.For) and isinstance(lp.target, ast.Name)}
        for st in ast.walk(f.node):
            site = coll = key = None
            if isinstance(st, ast.Delete) and len(st.targets) == 1 and isinstance(st.targets[0], ast.Subscript):
                site, coll, key = st, norm(st.targets[0].value), norm(st.targets[0].slice)
            elif isinstance(st, ast.Expr) and isinstance(st.value, ast.Call) and isinstance(st.value.func, ast.Attribute) and st.value.func.attr in ("pop", "remove") and len(st.value.args) == 1 and not st.value.keywords:
                site, coll, key = st, norm(st.value.func.value), norm(st.value.args[0])
            if site is None or key not in loopkeys:
                continue
            gs = [g.replace(" ", "") for g in _gof(f, site)]
            label = f"{f.short}: dropping `{key}` from `{coll}` cannot raise for a key that is not listed"
            if f"{key}in{coll}".replace(" ", "") in gs:
                R.ok("R10.10", f, site, label, "guarded by a membership test", via="dominating-guard")
            else:
                R.fail("R10.10", f, site, label, f"`{norm(site)[:60]}` raises KeyError / ValueError for a requested key that is valid but not currently in `{coll}` "
                       "(an available feature that is not enabled, a key named twice): the call fails after the annotators were already switched for the whole "
                       "list, and the keys after it stay listed although they are inactive")
    # ---- R10.3 gated writes
    n = 0
    for a in P.annotators():
        for m in a.methods.values():
            for c in ast.walk(m.node):
                if isinstance(c, ast.Call) and call_name(c) in WRITE_CALLS and len(c.args) >= 2:
                    n += 1
                    key = c.args[1]
                    if isinstance(key, ast.Name):
                        # a local alias of an attribute (`lineage_key = self.lineage_key`, hoisted out of a loop) is that attribute
                        from ..resolve import Resolver as _Rs103

                        d_ = _Rs103(P, m).single_def(key.id)
                        if isinstance(d_, ast.Attribute):
                            key = d_
                    g = gated(P, a, m, c, key)
                    if g is None and isinstance(key, ast.Name):
                        # a key that comes out of a helper's result (tuple unpacking of a call / generator) is not followed
                        bind = [lp for lp in ast.walk(m.node) if isinstance(lp, ast.For) and any(isinstance(x, ast.Name) and x.id == key.id for x in ast.walk(lp.target))]
                        if bind and all(isinstance(lp.iter, ast.Call) and isinstance(lp.iter.func, ast.Attribute) and norm(lp.iter.func.value) == "self" for lp in bind):
                            R.undecided("R10.3", m, c, f"{m.short}: write of `{norm(key)}` is gated by the active feature set",
                                        f"`{norm(key)}` is produced by `{norm(bind[0].iter)[:50]}`: keys flowing through a helper's result are not followed")
                            continue
                    R.check(g is not None, "R10.3", m, c, f"{m.short}: write of `{norm(key)}` is gated by the active feature set",
                            f"no membership test of `{norm(key)}` in the active features dominates this write (through {m.name} and its callers): a disabled feature keeps changing",
                            via="gating" if g is None else f"gating", path=None)
                    if g is not None:
                        R.obligations[-1].detail = g
    R.floor("R10.3", "attribute writes in annotators", n, 8)
    # ---- R10.4  (the constructor-side work may live in helpers of Tracks that receive the key list)
    en, dis = tracks.methods["enable_features"], tracks.methods["disable_features"]

    def closure_of(f):
        """(function, name of the requested-keys collection in it, name of the feature registry in it) for f and the
        internal helpers it hands the keys to"""
        out = [(f, f.params[1], "self.features")]
        env = P.local_env(f)
        for c in ast.walk(f.node):
            if not (isinstance(c, ast.Call) and isinstance(c.func, ast.Attribute)):
                continue
            tgt = P.resolve_call(c, env, f, count=False)
            h = tgt[1][0] if tgt and tgt[0] == "func" else None
            if h is None or h is f:
                continue
            hp = [p_ for p_ in h.params if p_ not in ("self", "cls")]
            kp = fp = None
            for i, a_ in enumerate(c.args):
                if i >= len(hp):
                    break
                if norm(a_) in (f.params[1], f"[{f.params[1]}]"):
                    kp = hp[i]
                if norm(a_) == "self.features":
                    fp = hp[i]
            if kp is not None:
                out.append((h, kp, fp or "self.features"))
        return out

    for f, act, what in (
        (en, "activate_features", "enable_features activates and registers every requested key"),
        (dis, "deactivate_features", "disable_features deactivates and unregisters every requested key"),
    ):
        cl = closure_of(f)
        acts = [c for g, kp, _ in cl for c in ast.walk(g.node) if isinstance(c, ast.Call) and call_name(c) == act and c.args and norm(c.args[0]) == kp]
        regs = []
        for g, kp, fp in cl:
            src = norm(g.node)
            forms = (f"{fp}[key] =",) if f is en else (f"del {fp}[key]", f"{fp}.pop(key")
            if any(x in src for x in forms):
                regs.append((g, kp, fp, forms))
        R.check(bool(acts) and bool(regs), "R10.4", f, f.node, what, norm(f.node)[:100], via="syntax")
        for g, kp, fp, forms in regs:
            for lp in [x for x in ast.walk(g.node) if isinstance(x, ast.For) and any(x_ in norm(x) for x_ in forms)]:
                from ..resolve import Resolver as _Rs104

                it = _Rs104(P, g).expand(lp.iter)
                lab = f"{g.short}: the registry loop runs over the requested keys"
                if norm(lp.iter) == kp or norm(it) == kp:
                    R.ok("R10.4", g, lp, lab, norm(lp.iter), via="dataflow")
                elif isinstance(it, (ast.ListComp, ast.GeneratorExp)) and len(it.generators) == 1 and norm(it.generators[0].iter) == kp and norm(it.elt) == norm(it.generators[0].target) \
                        and all(isinstance(c_, ast.Compare) and len(c_.ops) == 1 and isinstance(c_.ops[0], (ast.In, ast.NotIn)) and norm(c_.comparators[0]) == fp for c_ in it.generators[0].ifs):
                    R.ok("R10.4", g, lp, lab, f"`{norm(it)[:70]}`: the requested keys, minus those whose registry state is already right", via="dataflow")
                elif kp not in {x.id for x in ast.walk(it) if isinstance(x, ast.Name)}:
                    R.fail("R10.4", g, lp, lab, f"the loop runs over `{norm(it)[:60]}`, not over the requested keys")
                else:
                    R.undecided("R10.4", g, lp, lab, f"iterates `{norm(it)[:70]}`")
    # ---- R10.5
    for a in P.annotators():
        comp = a.methods.get("compute")
        if comp is None:
            continue
        filt = [c for c in ast.walk(comp.node) if isinstance(c, ast.Call) and call_name(c) == "_filter_feature_keys"]
        if not filt:
            # the same filter written out: the keys handed on are a comprehension / list over the active set
            filt = [s_ for s_ in ast.walk(comp.node) if isinstance(s_, ast.Assign) and active_derived(comp, s_.value)]
        R.check(bool(filt), "R10.5", comp, comp.node, f"{a.name}.compute filters the requested keys through the active set", "", via="syntax")
    base = P.class_named("GraphAnnotator").methods.get("_filter_feature_keys")
    if base is not None:
        from ..resolve import Resolver

        rs = Resolver(P, base)
        tests = [rs.text(n.comparators[0]) for n in ast.walk(base.node) if isinstance(n, ast.Compare) and len(n.ops) == 1 and isinstance(n.ops[0], ast.In)]
        tests += [f"self.{n.func.attr}(..)" for n in ast.walk(base.node) if isinstance(n, ast.Call) and isinstance(n.func, ast.Attribute) and norm(n.func.value) == "self" and n.func.attr in ACTIVE_PREDS]
        good_ = {f"self.{c_}" for c_ in ACTIVE_COLLS} | {f"self.{c_}.keys()" for c_ in ACTIVE_COLLS} | {f"self.{p_}(..)" for p_ in ACTIVE_PREDS}
        R.check(bool(tests) and all(t in good_ for t in tests), "R10.5", base, base.node,
                "_filter_feature_keys keeps only keys in self.features", str(tests), via="provenance")
    # ---- R10.6
    enable_recomputes_requested(P, R, "R10.6")
    # ---- R10.7
    for a in P.annotators():
        update_guards(P, R, a, "R10.7")
        from .annot import compute_is_memoryless

        compute_is_memoryless(P, R, a, "R10.8")

    flag_frame(P, R, "R10.9")
    # ---- R10.11 the IoU write kernel writes every edge it is handed (no early exit past the catch-all loop)
    from .annot import total_write

    total_write(P, R, P.class_named("EdgeAnnotator"), "R10.11")

def flag_frame(P: Program, R: Report, rule: str) -> None:
    """activate_features(keys) / deactivate_features(keys) change the inclusion flag of the given keys ONLY: every
    other feature keeps the flag it had (a feature switched off earlier, or never switched on, stays off)."""
    base = P.class_named("GraphAnnotator")
    if base is None:
        raise AnalysisError("GraphAnnotator not found")
    classes = [base] + [c for c in P.subclasses("GraphAnnotator")]
    n = 0
    for c in classes:
        for mname, const in (("activate_features", True), ("deactivate_features", False)):
            m0 = c.methods.get(mname)
            if m0 is None:
                continue
            # the flag write may be delegated to a helper that receives the keys (and the flag)
            todo = [(m0, m0.params[1] if len(m0.params) > 1 else "keys")]
            for cc in ast.walk(m0.node):
                if isinstance(cc, ast.Call) and isinstance(cc.func, ast.Attribute) and norm(cc.func.value) == "self":
                    h = P.lookup_method(c.qname, cc.func.attr)
                    hp = [p_ for p_ in h.params if p_ != "self"] if h is not None else []
                    for i_, a_ in enumerate(cc.args):
                        if h is not None and h is not m0 and norm(a_) == todo[0][1] and i_ < len(hp):
                            todo.append((h, hp[i_]))
            for m, kparam in todo:
                n += _flag_writes(P, R, rule, m, kparam, const)
    if n == 0:
        R.undecided(rule, base.methods.get("activate_features") or base.name, base.node, "activate / deactivate change the flags of the requested keys only", "no flag write recognised")


def _flag_writes(P: Program, R: Report, rule: str, m, kparam: str, const: bool) -> int:
    from ..resolve import Resolver

    rs_ = Resolver(P, m)
    n = 0
    if True:
        if True:
            # names that denote (a sub-collection of) the requested keys
            req = {kparam}
            for s in ast.walk(m.node):
                if isinstance(s, ast.Assign) and len(s.targets) == 1 and isinstance(s.targets[0], ast.Name):
                    v = s.value
                    if isinstance(v, (ast.ListComp, ast.SetComp)) and any(norm(g.iter) in req for g in v.generators) and norm(v.elt) == norm(v.generators[0].target):
                        req.add(s.targets[0].id)
                    if isinstance(v, ast.Call) and call_name(v) in ("set", "list", "sorted", "tuple", "frozenset") and v.args and norm(v.args[0]) in req:
                        req.add(s.targets[0].id)
            table = None
            for s in ast.walk(m.node):
                if isinstance(s, ast.Assign):
                    for t in s.targets:
                        # form A: item write
                        pair = isinstance(s.value, ast.Tuple) and len(s.value.elts) == 2
                        if isinstance(s.value, ast.Call) and isinstance(s.value.func, ast.Name) and len(s.value.args) + len(s.value.keywords) == 2:
                            ci_ = P.classes.get(P.resolve_name(m.module, s.value.func.id) or "")
                            pair = ci_ is not None and any(norm(b_).endswith("NamedTuple") for b_ in ci_.node.bases)
                        if isinstance(t, ast.Subscript) and rs_.text(t.value).startswith("self.") and pair:
                            table = rs_.text(t.value)
                            n += 1
                            k = norm(t.slice)
                            loops = [(fld, nd) for fld, nd in enclosing(m, s) if isinstance(nd, ast.For) and isinstance(nd.target, ast.Name) and nd.target.id == k]
                            over_req = any(norm(nd.iter) in req for _, nd in loops)
                            guard_in = any(isinstance(nd, ast.If) and fld == "body" and any(
                                isinstance(x, ast.Compare) and len(x.ops) == 1 and isinstance(x.ops[0], ast.In) and norm(x.left) == k and norm(x.comparators[0]) in req for x in ast.walk(nd.test))
                                for fld, nd in enclosing(m, s))
                            if over_req or guard_in:
                                R.ok(rule, m, s, f"{m.short}: the flag is written for requested keys only", via="loop-shape")
                            elif loops:
                                R.fail(rule, m, s, f"{m.short}: the flag is written for requested keys only",
                                       f"`{norm(s)[:70]}` runs for every `{k}` in `{norm(loops[0][1].iter)[:40]}` without a test `{k} in {kparam}`: features outside the request change their flag")
                            else:
                                R.undecided(rule, m, s, f"{m.short}: the flag is written for requested keys only", f"binding of `{k}` not recognised")
                        # form B: the table is rebuilt
                        if isinstance(t, ast.Attribute) and norm(t).startswith("self.") and isinstance(s.value, ast.DictComp) and isinstance(s.value.value, ast.Tuple) and len(s.value.value.elts) == 2:
                            n += 1
                            comp = s.value
                            g = comp.generators[0]
                            flag = comp.value.elts[1]
                            old = None
                            if isinstance(g.target, ast.Tuple) and len(g.target.elts) == 2 and isinstance(g.target.elts[1], ast.Tuple) and len(g.target.elts[1].elts) == 2:
                                old = norm(g.target.elts[1].elts[1])
                            kvar = norm(comp.key)
                            names = {x.id for x in ast.walk(flag) if isinstance(x, ast.Name)}
                            over_all = norm(t) in norm(g.iter)
                            if not over_all:
                                R.undecided(rule, m, s, f"{m.short}: rebuilt flag table keeps the other features' flags", "source of the rebuilt table not recognised")
                            elif old is None or old not in names:
                                R.fail(rule, m, s, f"{m.short}: rebuilt flag table keeps the other features' flags",
                                       f"the new flag `{norm(flag)[:50]}` does not use the previous flag: every feature outside `{kparam}` becomes "
                                       f"{'inactive' if const else 'ACTIVE'}, whatever it was (disabled or never-enabled features are then recomputed and written by edits)")
                            else:
                                ftxt = norm(flag).replace(" ", "")
                                good = {
                                    True: {f"{old}or{kvar}in{kparam}", f"{kvar}in{kparam}or{old}", f"Trueif{kvar}in{kparam}else{old}"},
                                    False: {f"{old}and{kvar}notin{kparam}", f"{kvar}notin{kparam}and{old}", f"Falseif{kvar}in{kparam}else{old}"},
                                }[const]
                                if ftxt in good:
                                    R.ok(rule, m, s, f"{m.short}: rebuilt flag table keeps the other features' flags", via="expr-shape")
                                else:
                                    R.undecided(rule, m, s, f"{m.short}: rebuilt flag table keeps the other features' flags", f"flag expression `{norm(flag)[:60]}` not recognised")
    return n
