"""E3/E5 - abstract interpretation of action code along condition-consistent paths.

The constructor of a user action (or any function) is walked path by path.  Internal
callees that may raise, mutate or construct actions are INLINED (renamed copy of their
body, parameters bound to argument terms), so guards inside a primitive put obligations on
every call site and constant flags (`force=False`, `_top_level=False`) propagate by
themselves.  A small fact domain over value-numbered terms prunes infeasible branches.

Nothing is executed; terms are strings, facts are tuples.
"""

from __future__ import annotations

import ast
import copy
import hashlib
import itertools
from dataclasses import dataclass, field

from .cfg import stores
from .model import AnalysisError, FuncInfo, Program, call_name, norm, u
from .paths import Hooks, PathWalker, PState

INF = 99

# Tracks/SolutionTracks API whose meaning is modelled directly (never inlined)
QUERY_API = {
    "get_time", "get_times", "predecessors", "successors", "get_track_id", "get_lineage_id",
    "get_track_neighbors", "get_next_track_id", "get_next_lineage_id", "has_track_id_at_time",
    "get_node_attr", "get_nodes_attr", "get_edge_attr", "get_edges_attr", "get_pixels",
    "get_positions", "get_position", "nodes", "edges", "in_degree", "out_degree",
}
NX_QUERIES = {
    "has_node", "has_edge", "in_degree", "out_degree", "predecessors", "successors",
    "in_edges", "out_edges", "number_of_nodes", "nodes", "edges",
}
NX_MUTATORS = {"add_node", "add_edge", "remove_node", "remove_edge"}
PURE_BUILTINS = {
    "len", "int", "float", "str", "bool", "tuple", "list", "set", "dict", "next", "iter",
    "range", "zip", "enumerate", "isinstance", "sorted", "min", "max", "sum", "any", "all",
    "abs", "round", "repr", "type", "id", "hasattr", "getattr", "frozenset", "reversed",
}


@dataclass
class Event:
    kind: str  # construct mut hist emit raise notify append implicit query call
    name: str
    args: dict
    node: ast.AST
    depth: int
    ctx: tuple
    dirty: bool = False
    pre: dict | None = None  # snapshot of relevant facts before the event
    origin: FuncInfo | None = None
    _site0: tuple | None = None
    xdepth: int = 0  # inlining depth not counting helper methods of the analysed class itself
    xctx: tuple = ()  # ctx without those helpers

    def where(self) -> str:
        f = self.origin
        return f"{f.module.rel}:{getattr(self.node, 'lineno', 0)}" if f else "?"

    def brief(self) -> str:
        a = ", ".join(f"{k}={v}" for k, v in self.args.items() if v is not None)
        return f"{self.kind}:{self.name}({a})"


class Alt:
    """Alternative event suffixes of paths that were merged because their abstract state
    (facts, bindings, degrees, epoch, dirty flag) was identical."""

    __slots__ = ("options",)

    def __init__(self, options):
        self.options = options


def event_key(e) -> tuple:
    return (
        e.kind, e.name, tuple(sorted((k, str(v)) for k, v in e.args.items())),
        getattr(e.node, "lineno", 0), getattr(e.node, "col_offset", 0), e.depth, e.ctx, e.dirty,
    )


def expand_events(events, keep=None, limit: int = 100000, extra=None):
    """Distinct flat event sequences denoted by a list that may contain Alt items,
    restricted to the events selected by `keep` (sequences equal after the restriction
    are one sequence)."""

    def rec(evs):
        out = {(): []}
        for item in evs:
            if isinstance(item, Alt):
                subs = {}
                for opt in item.options:
                    subs.update(rec(opt))
                new = {}
                for ka, a in out.items():
                    for kb, b in subs.items():
                        new[ka + kb] = a + b
                out = new
            elif keep is None or keep(item):
                k = ((event_key(item), extra(item) if extra else None),)
                out = {ka + k: a + [item] for ka, a in out.items()}
            if len(out) > limit:
                raise AnalysisError("event alternatives exceed the expansion budget")
        return out

    return list(rec(events).values())


def merge_events(a: list, b: list) -> list:
    i = 0
    while i < len(a) and i < len(b) and a[i] is b[i]:
        i += 1
    if i == len(a) and i == len(b):
        return a
    ta, tb = a[i:], b[i:]
    if len(ta) == 1 and isinstance(ta[0], Alt):
        return a[:i] + [Alt(ta[0].options + [tb])]
    return a[:i] + [Alt([ta, tb])]


class AState:
    __slots__ = (
        "vars", "facts", "din", "dout", "epoch", "dirty", "dirty_at", "events", "ret",
        "pending", "timeeq", "axioms",
    )

    def __init__(self):
        self.vars: dict[str, str] = {}
        self.facts: set = set()
        self.din: dict[str, tuple[int, int]] = {}
        self.dout: dict[str, tuple[int, int]] = {}
        self.epoch = 0
        self.dirty = False
        self.dirty_at: Event | None = None
        self.events: list[Event] = []
        self.ret: str | None = None
        self.pending: dict[str, list] = {}  # term -> [(epoch, cond, fact...)]
        self.timeeq: dict[str, str] = {}  # time term -> representative
        self.axioms: list[str] = []

    def copy(self) -> AState:
        s = AState()
        s.vars = dict(self.vars)
        s.facts = set(self.facts)
        s.din = dict(self.din)
        s.dout = dict(self.dout)
        s.epoch = self.epoch
        s.dirty = self.dirty
        s.dirty_at = self.dirty_at
        s.events = list(self.events)
        s.ret = self.ret
        s.pending = {k: list(v) for k, v in self.pending.items()}
        s.timeeq = dict(self.timeeq)
        s.axioms = list(self.axioms)
        return s

    # ---- fact helpers
    def has(self, *f) -> bool:
        return tuple(f) in self.facts

    def add(self, *f) -> None:
        self.facts.add(tuple(f))

    def drop(self, *f) -> None:
        self.facts.discard(tuple(f))

    def trep(self, t: str) -> str:
        while t in self.timeeq and self.timeeq[t] != t:
            t = self.timeeq[t]
        return t

    def time_eq(self, a: str, b: str) -> None:
        a, b = self.trep(a), self.trep(b)
        if a.startswith("time(") and not b.startswith("time("):
            a, b = b, a  # keep the node-based spelling as representative
        if a != b:
            self.timeeq[a] = b
            for f in list(self.facts):
                if f[0] == "tlt" and (f[1] == a or f[2] == a):
                    self.facts.discard(f)
                    self.facts.add(("tlt", b if f[1] == a else f[1], b if f[2] == a else f[2]))

    def time_lt(self, a: str, b: str) -> bool:
        a, b = self.trep(a), self.trep(b)
        seen, todo = set(), [a]
        while todo:
            x = todo.pop()
            if x in seen:
                continue
            seen.add(x)
            for f in self.facts:
                if f[0] == "tlt" and self.trep(f[1]) == x:
                    y = self.trep(f[2])
                    if y == b:
                        return True
                    todo.append(y)
        return False

    def node_known(self, t: str) -> bool:
        if self.has("node", t):
            return True
        return any(f[0] == "edge" and t in f[1:] for f in self.facts)

    def snapshot(self) -> dict:
        return {
            "facts": set(self.facts),
            "din": dict(self.din),
            "dout": dict(self.dout),
            "timeeq": dict(self.timeeq),
            "epoch": self.epoch,
        }


def is_tuple_term(t: str) -> bool:
    return t.startswith("(") and t.endswith(")") and _balanced(t[1:-1])


def _balanced(s: str) -> bool:
    d = 0
    for ch in s:
        if ch in "([{":
            d += 1
        elif ch in ")]}":
            d -= 1
            if d < 0:
                return False
    return d == 0


def split_tuple(t: str) -> list[str]:
    inner = t[1:-1]
    out, d, cur = [], 0, ""
    for ch in inner:
        if ch in "([{":
            d += 1
        elif ch in ")]}":
            d -= 1
        if ch == "," and d == 0:
            out.append(cur.strip())
            cur = ""
        else:
            cur += ch
    if cur.strip():
        out.append(cur.strip())
    return out


def index_term(t: str, i: int) -> str:
    if is_tuple_term(t):
        parts = split_tuple(t)
        if 0 <= i < len(parts):
            return parts[i]
    return f"{t}[{i}]"


class _Renamer(ast.NodeTransformer):
    """Prefix every local name of an inlined callee; tag nodes with their origin."""

    def __init__(self, prefix: str, local_names: set[str], origin: FuncInfo):
        self.prefix, self.names, self.origin = prefix, local_names, origin

    def visit_Name(self, n: ast.Name):
        if n.id in self.names:
            n = ast.copy_location(ast.Name(self.prefix + n.id, n.ctx), n)
        return n

    def visit_FunctionDef(self, n):
        return n  # nested defs are not executed when the def statement runs

    def visit_Lambda(self, n):
        return n

    def generic_visit(self, n):
        n = super().generic_visit(n)
        n._origin = self.origin
        return n


def local_names(fn: ast.FunctionDef) -> set[str]:
    a = fn.args
    out = {x.arg for x in a.posonlyargs + a.args + a.kwonlyargs}
    if a.vararg:
        out.add(a.vararg.arg)
    if a.kwarg:
        out.add(a.kwarg.arg)
    for n in ast.walk(fn):
        if isinstance(n, ast.Name) and isinstance(n.ctx, (ast.Store, ast.Del)):
            out.add(n.id)
        elif isinstance(n, ast.ExceptHandler) and n.name:
            out.add(n.name)
    return out


def dotted(e: ast.expr) -> str | None:
    if isinstance(e, ast.Name):
        return e.id
    if isinstance(e, ast.Attribute):
        b = dotted(e.value)
        return None if b is None else f"{b}.{e.attr}"
    return None


class Interp(Hooks):
    """Abstract interpreter.  One instance per analysed entry function."""

    INLINE_DEPTH = 8

    def __init__(self, P: Program, entry: FuncInfo, loop_iters: int = 1, bind: dict | None = None):
        self.P = P
        self.entry = entry
        self.env: dict[str, str] = dict(P.local_env(entry))
        self.walker = PathWalker(self, loop_iters=loop_iters)
        self.counter = itertools.count(1)
        self.stack: list[tuple[FuncInfo, str]] = []  # (callee, prefix) currently inlined
        self.bind = bind or {}
        self.action_base = {c.qname for c in P.subclasses("Action", strict=False)}
        self.prim_q = {c.qname for c in P.primitives()}
        self.user_q = {c.qname for c in P.subclasses("ActionGroup")}
        self.hist_cls = P.history_class()
        self.signals = self._signal_names()
        self.register_methods = self._register_methods()
        self._summ_cache: dict[str, tuple[bool, bool]] = {}
        self._body_cache: dict = {}
        self.solution_tracks = self.env.get("tracks", "").endswith("SolutionTracks")
        self._live: dict[int, dict[int, set[str]]] = {}
        self.inlined_functions: set[str] = set()
        self.bool_defs: dict[str, ast.expr] = {}
        self.comp_defs: dict[str, ast.expr] = {}
        self.table_defs: dict[str, ast.DictComp] = {}  # name -> {k: f(k) for k in xs}: a function table, T[x] is f(x)
        self.nt_registry: dict[str, list[str]] = {}
        self.dict_defs: dict[str, ast.Dict] = {}
        self.site0 = None
        self.opaque_calls: dict[str, int] = {}

    # ------------------------------------------------------------------ roles
    def _signal_names(self) -> set[str]:
        out = set()
        for c in self.P.mro(self.P.class_named("Tracks").qname):
            for b in c.node.body:
                if isinstance(b, ast.Assign) and isinstance(b.value, ast.Call):
                    if call_name(b.value) == "Signal":
                        out |= {t.id for t in b.targets if isinstance(t, ast.Name)}
        if not out:
            raise AnalysisError("no Signal attribute found on Tracks")
        return out

    def _register_methods(self) -> set[str]:
        """Methods of the history class that put their parameter on a stack."""
        out = set()
        for name, m in self.hist_cls.methods.items():
            if name == "__init__":
                continue
            params = set(m.params[1:])

            def is_param(x):
                return isinstance(x, ast.Name) and x.id in params

            for c in ast.walk(m.node):
                if isinstance(c, ast.Call) and call_name(c) in ("append", "insert") and c.args and is_param(c.args[-1]):
                    out.add(name)
                if isinstance(c, ast.Call) and call_name(c) == "extend" and c.args and isinstance(c.args[0], (ast.List, ast.Tuple)) and any(is_param(x) for x in c.args[0].elts):
                    out.add(name)
                if isinstance(c, ast.AugAssign) and isinstance(c.op, ast.Add) and isinstance(c.value, (ast.List, ast.Tuple)) and any(is_param(x) for x in c.value.elts):
                    out.add(name)
        if not out:
            # the parameter may reach the stack through a local (`tail = [action]` ... extend / slice assignment)
            for name, m in self.hist_cls.methods.items():
                if name == "__init__" or len(m.params) < 2:
                    continue
                in_list = any(isinstance(x, (ast.List, ast.Tuple)) and any(isinstance(y, ast.Name) and y.id in m.params[1:] for y in x.elts) for x in ast.walk(m.node))
                writes = any(isinstance(x, (ast.Assign, ast.AugAssign)) and any(isinstance(t, (ast.Subscript, ast.Attribute)) and norm(t).startswith("self.") for t in (x.targets if isinstance(x, ast.Assign) else [x.target]))
                             for x in ast.walk(m.node)) or any(isinstance(x, ast.Call) and call_name(x) in ("extend", "append") and norm(x.func.value).startswith("self.") for x in ast.walk(m.node))
                if in_list and writes:
                    out.add(name)
        if not out:
            raise AnalysisError("history class has no registering method")
        return out

    # ------------------------------------------------------------------ running
    def run(self) -> list[tuple[PState, str, ast.AST | None]]:
        st = AState()
        for p in self.entry.params:
            st.vars[p] = self.bind.get(p, f"${p}")
        for n in ast.walk(self.entry.node):
            n._origin = self.entry
        self.index_liveness(self.entry.node.body)
        self.stack = []
        return self.walker.run(self.entry.node, st)

    def own_helper(self, f: FuncInfo) -> bool:
        """Is `f` a helper of the analysed entry (method of the same class / its bases that is
        not a constructor, or a nested function of the entry)?"""
        e = self.entry
        if f.parent is not None and (f.parent is e or f.parent.parent is e):
            return True
        if e.cls is None or f.cls is None or f.name == "__init__":
            return False
        if f.cls.qname == e.cls.qname:
            return True
        return f.cls.qname in {c.qname for c in self.P.mro(e.cls.qname)} and f.cls.qname in self.user_q | {
            c.qname for c in self.P.mro(e.cls.qname) if c.name in ("ActionGroup", "Action")
        }

    def origin(self, node: ast.AST) -> FuncInfo:
        return getattr(node, "_origin", self.entry)

    @property
    def depth(self) -> int:
        return len(self.stack)

    def ctx(self) -> tuple:
        return tuple(f.short for f, _ in self.stack)

    def emit_event(self, st: PState, kind, name, args, node, pre=None) -> Event:
        d: AState = st.data
        ev = Event(kind, name, args, node, self.depth, self.ctx(), d.dirty, pre, self.origin(node))
        ev._site0 = self.site0
        # helper methods (anything but the constructor) of the analysed class and of nested user actions are not levels
        ev.xctx = tuple(f.short for f, _ in self.stack if not (self.own_helper(f) or (f.cls is not None and f.cls.qname in self.user_q and f.name != "__init__")))
        ev.xdepth = len(ev.xctx)
        d.events.append(ev)
        return ev

    # ------------------------------------------------------------------ terms
    def term(self, e: ast.expr | None, d: AState) -> str:
        if e is None:
            return "None"
        if isinstance(e, ast.Constant):
            return repr(e.value)
        dn = dotted(e)
        if dn is not None and dn in d.vars:
            return d.vars[dn]
        if isinstance(e, ast.Name):
            q = self.P.resolve_name(self.origin(e).module, e.id)
            if q and q in self.P.constants:
                c = self.P.constants[q]
                if isinstance(c, ast.Constant):
                    return repr(c.value)
            return f"g:{e.id}"
        if isinstance(e, ast.Attribute):
            bt_ = self.term(e.value, d)
            if bt_ in self.nt_registry and e.attr in self.nt_registry[bt_]:
                return split_tuple(bt_)[self.nt_registry[bt_].index(e.attr)]
            key = f"{bt_}.{e.attr}"
            return d.vars.get(key, key)
        if isinstance(e, (ast.Tuple, ast.List)):
            parts = []
            for x in e.elts:
                if isinstance(x, ast.Starred):
                    t = self.term(x.value, d)
                    parts.extend(split_tuple(t) if is_tuple_term(t) else [f"*{t}"])
                else:
                    parts.append(self.term(x, d))
            return "(" + ", ".join(parts) + ("," if len(parts) == 1 else "") + ")"
        if isinstance(e, ast.Subscript):
            b = self.term(e.value, d)
            if isinstance(e.slice, ast.Constant) and isinstance(e.slice.value, int):
                return self._index(b, e.slice.value, d)
            # a function table built by a dict comprehension in the current graph state: T[x] is f(x)
            if isinstance(e.value, ast.Name) and e.value.id in self.table_defs and d.vars.get(f"__tdef.{e.value.id}") == str(d.epoch):
                dc = self.table_defs[e.value.id]
                kt = self.term(e.slice, d)
                return self._with_binding(dc.generators[0].target, kt, d, lambda: self.term(dc.value, d))
            # children[1 - children.index(n)]: the other one of the two children of p (n is known to be one of them)
            sl = e.slice
            if isinstance(sl, ast.BinOp) and isinstance(sl.op, ast.Sub) and isinstance(sl.left, ast.Constant) and sl.left.value == 1 and isinstance(sl.right, ast.Call) \
                    and isinstance(sl.right.func, ast.Attribute) and sl.right.func.attr == "index" and len(sl.right.args) == 1 and self.term(sl.right.func.value, d) == b:
                pp_ = parse_call_term(b)
                if pp_ and pp_[0] == "succs" and len(pp_[1]) == 1 and pp_[2] == d.epoch:
                    n_t = self.term(sl.right.args[0], d)
                    lo_, hi_, _ = self.deg(d, "out", pp_[1][0])
                    if lo_ == hi_ == 2 and self._edge_known(pp_[1][0], n_t, d):
                        return f"sibling({pp_[1][0]}, {n_t})@{pp_[2]}"
            k = self.term(e.slice, d)
            items = dict_literal_items(b)
            if items is not None and k in items and not d.has("dictmod", b):
                return items[k]
            for f in d.facts:
                if f[0] == "item" and f[1] == b and f[2] == k:
                    return f[3]
            return f"{b}[{k}]"
        if isinstance(e, ast.Dict):
            items = []
            for k, v in zip(e.keys, e.values, strict=True):
                items.append(f"{self.term(k, d) if k is not None else '**'}: {self.term(v, d)}")
            if not items:
                return "{}@L%d" % getattr(e, "lineno", 0)
            return "{" + ", ".join(items) + "}"
        if isinstance(e, ast.Call):
            return self.call_term(e, d)
        if isinstance(e, ast.NamedExpr):
            return self.term(e.value, d)
        if isinstance(e, ast.IfExp):
            # decide if the test is known, else an opaque choice
            k = self.decide(e.test, d)
            if k is True:
                return self.term(e.body, d)
            if k is False:
                return self.term(e.orelse, d)
            bt, ot = self.term(e.body, d), self.term(e.orelse, d)
            sib = self._other_child(e.test, bt, ot, d)
            if sib is not None:
                return sib
            return f"ite({self._subst(e.test, d)}, {bt}, {ot})"
        if isinstance(e, ast.UnaryOp) and isinstance(e.op, ast.Not):
            return f"not {self.term(e.operand, d)}"
        if isinstance(e, (ast.ListComp, ast.SetComp, ast.GeneratorExp)) and len(e.generators) == 1 and isinstance(e.generators[0].target, ast.Name):
            g = e.generators[0]
            # [c for c in successors(p) if c != n]  with n a child of p: the other children of p
            if isinstance(e.elt, ast.Name) and e.elt.id == g.target.id and len(g.ifs) == 1 and isinstance(g.ifs[0], ast.Compare) and len(g.ifs[0].ops) == 1 \
                    and isinstance(g.ifs[0].ops[0], (ast.NotEq, ast.IsNot)):
                it_t = self.term(g.iter, d)
                pp = parse_call_term(it_t)
                cmp_ = g.ifs[0]
                sides = [cmp_.left, cmp_.comparators[0]]
                other = [x for x in sides if not (isinstance(x, ast.Name) and x.id == g.target.id)]
                if pp and pp[0] == "succs" and pp[2] == d.epoch and len(other) == 1:
                    n_t = self.term(other[0], d)
                    if self._edge_known(pp[1][0], n_t, d):
                        return f"succs_minus({pp[1][0]}, {n_t})@{pp[2]}"
            # a comprehension over a collection whose elements are known is the tuple of its element terms
            elems = self._known_elements(self.term(g.iter, d), d)
            if elems is not None:
                out = []
                ok = True
                for el in elems:
                    keep = True
                    for cond in g.ifs:
                        r = self._with_binding(g.target, el, d, lambda c=cond: self.decide(c, d))
                        if r is None:
                            ok = False
                        elif r is False:
                            keep = False
                    if keep:
                        out.append(self._with_binding(g.target, el, d, lambda: self.term(e.elt, d)))
                if ok:
                    return "(" + ", ".join(out) + ("," if len(out) == 1 else "") + ")" if out else "()"
        if isinstance(e, ast.DictComp) and len(e.generators) == 1 and isinstance(e.generators[0].target, ast.Name) and not e.generators[0].ifs:
            g = e.generators[0]
            elems = self._known_elements(self.term(g.iter, d), d)
            if elems is not None and elems:
                items = [self._with_binding(g.target, el, d, lambda: f"{self.term(e.key, d)}: {self.term(e.value, d)}") for el in elems]
                return "{" + ", ".join(items) + "}"
        if isinstance(e, (ast.ListComp, ast.SetComp, ast.DictComp, ast.GeneratorExp, ast.Lambda, ast.JoinedStr)):
            return f"expr@L{getattr(e, 'lineno', 0)}c{getattr(e, 'col_offset', 0)}"
        return self._subst(e, d)

    def _namedtuple_fields(self, cls) -> list[str] | None:
        if not any(norm(b).endswith("NamedTuple") for b in cls.node.bases):
            return None
        return [s_.target.id for s_ in cls.node.body if isinstance(s_, ast.AnnAssign) and isinstance(s_.target, ast.Name)]

    def _known_elements(self, t: str, d: AState):
        """element terms of a collection term whose length is known now, else None"""
        if is_tuple_term(t):
            return split_tuple(t)
        if t in ("()", "[]"):
            return []
        p = parse_call_term(t)
        if p and p[0] in ("succs", "preds") and len(p[1]) == 1 and p[2] == d.epoch:
            lo, hi, _ = self.deg(d, "out" if p[0] == "succs" else "in", p[1][0])
            if lo == hi:
                if lo == 1:
                    els = [("succ1(" if p[0] == "succs" else "pred1(") + t[len(p[0]) + 1:]]
                else:
                    els = [f"{t}#{i}" for i in range(lo)]
                # iterating the children / parents of a node names existing edges
                for el in els:
                    a, b = (p[1][0], el) if p[0] == "succs" else (el, p[1][0])
                    if not d.has("noedge", a, b):
                        self._add_edge_fact(d, a, b)
                return els
        return None

    def _other_child(self, test: ast.expr, bt: str, ot: str, d: AState):
        """`b if a == n else a` (or `a if a != n else b`) with (a, b) the two children of one parent: the OTHER child of
        that parent, i.e. the sibling of n - the same term the remove-then-index idiom produces."""
        if not (isinstance(test, ast.Compare) and len(test.ops) == 1 and isinstance(test.ops[0], (ast.Eq, ast.NotEq, ast.Is, ast.IsNot))):
            return None
        l, r = self.term(test.left, d), self.term(test.comparators[0], d)
        eq = isinstance(test.ops[0], (ast.Eq, ast.Is))
        chosen_if_equal, chosen_else = (bt, ot) if eq else (ot, bt)

        def kids(t):
            p = parse_call_term(t)
            if p and p[0] == "succ1":
                return p[1][0], 0, p[2]
            m = _re.fullmatch(r"succs\((.*)\)@(\d+)#(\d)", t)
            return (m.group(1), int(m.group(3)), int(m.group(2))) if m else None

        ka, kb = kids(chosen_if_equal), kids(chosen_else)
        if not ka or not kb or ka[0] != kb[0] or ka[2] != kb[2] or {ka[1], kb[1]} != {0, 1}:
            return None
        # the compared child is the one NOT chosen when the comparison succeeds
        compared, n = (l, r) if l == chosen_else else ((r, l) if r == chosen_else else (None, None))
        if compared is None:
            return None
        return f"sibling({ka[0]}, {n})@{ka[2]}"

    def _subst(self, e: ast.AST, d: AState) -> str:
        """Text of an expression with bound names / calls replaced by their terms."""
        interp = self

        def rebuild(n):
            if isinstance(n, ast.Name):
                return ast.Name(d.vars[n.id], ast.Load()) if n.id in d.vars else n
            if isinstance(n, ast.Attribute):
                dn = dotted(n)
                if dn is not None and dn in d.vars:
                    return ast.Name(d.vars[dn], ast.Load())
                t = interp.term(n, d)
                return ast.Name(t, ast.Load())
            if isinstance(n, ast.Call):
                return ast.Name(interp.call_term(n, d), ast.Load())
            if not isinstance(n, ast.AST):
                return n
            fields = {}
            for f, old in ast.iter_fields(n):
                if isinstance(old, list):
                    fields[f] = [rebuild(x) for x in old]
                else:
                    fields[f] = rebuild(old)
            return type(n)(**fields)

        try:
            return norm(rebuild(e))
        except Exception:  # noqa: BLE001
            return norm(e)

    def _index(self, b: str, i: int, d: AState) -> str:
        if is_tuple_term(b):
            return index_term(b, i)
        if b.startswith("succs(") and i == 0:
            return "succ1(" + b[len("succs("):]
        if b.startswith("preds(") and i == 0:
            return "pred1(" + b[len("preds("):]
        if b.startswith("in_edges(") and i == 0:
            n = b[len("in_edges("):].rsplit(")@", 1)[0]
            ep = b.rsplit("@", 1)[1]
            return f"(pred1({n})@{ep}, {n})"
        if b.startswith("succs_minus(") and i == 0:
            inner, ep = b[len("succs_minus("):].rsplit(")@", 1)
            p, x = split_tuple("(" + inner + ")")
            return f"sibling({p}, {x})@{ep}"
        return f"{b}[{i}]"

    def is_graph(self, e: ast.expr, d: AState) -> bool:
        t = self.term(e, d)
        return t.endswith(".graph") and not t.startswith("g:")

    def args_terms(self, call: ast.Call, d: AState) -> list[str]:
        out = []
        for a in call.args:
            if isinstance(a, ast.Starred):
                t = self.term(a.value, d)
                out.extend(split_tuple(t) if is_tuple_term(t) else [f"{t}[0]", f"{t}[1]"])
            else:
                out.append(self.term(a, d))
        return out

    def call_term(self, c: ast.Call, d: AState) -> str:
        if isinstance(c.func, ast.Name) and isinstance(d.vars.get(c.func.id), str) and _re.fullmatch(r"\$\w+(\.\w+){2,}", d.vars[c.func.id]) and not getattr(c, "_spelled", False):
            try:
                fexpr = ast.parse(d.vars[c.func.id][1:], mode="eval").body
                call2 = ast.copy_location(ast.Call(func=fexpr, args=c.args, keywords=c.keywords), c)
                ast.fix_missing_locations(call2)
                for n_ in ast.walk(call2.func):
                    n_._origin = self.entry
                call2._origin = getattr(c, "_origin", None)
                call2._spelled = True
                return self.call_term(call2, d)
            except SyntaxError:
                pass
        fn = c.func
        name = call_name(c)
        ep = d.epoch
        # --- networkx graph queries on the tracks graph
        if isinstance(fn, ast.Attribute) and name in NX_QUERIES and self.is_graph(fn.value, d):
            a = self.args_terms(c, d)
            if name == "has_node" and a:
                return f"has_node({a[0]})@{ep}"
            if name == "has_edge" and len(a) >= 2:
                return f"has_edge({a[0]}, {a[1]})@{ep}"
            if name in ("in_degree", "out_degree") and len(a) == 1:
                return f"{'indeg' if name == 'in_degree' else 'outdeg'}({a[0]})@{ep}"
            if name in ("predecessors", "successors") and len(a) == 1:
                return f"{'preds' if name == 'predecessors' else 'succs'}({a[0]})@{ep}"
            if name in ("in_edges", "out_edges") and len(a) == 1:
                return f"{name}({a[0]})@{ep}"
            return f"graph.{name}({', '.join(a)})@{ep}"
        # --- builtins
        if isinstance(fn, ast.Name) and fn.id in PURE_BUILTINS and fn.id not in d.vars:
            a = [self.term(x, d) for x in c.args]
            if fn.id in ("list", "tuple", "iter") and len(a) == 1:
                if fn.id == "tuple" and not is_tuple_term(a[0]):
                    return f"tuple({a[0]})"
                return a[0]
            if fn.id == "next" and len(a) >= 1:
                b = a[0]
                if b.startswith("preds("):
                    pp = parse_call_term(b)
                    if pp and pp[2] == d.epoch:
                        for f in d.facts:
                            if f[0] in ("edge", "ax_edge") and f[2] == pp[1][0]:
                                return f[1]
                    return "pred1(" + b[len("preds("):]
                if b.startswith("succs("):
                    return "succ1(" + b[len("succs("):]
                if b.startswith("in_edges(") or b.startswith("succs_minus("):
                    return self._index(b, 0, d)
                return f"next({', '.join(a)})"
            if fn.id == "len" and len(a) == 1:
                b = a[0]
                if b.startswith("preds("):
                    return "indeg(" + b[len("preds("):]
                if b.startswith("succs("):
                    return "outdeg(" + b[len("succs("):]
                if b.startswith("succs_minus("):
                    inner_, ep_ = b[len("succs_minus("):].rsplit(")@", 1)
                    return f"outdegm1({split_tuple('(' + inner_ + ')')[0]})@{ep_}"
                if b.startswith("in_edges("):
                    return "indeg(" + b[len("in_edges("):]
                if b.startswith("out_edges("):
                    return "outdeg(" + b[len("out_edges("):]
                if is_tuple_term(b):
                    return repr(len(split_tuple(b)))
                return f"len({b})"
            if fn.id == "int" and len(a) == 1:
                return a[0]
            if fn.id == "zip" and len(a) >= 2:
                lens = {len(split_tuple(x)) for x in a if is_tuple_term(x)}
                if len(lens) == 1:
                    n_ = lens.pop()
                    cols = [split_tuple(x) if is_tuple_term(x) else [f"{x}[{i}]" for i in range(n_)] for x in a]
                    if all(is_tuple_term(x) or x.startswith("$") for x in a):
                        return "(" + ", ".join("(" + ", ".join(col[i] for col in cols) + ")" for i in range(n_)) + ")"
            return f"{fn.id}({', '.join(a)})"
        # --- Tracks API
        tgt = self.resolve(c, d)
        if tgt and tgt[0] == "func":
            fi = tgt[1][0]
            cls = fi.cls.name if fi.cls else None
            a = self.args_terms(c, d)
            if cls in ("Tracks", "SolutionTracks") or (
                fi.cls and self.P.is_subclass(fi.cls.qname, "Tracks")
            ):
                if fi.name == "get_time" and a:
                    return d.trep(f"time({a[0]})")
                if fi.name in ("predecessors", "successors") and a:
                    return f"{'preds' if fi.name == 'predecessors' else 'succs'}({a[0]})@{ep}"
                if fi.name == "get_track_id" and a:
                    return f"tid({a[0]})@{ep}"
                if fi.name == "get_lineage_id" and a:
                    return f"lid({a[0]})@{ep}"
                if fi.name == "get_track_neighbors" and len(a) >= 2:
                    return f"nbrs({a[0]}, {a[1]})@{ep}"
                if fi.name == "has_track_id_at_time" and len(a) >= 2:
                    return f"at_time({a[0]}, {a[1]})@{ep}"
                if fi.name == "get_next_track_id":
                    return f"fresh_tid@{ep}"
                if fi.name == "get_next_lineage_id":
                    return f"fresh_lid@{ep}"
            return f"{fi.short}({', '.join(a)})@{ep}"
        if tgt and tgt[0] == "class":
            a = self.args_terms(c, d)
            fields = self._namedtuple_fields(tgt[1])
            if fields is not None:
                # a NamedTuple is the tuple of its fields; remember the field names for attribute access
                vals = list(a) + [None] * (len(fields) - len(a))
                for kw in c.keywords:
                    if kw.arg in fields:
                        vals[fields.index(kw.arg)] = self.term(kw.value, d)
                if all(v is not None for v in vals):
                    t = "(" + ", ".join(vals) + ("," if len(vals) == 1 else "") + ")"
                    self.nt_registry[t] = fields
                    return t
            return f"new {tgt[1].name}({', '.join(a)})"
        # method on a local value
        if isinstance(fn, ast.Attribute):
            recv = self.term(fn.value, d)
            a = self.args_terms(c, d)
            if name == "get" and a:
                return f"{recv}.get({', '.join(a)})"
            if name == "copy" and not a:
                return recv
            return f"{recv}.{name}({', '.join(a)})@{ep}"
        return f"{norm(fn)}(...)@{ep}"

    def resolve(self, c: ast.Call, d: AState):
        return self.P.resolve_call(c, self.env, self.origin(c), count=False)


# ====================================================================== conditions
def _int(t: str):
    try:
        return int(t)
    except (TypeError, ValueError):
        return None


def parse_call_term(t: str):
    """'name(args)@ep' -> (name, [args], ep) or None"""
    if "(" not in t or "@" not in t:
        return None
    head, _, ep = t.rpartition("@")
    if not head.endswith(")") or _int(ep) is None:
        return None
    name, _, rest = head.partition("(")
    inner = rest[:-1]
    if not _balanced(inner):
        return None
    return name, split_tuple("(" + inner + ")"), int(ep)


def dict_literal_items(t: str):
    if not (t.startswith("{") and t.endswith("}")):
        return None
    items = {}
    for part in split_tuple("(" + t[1:-1] + ")"):
        if ": " in part:
            k, v = part.split(": ", 1)
            items[k] = v
    return items


class CondMixin:
    AX_IN, AX_OUT = 1, 2

    def deg(self, d: AState, which: str, n: str):
        tab = d.din if which == "in" else d.dout
        if n in tab:
            return tab[n]
        if d.has("fresh", n):
            return (0, 0, False)
        return (0, self.AX_IN if which == "in" else self.AX_OUT, True)

    def set_deg(self, d: AState, which: str, n: str, lo: int, hi: int, ax: bool):
        (d.din if which == "in" else d.dout)[n] = (max(lo, 0), max(hi, 0), ax)

    def numeric(self, t: str, d: AState):
        """-> (lo, hi, ax, setter) for a term that denotes a degree at the current epoch"""
        p = parse_call_term(t)
        if p and p[0] in ("indeg", "outdeg") and len(p[1]) == 1:
            which = "in" if p[0] == "indeg" else "out"
            if p[2] != d.epoch:
                return None
            lo, hi, ax = self.deg(d, which, p[1][0])
            return lo, hi, ax, (which, p[1][0])
        return None

    def note_axiom(self, d: AState, ax: str, what: str):
        d.axioms.append(f"{ax}: {what}")

    # ---- quantified tests: any(<gen>), all(<gen>), truthiness / len() of a filtered comprehension bound to a local
    def quantifier(self, e: ast.expr, d: AState):
        """-> (kind 'any'|'all', element test exprs (conjunction), target, iterable expr) or None"""
        if isinstance(e, ast.Call) and isinstance(e.func, ast.Name) and e.func.id in ("any", "all") and len(e.args) == 1 \
                and isinstance(e.args[0], (ast.GeneratorExp, ast.ListComp)) and len(e.args[0].generators) == 1:
            g = e.args[0].generators[0]
            if e.func.id == "any":
                return "any", [*g.ifs, e.args[0].elt], g.target, g.iter
            if not g.ifs:
                return "all", [e.args[0].elt], g.target, g.iter
            return None
        if isinstance(e, ast.Name) and e.id in self.comp_defs and d.vars.get(f"__cdef.{e.id}") == str(d.epoch):
            c = self.comp_defs[e.id]
            g = c.generators[0]
            return ("any", list(g.ifs), g.target, g.iter) if g.ifs else None
        if isinstance(e, ast.Compare) and len(e.ops) == 1 and isinstance(e.left, ast.Call) and call_name(e.left) == "len" and e.left.args \
                and isinstance(e.left.args[0], ast.Name) and isinstance(e.comparators[0], ast.Constant):
            inner = self.quantifier(e.left.args[0], d)
            k = e.comparators[0].value
            if inner and ((isinstance(e.ops[0], ast.Gt) and k == 0) or (isinstance(e.ops[0], ast.GtE) and k == 1) or (isinstance(e.ops[0], ast.NotEq) and k == 0)):
                return inner
        return None

    def _elements(self, it: ast.expr, d: AState):
        t = self.term(it, d)
        return split_tuple(t) if is_tuple_term(t) else None

    def _with_binding(self, target: ast.expr, elem: str, d: AState, fn):
        names = [x.id for x in ast.walk(target) if isinstance(x, ast.Name)]
        saved = {n: d.vars.get(n) for n in names}
        if isinstance(target, ast.Name):
            d.vars[target.id] = elem
        else:
            return None
        try:
            return fn()
        finally:
            for n, v in saved.items():
                if v is None:
                    d.vars.pop(n, None)
                else:
                    d.vars[n] = v

    def decide(self, e: ast.expr, d: AState):
        """Truth of a leaf test under the facts, or None."""
        if isinstance(e, ast.UnaryOp) and isinstance(e.op, ast.Not):
            r = self.decide(e.operand, d)
            return None if r is None else not r
        q = self.quantifier(e, d)
        if q is not None:
            kind, tests, target, it = q
            elems = self._elements(it, d)
            if elems is None:
                t = self.term(it, d)
                elems = [f"{t}[0]", f"{t}[1]"] if (t.startswith("$") or t.startswith("(")) and "(" not in t[1:] else None
            if elems is None or not isinstance(target, ast.Name):
                return None
            conj = tests[0] if len(tests) == 1 else ast.BoolOp(ast.And(), list(tests))
            rs = [self._with_binding(target, el, d, lambda: self.decide(conj, d)) for el in elems]
            if kind == "any":
                return True if any(r is True for r in rs) else (False if all(r is False for r in rs) else None)
            return False if any(r is False for r in rs) else (True if all(r is True for r in rs) else None)
        if isinstance(e, ast.BoolOp):
            rs = [self.decide(v, d) for v in e.values]
            if isinstance(e.op, ast.And):
                if any(r is False for r in rs):
                    return False
                return True if all(r is True for r in rs) else None
            if any(r is True for r in rs):
                return True
            return False if all(r is False for r in rs) else None
        if isinstance(e, ast.Compare) and len(e.ops) == 1:
            return self._decide_cmp(e, d)
        if isinstance(e, ast.Call):
            t = self.term(e, d)
            p = parse_call_term(t)
            if p and p[0] == "has_node":
                n = p[1][0]
                if d.node_known(n):
                    return True
                if d.has("nonode", n):
                    return False
                return None
            if p and p[0] == "has_edge":
                a, b = p[1][:2]
                return self._edge_known(a, b, d)
            return None
        if isinstance(e, ast.Name) and d.vars.get(f"__bdef.{e.id}") == str(d.epoch) and e.id in self.bool_defs:
            return self.decide(self.bool_defs[e.id], d)
        t = self.term(e, d)
        if t == "True":
            return True
        if t in ("False", "None", "()", "[]", "{}", "0", "''"):
            return False
        cd = self._collection_degree(t, d)
        if cd is not None:
            lo, hi = cd[0], cd[1]
            if lo >= 1:
                return True
            if hi == 0:
                return False
            return None
        if is_tuple_term(t) and split_tuple(t):
            return True
        if t.startswith("obj"):
            return True
        return None

    def _collection_degree(self, t: str, d: AState):
        """(lo, hi, which, node) for a term denoting the predecessors / successors / in- / out-edges of a node now"""
        p = parse_call_term(t)
        if p and p[0] in ("preds", "succs", "in_edges", "out_edges") and len(p[1]) == 1 and p[2] == d.epoch:
            which = "in" if p[0] in ("preds", "in_edges") else "out"
            lo, hi, _ = self.deg(d, which, p[1][0])
            return lo, hi, which, p[1][0]
        return None

    def _edge_known(self, a: str, b: str, d: AState):
        if d.has("edge", a, b):
            return True
        if d.has("ax_edge", a, b):
            self.note_axiom(d, "AX-TRACKPATH", f"track neighbours {a} -> {b} are adjacent")
            return True
        if d.has("noedge", a, b) or d.has("nonode", a) or d.has("nonode", b):
            return False
        pa = parse_call_term(a)
        if pa and pa[0] == "pred1" and pa[1] == [b] and pa[2] == d.epoch:
            lo, _, _ = self.deg(d, "in", b)
            if lo >= 1 or d.has("notnone", a):
                return True
        return None

    def _is_none(self, t: str, d: AState):
        if t == "None":
            return True
        if t == "$tracks.features.tracklet_key" and self.solution_tracks:
            self.note_axiom(d, "AX-SOLN-KEYS", "a SolutionTracks always has features.tracklet_key")
            return False
        if d.has("isnone", t):
            return True
        if d.has("notnone", t):
            return False
        if d.has("ax_isnone", t):
            self.note_axiom(d, "AX-TRACKPATH", f"{t} is None: its track predecessor divides")
            return True
        if is_tuple_term(t) or t.startswith(("obj", "{", "tuple(", "'", '"', "new ")) or _int(t) is not None:
            return False
        if t in ("True", "False"):
            return False
        p = parse_call_term(t)
        if p and p[0] in ("succ1", "sibling", "time", "tid"):
            return False
        if p and p[0] == "pred1" and p[2] == d.epoch:
            lo, hi, ax = self.deg(d, "in", p[1][0])
            if lo >= 1:
                return False
            if hi == 0:
                return True
        return None

    @staticmethod
    def _unshift(L: str, R: str):
        """len(other children of p) compared with k  ==  out_degree(p) compared with k + 1"""
        if L.startswith("outdegm1(") and _int(R) is not None:
            return "outdeg(" + L[len("outdegm1("):], str(int(R) + 1)
        if R.startswith("outdegm1(") and _int(L) is not None:
            return str(int(L) + 1), "outdeg(" + R[len("outdegm1("):]
        return L, R

    def _decide_cmp(self, e: ast.Compare, d: AState):
        op = e.ops[0]
        L, R = self._unshift(self.term(e.left, d), self.term(e.comparators[0], d))
        if isinstance(op, (ast.Is, ast.IsNot)):
            r = None
            if R == "None":
                r = self._is_none(L, d)
            elif L == "None":
                r = self._is_none(R, d)
            elif L == R:
                r = True
            if r is None:
                return None
            return r if isinstance(op, ast.Is) else not r
        if isinstance(op, (ast.In, ast.NotIn)) and is_tuple_term(R) and all(_int(x) is not None for x in split_tuple(R)):
            num = self.numeric(L, d)
            if num is None:
                return None
            lo, hi, ax, _ = num
            if hi >= INF:
                return None
            consts = {int(x) for x in split_tuple(R)}
            vals = list(range(lo, hi + 1))
            sat = [v for v in vals if v in consts]
            if len(sat) == len(vals) or not sat:
                if ax:
                    self.note_axiom(d, "AX-FOREST", f"{L} in [{lo},{hi}] decides `{norm(e)}`")
                r = bool(sat)
                return r if isinstance(op, ast.In) else not r
            return None
        if isinstance(op, (ast.In, ast.NotIn)):
            r = None
            if R.endswith(".graph") or R.endswith(".graph.nodes"):
                if d.node_known(L):
                    r = True
                elif d.has("nonode", L):
                    r = False
            else:
                items = dict_literal_items(R)
                if d.has("haskey", R, L) or (items is not None and L in items):
                    r = True
                elif d.has("nokey", R, L) or (items is not None and "**" not in items and not d.has("dictmod", R)):
                    r = False if items is not None else None
                    if d.has("nokey", R, L):
                        r = False
            if r is None:
                return None
            return r if isinstance(op, ast.In) else not r
        li, ri = _int(L), _int(R)
        if li is not None and ri is not None:
            return {
                ast.Eq: li == ri, ast.NotEq: li != ri, ast.Lt: li < ri, ast.LtE: li <= ri,
                ast.Gt: li > ri, ast.GtE: li >= ri,
            }.get(type(op))
        # degree against a constant
        num, c, flip = (self.numeric(L, d), ri, False) if ri is not None else (self.numeric(R, d), li, True)
        if num is not None and c is not None:
            lo, hi, ax, _ = num
            o = type(op)
            if flip:
                o = {ast.Lt: ast.Gt, ast.Gt: ast.Lt, ast.LtE: ast.GtE, ast.GtE: ast.LtE}.get(o, o)
            sat = [v for v in range(lo, min(hi, 6) + 1) if _cmp(o, v, c)]
            allv = list(range(lo, min(hi, 6) + 1))
            if hi >= INF:
                return None
            if len(sat) == len(allv) or not sat:
                if ax:
                    self.note_axiom(d, "AX-FOREST", f"{L} in [{lo},{hi}] decides `{norm(e)}`")
                return bool(sat)
            return None
        if isinstance(op, (ast.Eq, ast.NotEq)):
            r = None
            if L == R:
                r = True
            elif d.has("neq", L, R) or d.has("neq", R, L):
                r = False
            elif d.has("eq", L, R) or d.has("eq", R, L):
                r = True
            elif (L in ("True", "False", "None") or _int(L) is not None or L[:1] in "'\"") and (
                R in ("True", "False", "None") or _int(R) is not None or R[:1] in "'\""
            ):
                r = L == R
            if r is None:
                return None
            return r if isinstance(op, ast.Eq) else not r
        if isinstance(op, (ast.Lt, ast.Gt, ast.LtE, ast.GtE)):
            a, b = (L, R) if isinstance(op, (ast.Lt, ast.GtE)) else (R, L)
            # now the relation is  a < b  (Lt, Gt)   or   not (a < b)  (GtE, LtE)
            strict = isinstance(op, (ast.Lt, ast.Gt))
            if d.time_lt(a, b):
                return strict
            if d.time_lt(b, a) or d.trep(a) == d.trep(b):
                return not strict
            return None
        return None

    # ------------------------------------------------------------------ learning
    def learn(self, e: ast.expr, outcome: bool, d: AState) -> None:
        if isinstance(e, ast.UnaryOp) and isinstance(e.op, ast.Not):
            return self.learn(e.operand, not outcome, d)
        q = self.quantifier(e, d)
        if q is not None:
            kind, tests, target, it = q
            elems = self._elements(it, d)
            if elems is None:
                # length unknown: the first two positions are what pair-shaped arguments (edges) use
                t = self.term(it, d)
                elems = [f"{t}[0]", f"{t}[1]"] if (t.startswith("$") or t.startswith("(")) and "(" not in t[1:] else None
            if elems is None or not isinstance(target, ast.Name):
                return
            if kind == "any" and not outcome:
                # no element satisfies the conjunction: with a single test, that test is false for every element
                if len(tests) == 1:
                    for el in elems:
                        self._with_binding(target, el, d, lambda: self.learn(tests[0], False, d))
            elif kind == "all" and outcome:
                for el in elems:
                    self._with_binding(target, el, d, lambda: self.learn(tests[0], True, d))
            return
        if isinstance(e, ast.Call):
            t = self.term(e, d)
            p = parse_call_term(t)
            if p and p[0] == "has_node":
                (d.add if outcome else d.add)("node" if outcome else "nonode", p[1][0])
            elif p and p[0] == "has_edge":
                a, b = p[1][:2]
                if outcome:
                    self._add_edge_fact(d, a, b)
                else:
                    d.add("noedge", a, b)
            elif p and p[0] == "at_time" and not outcome:
                d.add("notattime", p[1][0], p[1][1])
            return
        if isinstance(e, ast.Name) and d.vars.get(f"__bdef.{e.id}") == str(d.epoch) and e.id in getattr(self, "bool_defs", {}):
            inner = self.bool_defs[e.id]
            if isinstance(inner, ast.BoolOp):
                # a conjunction that holds / a disjunction that fails fixes every operand
                if isinstance(inner.op, ast.And) and outcome:
                    for v in inner.values:
                        self.learn(v, True, d)
                elif isinstance(inner.op, ast.Or) and not outcome:
                    for v in inner.values:
                        self.learn(v, False, d)
            else:
                self.learn(inner, outcome, d)
            d.add("truthy" if outcome else "falsy", self.term(e, d))
            return
        if not (isinstance(e, ast.Compare) and len(e.ops) == 1):
            t = self.term(e, d)
            cd = self._collection_degree(t, d)
            if cd is not None:
                # truthiness of the predecessors / successors / incident edges of a node = degree >= 1
                lo, hi, which, n = cd
                _, _, ax = self.deg(d, which, n)
                if outcome:
                    self.set_deg(d, which, n, max(lo, 1), max(hi, 1), ax)
                else:
                    self.set_deg(d, which, n, 0, 0, False)
                return
            # truthiness of an optional value
            if outcome:
                d.add("notnone", t)
                d.add("truthy", t)
            return
        op = e.ops[0]
        L, R = self._unshift(self.term(e.left, d), self.term(e.comparators[0], d))
        if isinstance(op, (ast.Is, ast.IsNot)):
            val = outcome if isinstance(op, ast.Is) else not outcome
            t = L if R == "None" else (R if L == "None" else None)
            if t is not None:
                d.add("isnone" if val else "notnone", t)
                self.derive_optional(t, val, d)
            return
        if isinstance(op, (ast.In, ast.NotIn)) and is_tuple_term(R) and all(_int(x) is not None for x in split_tuple(R)):
            num = self.numeric(L, d)
            if num is not None:
                lo, hi, ax, (which, n) = num
                consts = {int(x) for x in split_tuple(R)}
                val = outcome if isinstance(op, ast.In) else not outcome
                vals = [v for v in range(lo, min(hi, 8) + 1) if (v in consts) == val]
                if vals:
                    self.set_deg(d, which, n, min(vals), max(vals) if hi < INF else hi, ax)
            return
        if isinstance(op, (ast.In, ast.NotIn)):
            val = outcome if isinstance(op, ast.In) else not outcome
            if R.endswith(".graph") or R.endswith(".graph.nodes"):
                d.add("node" if val else "nonode", L)
            else:
                d.add("haskey" if val else "nokey", R, L)
            return
        li, ri = _int(L), _int(R)
        num, c, flip = (self.numeric(L, d), ri, False) if ri is not None else (self.numeric(R, d), li, True)
        if num is not None and c is not None:
            lo, hi, ax, (which, n) = num
            o = type(op)
            if flip:
                o = {ast.Lt: ast.Gt, ast.Gt: ast.Lt, ast.LtE: ast.GtE, ast.GtE: ast.LtE}.get(o, o)
            vals = [v for v in range(lo, min(hi, 8) + 1) if _cmp(o, v, c) == outcome]
            if vals:
                nhi = max(vals) if hi < INF or max(vals) < 8 else hi
                self.set_deg(d, which, n, min(vals), nhi, ax and nhi == hi)
                if which == "out" and min(vals) >= 2:
                    for f in list(d.facts):
                        if f[0] == "ax_pair" and f[1] == n:
                            d.add("ax_isnone", f[2])
            return
        if isinstance(op, (ast.Eq, ast.NotEq)):
            val = outcome if isinstance(op, ast.Eq) else not outcome
            d.add("eq" if val else "neq", L, R)
            return
        if isinstance(op, (ast.Lt, ast.Gt, ast.LtE, ast.GtE)):
            a, b = (L, R) if isinstance(op, (ast.Lt, ast.GtE)) else (R, L)
            strict = isinstance(op, (ast.Lt, ast.Gt))
            holds = outcome if strict else not outcome  # does  a < b  hold?
            if holds:
                d.add("tlt", d.trep(a), d.trep(b))
            else:
                d.add("tle", d.trep(b), d.trep(a))

    def _add_edge_fact(self, d: AState, a: str, b: str) -> None:
        d.add("edge", a, b)
        d.add("node", a)
        d.add("node", b)
        d.drop("noedge", a, b)
        lo, hi, ax = self.deg(d, "in", b)
        self.set_deg(d, "in", b, max(lo, 1), max(hi, 1), ax)
        lo, hi, ax = self.deg(d, "out", a)
        self.set_deg(d, "out", a, max(lo, 1), max(hi, 1), ax)

    def derive_optional(self, t: str, is_none: bool, d: AState) -> None:
        """Consequences of learning that an optional query result is / is not None."""
        p = parse_call_term(t)
        if p and p[0] == "pred1" and p[2] == d.epoch:
            n = p[1][0]
            if is_none:
                self.set_deg(d, "in", n, 0, 0, False)
            else:
                self._add_edge_fact(d, t, n)
                if n.endswith("[1]"):
                    q = parse_call_term(n[:-3])
                    if q and q[0] == "nbrs" and q[2] == d.epoch and d.has("isnone", n[:-3] + "[0]") and (
                        d.has("notattime", q[1][0], q[1][1]) or q[1][0].startswith("fresh_tid")
                    ):
                        # the parent of the first track member after T is not itself a member
                        # (none before T, none at T): it can only be a dividing node
                        self.set_deg(d, "out", t, 2, 2, True)
            return
        # element of a track-neighbour pair:  nbrs(tid, T)@e[i]
        if t.endswith("[0]") or t.endswith("[1]"):
            base, idx = t[:-3], int(t[-2])
            p = parse_call_term(base)
            if p and p[0] == "nbrs" and not is_none:
                T = p[1][1]
                if p[2] == d.epoch:
                    d.add("node", t)
                d.add("trackmember", t, p[1][0], base)
                if idx == 0:
                    d.add("tlt", d.trep(f"time({t})"), d.trep(T))
                else:
                    d.add("tlt", d.trep(T), d.trep(f"time({t})"))
                other = f"{base}[{1 - idx}]"
                if d.has("notnone", other):
                    a, b = (t, other) if idx == 0 else (other, t)
                    self.trackpath_pair(d, a, b, p[2])


def _trackpath_pair(self, d: AState, a: str, b: str, ep: int) -> None:
    """AX-TRACKPATH: both track neighbours of one (track id, time) exist => they are
    adjacent and `a` has exactly that one child.  Only usable while the graph is as it was
    when the neighbours were looked up (same epoch)."""
    if ep != d.epoch:
        return
    if d.has("noedge", a, b):
        return
    d.add("ax_edge", a, b)
    lo, hi, ax = self.deg(d, "out", a)
    if lo <= 1 <= hi:
        self.set_deg(d, "out", a, 1, 1, True)
    lo, hi, ax = self.deg(d, "in", b)
    if lo <= 1 <= hi:
        self.set_deg(d, "in", b, 1, 1, True)


CondMixin.trackpath_pair = _trackpath_pair


def _cmp(o, v, c) -> bool:
    return {
        ast.Eq: v == c, ast.NotEq: v != c, ast.Lt: v < c, ast.LtE: v <= c, ast.Gt: v > c,
        ast.GtE: v >= c,
    }[o]


# ====================================================================== statements
MUTATOR_METHODS = {
    "append", "extend", "insert", "remove", "pop", "clear", "update", "setdefault", "popitem",
    "add", "discard", "sort", "reverse", "add_node", "add_edge", "remove_node", "remove_edge",
    "add_nodes_from", "add_edges_from", "remove_nodes_from", "remove_edges_from", "fill",
}


class Engine(CondMixin, Interp):
    # ---------------- summaries used to decide what to inline
    def flags(self, fi: FuncInfo, _stack=()) -> tuple[bool, bool, bool]:
        """(may raise explicitly, may mutate non-local state, constructs actions) - transitive"""
        if fi.qname in self._summ_cache:
            return self._summ_cache[fi.qname]
        if fi.qname in _stack:
            return (False, False, False)
        r = m = a = False
        env = self.P.local_env(fi)
        fresh = _fresh_locals(fi.node) | self._fresh_from_calls(fi, env)
        for n in ast.walk(fi.node):
            if isinstance(n, ast.Assert) or (isinstance(n, ast.Raise) and "NotImplementedError" not in norm(n)):
                r = True
            elif isinstance(n, (ast.Assign, ast.AugAssign, ast.Delete)):
                tg = n.targets if isinstance(n, (ast.Assign, ast.Delete)) else [n.target]
                for t in tg:
                    for x in ast.walk(t):
                        if isinstance(x, (ast.Attribute, ast.Subscript)) and isinstance(
                            getattr(x, "ctx", None), (ast.Store, ast.Del)
                        ):
                            root = _root_name(x)
                            if root == "self" and self._private_bookkeeping(fi, x):
                                continue
                            if root not in fresh:
                                m = True
            elif isinstance(n, ast.Call):
                tgt = self.P.resolve_call(n, env, fi, count=False)
                if tgt and tgt[0] == "class":
                    if tgt[1].qname in self.action_base:
                        a = True
                    init = self.P.lookup_method(tgt[1].qname, "__init__")
                    if init:
                        fr = self.flags(init, (*_stack, fi.qname))
                        r, a = r or fr[0], a or fr[2]
                elif tgt and tgt[0] == "func":
                    cands = [tgt[1][0]]
                    if tgt[1][0].cls is not None:  # dynamic dispatch: overriding definitions too
                        cands += self.P.overriders(tgt[1][0].cls.qname, tgt[1][0].name)
                    for cand in cands:
                        fr = self.flags(cand, (*_stack, fi.qname))
                        r, m, a = r or fr[0], m or fr[1], a or fr[2]
                elif isinstance(n.func, ast.Attribute) and n.func.attr in MUTATOR_METHODS:
                    if _root_name(n.func.value) not in fresh:
                        m = True
                elif isinstance(n.func, ast.Attribute) and n.func.attr == "emit":
                    m = True
        self._summ_cache[fi.qname] = (r, m, a)
        return r, m, a

    def _returns_fresh(self, g: FuncInfo, _depth: int = 0) -> bool:
        """every return of g hands back a container that g itself made (a new set / list / dict): the caller may fill it"""
        rets = [x for x in ast.walk(g.node) if isinstance(x, ast.Return) and x.value is not None]
        if not rets or _depth > 2:
            return False
        fr = _fresh_locals(g.node) | (self._fresh_from_calls(g, self.P.local_env(g), _depth + 1) if _depth < 2 else set())
        for x in rets:
            v = x.value
            if isinstance(v, ast.Name) and v.id in fr:
                continue
            if isinstance(v, (ast.List, ast.Dict, ast.Set, ast.ListComp, ast.DictComp, ast.SetComp)):
                continue
            if isinstance(v, ast.Call) and call_name(v) in ("list", "dict", "set", "sorted", "copy", "deepcopy"):
                continue
            return False
        return True

    def _fresh_from_calls(self, fi: FuncInfo, env, _depth: int = 0) -> set[str]:
        """locals bound (once) to the result of an internal function that returns a container of its own making"""
        out: dict[str, bool] = {}
        for n in ast.walk(fi.node):
            if isinstance(n, ast.Assign) and len(n.targets) == 1 and isinstance(n.targets[0], ast.Name):
                nm = n.targets[0].id
                ok = False
                if isinstance(n.value, ast.Call):
                    try:
                        tgt = self.P.resolve_call(n.value, env, fi, count=False)
                    except Exception:  # noqa: BLE001
                        tgt = None
                    if tgt and tgt[0] == "func":
                        ok = all(self._returns_fresh(c_, _depth) for c_ in tgt[1][:1])
                out[nm] = out.get(nm, True) and ok
        params = set(fi.params)
        return {k for k, v in out.items() if v and k not in params}

    def _private_bookkeeping(self, fi: FuncInfo, target: ast.AST) -> bool:
        """a QUERY of the data model that writes an underscore-private attribute of its own object (a call counter, a memo)
        does not change the observable tracks state; whether a memo can go stale is decided by the memo-discipline rule"""
        if fi.cls is None or not (self.P.is_subclass(fi.cls.qname, "Tracks") or fi.cls.name == "FeatureDict"):
            return False
        if not (fi.name.startswith(("get_", "has_", "is_", "_get", "_has", "_is")) or fi.name in QUERY_API or "property" in fi.decorators()):
            return False
        b = target
        while isinstance(b, ast.Subscript):
            b = b.value
        return isinstance(b, ast.Attribute) and norm(b.value) == "self" and b.attr.startswith("_") and not b.attr.startswith("__")

    def should_inline(self, fi: FuncInfo) -> bool:
        if self.depth >= self.INLINE_DEPTH:
            return False
        if any(fi is f for f, _ in self.stack):
            return False
        if fi.cls is not None:
            if fi.cls.qname == self.hist_cls.qname:
                return False
            if self.P.is_subclass(fi.cls.qname, "Tracks") and (
                fi.name in QUERY_API or fi.name == "notify_annotators"
            ):
                return False
            if self.P.is_subclass(fi.cls.qname, "GraphAnnotator"):
                return False
            if self.P.is_subclass(fi.cls.qname, "AnnotatorRegistry") and fi.name in ("update", "compute"):
                return False
        if any(self.flags(fi)):
            return True
        # a pure helper of the analysed class still decides which sub-edits are built (it returns the nodes / edges /
        # flags the constructor acts on): follow it so that its guards become facts
        if fi.name == "__init__":
            return False
        if self.own_helper(fi) or (fi.cls is not None and fi.cls.qname in self.user_q):
            return True
        # module-level helpers of the action packages (ids_of_node(tracks, n), pick_lineage(tracks, pred, succ), ...)
        if fi.cls is None and fi.parent is None and (".actions." in fi.qname or ".user_actions." in fi.qname):
            return True
        # a pure STRUCTURAL query of the data model that the interpreter has no native model for (it looks at degrees /
        # neighbours and returns nodes or edges): the guards that justify a sub-edit may have been moved there
        if fi.cls is not None and self.P.is_subclass(fi.cls.qname, "Tracks") and not fi.name.startswith("_"):
            body = norm(fi.node)
            return any(k in body for k in ("out_degree(", "in_degree(", ".predecessors(", ".successors(", "has_edge("))
        return False

    # ---------------- PathWalker hooks
    def absorb(self, kept: PState, dropped: PState) -> None:
        kept.data.events = merge_events(kept.data.events, dropped.data.events)
        if dropped.data.dirty_at is not None and kept.data.dirty_at is None:
            kept.data.dirty_at = dropped.data.dirty_at

    def merge_key(self, st: PState, after: ast.stmt):
        d: AState = st.data
        live = self.live_after(after)
        if live is not None:
            prefix = self.stack[-1][1] if self.stack else ""
            for k in list(d.vars):
                if "." in k or k.startswith("_r"):
                    continue
                if prefix:
                    mine = k.startswith(prefix)
                else:
                    mine = not k.startswith("_i")
                if mine and k not in live:
                    del d.vars[k]
        self.gc(d)
        return state_key(st)

    def live_after(self, stmt: ast.stmt):
        """Names that may still be read after `stmt` in its function body (conservative:
        every later statement in source order, plus the whole of each enclosing loop)."""
        body_id = getattr(stmt, "_body_id", None)
        if body_id is None:
            return None
        return self._live[body_id].get(id(stmt))

    def index_liveness(self, body: list[ast.stmt]) -> None:
        body_id = len(self._live)
        table: dict[int, set[str]] = {}
        self._live[body_id] = table
        items = []  # (stmt, loads-of-own-header, enclosing loops)

        def loads_of(n: ast.AST) -> set[str]:
            return {x.id for x in ast.walk(n) if isinstance(x, ast.Name) and isinstance(x.ctx, ast.Load)}

        def walk(stmts, loops):
            for s in stmts:
                s._body_id = body_id
                items.append((s, loops))
                inner = loops + [s] if isinstance(s, (ast.For, ast.While)) else loops
                for fld in ("body", "orelse", "finalbody"):
                    sub = getattr(s, fld, None)
                    if isinstance(sub, list) and sub and isinstance(sub[0], ast.stmt):
                        walk(sub, inner)
                for h in getattr(s, "handlers", []) or []:
                    walk(h.body, inner)

        walk(body, [])
        pos = lambda n: (getattr(n, "lineno", 0), getattr(n, "col_offset", 0))
        endpos = lambda n: (getattr(n, "end_lineno", 0) or 0, getattr(n, "end_col_offset", 0) or 0)
        # "later" = later in the walk (source) order; statements nested in s are included too, which only keeps more
        # names alive.  (Positions are not used: statements synthesised by the normalising passes share positions.)
        own = [_own_loads(s) for s, _ in items]
        suffix: list[set[str]] = [set() for _ in items] + [set()]
        for i in range(len(items) - 1, -1, -1):
            suffix[i] = suffix[i + 1] | own[i]
        for i, (s, loops) in enumerate(items):
            live = set(suffix[i + 1])
            for L in loops:
                live |= loads_of(L)
            table[id(s)] = live

    def known(self, st: PState, expr: ast.expr):
        d: AState = st.data
        before = len(d.axioms)
        r = self.decide(expr, d)
        if r is None:
            del d.axioms[before:]
        elif len(d.axioms) > before:
            self.emit_event(st, "axiom_prune", d.axioms[-1], {"test": norm(self._subst(expr, d))}, expr)
        return r

    def on_cond(self, st: PState, expr: ast.expr, outcome: bool):
        d: AState = st.data
        term = self._subst(expr, d)
        for c in calls_in(expr):
            self.call_effect(st, c)
        core = expr.operand if isinstance(expr, ast.UnaryOp) and isinstance(expr.op, ast.Not) else expr
        defn = norm(self.bool_defs[core.id]) if isinstance(core, ast.Name) and core.id in getattr(self, "bool_defs", {}) else ""
        self.emit_event(st, "cond", norm(expr), {"outcome": outcome, "term": term, **({"def": defn} if defn else {})}, expr)
        self.learn(expr, outcome, d)
        return True

    def trip_bounds(self, st: PState, node: ast.For):
        d: AState = st.data
        it = self.term(node.iter, d)
        if is_tuple_term(it):
            n = len(split_tuple(it))
            return n, n
        p = parse_call_term(it)
        if p and p[0] in ("preds", "succs") and p[2] == d.epoch:
            lo, hi, ax = self.deg(d, "in" if p[0] == "preds" else "out", p[1][0])
            if ax and hi < INF:
                pass  # bound comes from AX-FOREST; noted when it prunes something relevant
            return lo, hi
        if it.endswith(".items()@%d" % d.epoch) or ".items()@" in it:
            base = it.split(".items()@")[0]
            if any(f[0] == "haskey" and f[1] == base for f in d.facts) or dict_literal_items(base):
                return 1, None
        return 0, None

    def on_for(self, st: PState, node: ast.For, i: int) -> None:
        d: AState = st.data
        it = self.term(node.iter, d)
        if is_tuple_term(it):
            elem = split_tuple(it)[i] if i < len(split_tuple(it)) else f"{it}#{i}"
        else:
            p = parse_call_term(it)
            elem = f"{it}#{i}" if p else f"{it}[{i}]"
            if p and p[0] == "preds":
                if not d.has("noedge", elem, p[1][0]):
                    self._add_edge_fact(d, elem, p[1][0])
            elif p and p[0] == "succs":
                if not d.has("noedge", p[1][0], elem):
                    self._add_edge_fact(d, p[1][0], elem)
        self.bind_target(node.target, elem, st)

    def on_raise(self, st: PState, node: ast.stmt) -> None:
        d: AState = st.data
        exc = ""
        if isinstance(node, ast.Raise) and node.exc is not None:
            exc = call_name(node.exc) if isinstance(node.exc, ast.Call) else norm(node.exc)
            if isinstance(node.exc, ast.Call):
                self.scan_queries(st, node.exc)
        elif isinstance(node, ast.Assert):
            exc = "AssertionError"
        self.emit_event(st, "raise", exc or "?", {"stmt": norm(node)[:120]}, node)

    def on_return(self, st: PState, node: ast.Return):
        d: AState = st.data
        if node.value is not None:
            e = ast.copy_location(ast.Expr(node.value), node)
            e._origin = getattr(node, "_origin", None) or self.origin(node)
            return self.on_stmt(st, e, _ret=True)
        d.ret = "None"
        return None

    def on_with(self, st: PState, node: ast.With) -> None:
        for item in node.items:
            self.scan_queries(st, item.context_expr)

    # ---------------- binding
    def bind_target(self, tgt: ast.expr, term: str, st: PState) -> None:
        d: AState = st.data
        if isinstance(tgt, ast.Name):
            d.vars[tgt.id] = term
            self.eager_facts(term, d)
        elif isinstance(tgt, (ast.Tuple, ast.List)):
            p = parse_call_term(term)
            n = len(tgt.elts)
            if p and p[0] == "nbrs" and n == 2:
                d.add("ax_pair", f"{term}[0]", f"{term}[1]")
            if p and p[0] == "succs" and p[2] == d.epoch and not any(
                isinstance(x, ast.Starred) for x in tgt.elts
            ):
                _, _, ax = self.deg(d, "out", p[1][0])
                self.set_deg(d, "out", p[1][0], n, n, False)
            for i, x in enumerate(tgt.elts):
                if isinstance(x, ast.Starred):
                    self.bind_target(x.value, f"{term}[{i}:]", st)
                else:
                    et = self._index(term, i, d)
                    if p and p[0] == "succs":
                        et = f"{term}#{i}" if n > 1 else "succ1(" + term[len("succs("):]
                        self._add_edge_fact(d, p[1][0], et)
                    self.bind_target(x, et, st)
        elif isinstance(tgt, ast.Attribute):
            bt = self.term(tgt.value, d)
            if bt == "$self" or bt.startswith("obj"):
                d.vars[f"{bt}.{tgt.attr}"] = term
            else:
                self.store_effect(st, tgt, term)
        elif isinstance(tgt, ast.Subscript):
            self.store_effect(st, tgt, term)

    def eager_facts(self, term: str, d: AState) -> None:
        p = parse_call_term(term)
        if p and p[2] == d.epoch:
            if p[0] == "succ1":
                self._add_edge_fact(d, p[1][0], term)
            elif p[0] == "sibling":
                self._add_edge_fact(d, p[1][0], term)
                d.add("neq", term, p[1][1])

    def _tracks_rooted(self, t: str) -> bool:
        return t.startswith("$tracks") or t.startswith("$self.tracks")

    def store_effect(self, st: PState, tgt: ast.expr, value: str) -> None:
        """A store through an attribute/subscript that is not a plain local binding."""
        d: AState = st.data
        base = tgt.value
        bt = self.term(base, d)
        if self._tracks_rooted(bt):
            where = self.term(tgt, d) if isinstance(tgt, ast.Attribute) else f"{bt}[{self.term(tgt.slice, d)}]"
            self.mutation(st, "store", {"target": where, "value": value}, tgt, bump=False)
            if (
                isinstance(tgt, ast.Subscript)
                and isinstance(tgt.value, ast.Subscript)
                and self.term(tgt.value.value, d).endswith(".graph.nodes")
            ):
                self.node_attr_store(d, self.term(tgt.value.slice, d), self.term(tgt.slice, d), value)
            return
        if isinstance(tgt, ast.Subscript):
            key = self.term(tgt.slice, d)
            d.add("haskey", bt, key)
            d.add("dictmod", bt)
            d.add("item", bt, key, value)

    def mutation(self, st: PState, op: str, args: dict, node: ast.AST, bump: bool = True):
        """State of the tracks object changes here.  Attribute/pixel stores only set the
        dirty flag (recorded once); structural operations and notifications also start a
        new epoch, which makes earlier reads of graph state stale."""
        d: AState = st.data
        ev = None
        if bump or not d.dirty:
            ev = self.emit_event(st, "mut", op, args, node, pre=d.snapshot() if bump else None)
        if not d.dirty:
            d.dirty = True
            d.dirty_at = ev
        if bump:
            d.epoch += 1
            st.invalidate_calls()
        return ev

    # ---------------- calls inside a simple statement
    def on_stmt(self, st: PState, stmt: ast.stmt, _ret: bool = False):
        results = self.expand(st, stmt, _ret)
        return results

    def inlinable_calls(self, stmt: ast.stmt, d: AState) -> list[ast.Call]:
        """Calls in evaluation order that are evaluated unconditionally."""
        out: list[ast.Call] = []

        def visit(n: ast.AST, cond: bool) -> None:
            if isinstance(n, (ast.FunctionDef, ast.Lambda, ast.ClassDef)):
                return
            if isinstance(n, ast.BoolOp):
                visit(n.values[0], cond)
                for v in n.values[1:]:
                    visit(v, True)
                return
            if isinstance(n, ast.IfExp):
                visit(n.test, cond)
                k = self.decide(n.test, d)
                visit(n.body, cond or k is not True)
                visit(n.orelse, cond or k is not False)
                return
            if isinstance(n, (ast.ListComp, ast.SetComp, ast.DictComp, ast.GeneratorExp)):
                for c in ast.iter_child_nodes(n):
                    visit(c, True)
                return
            for c in ast.iter_child_nodes(n):
                visit(c, cond)
            if isinstance(n, ast.Call) and not cond and not getattr(n, "_done", False):
                out.append(n)

        visit(stmt, False)
        return out

    def dispatch_fork(self, st: PState, stmt: ast.stmt, _ret: bool):
        """`x = TABLE.get(K)` / `x = TABLE[K]` where TABLE is a local dict literal with constant keys: one successor
        state per entry (learning K == key) and, for .get, one for 'no entry' (learning K != every key)."""
        if not (isinstance(stmt, ast.Assign) and len(stmt.targets) == 1 and isinstance(stmt.targets[0], ast.Name)):
            return None
        v = stmt.value
        table, key, default = None, None, None
        if isinstance(v, ast.Call) and isinstance(v.func, ast.Attribute) and v.func.attr == "get" and isinstance(v.func.value, ast.Name) and v.func.value.id in self.dict_defs and v.args:
            table, key = self.dict_defs[v.func.value.id], v.args[0]
            default = v.args[1] if len(v.args) > 1 else ast.Constant(None)
        elif isinstance(v, ast.Subscript) and isinstance(v.value, ast.Name) and v.value.id in self.dict_defs:
            table, key = self.dict_defs[v.value.id], v.slice
        if table is None or getattr(stmt, "_dispatched", False):
            return None
        outs = []
        for k_, val in zip(table.keys, table.values, strict=True):
            test = ast.Compare(left=key, ops=[ast.Eq()], comparators=[k_])
            r = self.decide(test, st.data)
            if r is False:
                continue
            st2 = st.fork()
            self.learn(test, True, st2.data)
            if not (isinstance(val, ast.Constant) and val.value is None):
                st2.data.add("notnone", self.term(val, st2.data))  # an entry of the table (a function / bound method), not None
            new = ast.copy_location(ast.Assign(targets=stmt.targets, value=val), stmt)
            new._dispatched = True
            new._origin = getattr(stmt, "_origin", None)
            ast.fix_missing_locations(new)
            sub = self.expand(st2, new, _ret)
            outs.extend(sub if sub is not None else [(st2, "next")])
            if r is True:
                return outs
        feasible_default = True
        kt = self._unshift(self.term(key, st.data), "0")[0] if hasattr(self, "_unshift") else self.term(key, st.data)
        num = self.numeric(self.term(key, st.data), st.data)
        if num is not None and all(isinstance(k_, ast.Constant) and isinstance(k_.value, int) for k_ in table.keys):
            lo, hi, ax, _ = num
            if hi < INF and all(v in {k_.value for k_ in table.keys} for v in range(lo, hi + 1)):
                feasible_default = False
                if ax:
                    self.note_axiom(st.data, "AX-FOREST", f"{self.term(key, st.data)} in [{lo},{hi}] is always an entry of the dispatch table")
        if default is not None and feasible_default:
            st2 = st.fork()
            for k_ in table.keys:
                self.learn(ast.Compare(left=key, ops=[ast.Eq()], comparators=[k_]), False, st2.data)
            new = ast.copy_location(ast.Assign(targets=stmt.targets, value=default), stmt)
            new._dispatched = True
            new._origin = getattr(stmt, "_origin", None)
            ast.fix_missing_locations(new)
            sub = self.expand(st2, new, _ret)
            outs.extend(sub if sub is not None else [(st2, "next")])
        return outs or None

    def bound_method_call(self, c: ast.Call, d: AState):
        """`f(args)` where the local f holds a bound method of an analysed object (`f = self._helper`)"""
        if not isinstance(c.func, ast.Name):
            return None
        t = d.vars.get(c.func.id)
        if not isinstance(t, str):
            return None
        m = _re.fullmatch(r"(\$\w*self|obj\w+:(\w+))\.(\w+)", t)
        if not m:
            return None
        if m.group(2):
            cls = self.P.class_named(m.group(2))
        else:
            owner = self.stack[-1][0] if self.stack else self.entry
            cls = owner.cls
        if cls is None:
            return None
        callee = self.P.lookup_method(cls.qname, m.group(3))
        if callee is None:
            return None
        recv = t.rsplit(".", 1)[0]
        tmp = "_rrecv%d" % (getattr(c, "lineno", 0) * 1000 + getattr(c, "col_offset", 0))
        d.vars[tmp] = recv
        call2 = ast.copy_location(ast.Call(func=ast.Attribute(value=ast.Name(tmp, ast.Load()), attr=m.group(3), ctx=ast.Load()), args=c.args, keywords=c.keywords), c)
        ast.fix_missing_locations(call2)
        for n_ in ast.walk(call2.func):
            n_._origin = getattr(c, "_origin", None)
        call2._origin = getattr(c, "_origin", None)
        return callee, call2

    def expand(self, st: PState, stmt: ast.stmt, _ret: bool):
        d: AState = st.data
        forked = self.dispatch_fork(st, stmt, _ret)
        if forked is not None:
            return self.dedupe(forked)
        for c in self.inlinable_calls(stmt, d):
            # f(...) where the local f holds a bound method reached from a parameter (`step = self.action_history.undo`):
            # continue with the call written out
            if isinstance(c.func, ast.Name) and isinstance(d.vars.get(c.func.id), str) and _re.fullmatch(r"\$\w+(\.\w+){2,}", d.vars[c.func.id]) \
                    and not getattr(c, "_spelled", False):
                try:
                    fexpr = ast.parse(d.vars[c.func.id][1:], mode="eval").body
                except SyntaxError:
                    fexpr = None
                if fexpr is not None:
                    call2 = ast.copy_location(ast.Call(func=fexpr, args=c.args, keywords=c.keywords), c)
                    ast.fix_missing_locations(call2)
                    for n_ in ast.walk(call2.func):
                        n_._origin = self.entry
                        ast.copy_location(n_, c)
                    call2._origin = getattr(c, "_origin", None)
                    call2._spelled = True
                    new_stmt = _replace_node(stmt, c, call2)
                    return self.expand(st, new_stmt, _ret)
            bm = self.bound_method_call(c, d)
            if bm is not None and self.should_inline(bm[0]):
                outs = []
                for st2, kind, tmp in self.inline(st, bm[1], bm[0], None):
                    if kind != "next":
                        outs.append((st2, kind))
                        continue
                    new_stmt = _replace_call(stmt, c, tmp)
                    sub = self.expand(st2, new_stmt, _ret)
                    outs.extend(sub if sub is not None else [(st2, "next")])
                return self.dedupe(outs)
            tgt = self.resolve(c, d)
            callee, cls = None, None
            if tgt and tgt[0] == "class":
                cls = tgt[1]
                callee = self.P.lookup_method(cls.qname, "__init__")
                if cls.qname in self.action_base and callee is not None:
                    pass
                elif callee is None or not self.should_inline(callee):
                    callee = None
            elif tgt and tgt[0] == "func" and self.should_inline(tgt[1][0]):
                callee = tgt[1][0]
            if callee is None:
                continue
            if cls is not None and cls.qname in self.action_base and self.depth >= self.INLINE_DEPTH:
                continue
            # inline this call, then continue with the statement where the call is replaced
            outs = []
            for st2, kind, tmp in self.inline(st, c, callee, cls):
                if kind != "next":
                    outs.append((st2, kind))
                    continue
                new_stmt = _replace_call(stmt, c, tmp)
                sub = self.expand(st2, new_stmt, _ret)
                outs.extend(sub if sub is not None else [(st2, "next")])
            return self.dedupe(outs)
        self.transfer(st, stmt, _ret)
        for k in [k for k in d.vars if k.startswith("_r")]:
            del d.vars[k]
        return None

    def dedupe(self, outs):
        seen, res = {}, []
        for st, kind in outs:
            k = (kind, state_key(st)) if kind == "next" else None
            if k is not None and k in seen:
                self.absorb(seen[k], st)
                continue
            if k is not None:
                seen[k] = st
            res.append((st, kind))
        return res

    def inline(self, st: PState, call: ast.Call, callee: FuncInfo, cls):
        """-> list of (state, 'next'|'raise', temp name holding the return term)"""
        d: AState = st.data
        chain = "/".join(p for _, p in self.stack) + f"/{getattr(call, 'lineno', 0)}.{getattr(call, 'col_offset', 0)}"
        k = hashlib.sha1(chain.encode()).hexdigest()[:6]
        prefix = f"_i{k}_"
        if (callee.qname, prefix) not in self._body_cache:
            names = local_names(callee.node)
            body = [
                _Renamer(prefix, names, callee).visit(copy.deepcopy(s)) for s in callee.node.body
            ]
            for s in body:
                ast.fix_missing_locations(s)
            env = self.P.local_env(callee)
            for n, t in env.items():
                self.env[prefix + n] = t
            self.walker.register_tests(body)
            self.index_liveness(body)
            self._body_cache[(callee.qname, prefix)] = body
        body = self._body_cache[(callee.qname, prefix)]
        # bind parameters
        params = list(callee.params)
        bound: dict[str, str] = {}
        # calls nested in the argument expressions that were not inlined still have their effects
        for a_ in list(call.args) + [k.value for k in call.keywords]:
            for c2 in calls_in(a_):
                self.call_effect(st, c2)
        is_method = callee.cls is not None and "staticmethod" not in callee.decorators()
        recv = None
        if cls is not None:
            recv = f"obj{k}:{cls.name}"
        elif is_method and isinstance(call.func, ast.Attribute):
            if isinstance(call.func.value, ast.Call) and call_name(call.func.value) == "super":
                selfname = [p for f, p in self.stack[-1:]]
                cur = (self.stack[-1][1] if self.stack else "") + "self"
                recv = d.vars.get(cur, f"${cur}")
            else:
                recv = self.term(call.func.value, d)
        if is_method and params:
            bound[params[0]] = recv or "$?"
            params = params[1:]
        argt = []
        for a in call.args:
            if isinstance(a, ast.Starred):
                t = self.term(a.value, d)
                argt.extend(split_tuple(t) if is_tuple_term(t) else [f"*{t}"])
            else:
                argt.append(self.term(a, d))
        for p, t in zip(params, argt, strict=False):
            bound[p] = t
        va = callee.node.args.vararg
        if va is not None:
            n_pos = len([a for a in callee.node.args.posonlyargs + callee.node.args.args]) - (1 if is_method else 0)
            rest = argt[n_pos:]
            bound[va.arg] = "(" + ", ".join(rest) + ("," if len(rest) == 1 else "") + ")"
        if callee.node.args.kwarg is not None:
            bound[callee.node.args.kwarg.arg] = "{}"
        for kw in call.keywords:
            if kw.arg is not None:
                bound[kw.arg] = self.term(kw.value, d)
        for p in list(callee.params):
            if p not in bound:
                dflt = callee.param_default(p)
                bound[p] = self.term(dflt, AState()) if dflt is not None else f"$?{p}"
        # events at the call site
        args_for_event = {p: bound[p] for p in callee.params if p in bound and p != "self"}
        ev = None
        if cls is not None and cls.qname in self.action_base:
            kind = "prim" if cls.qname in self.prim_q else ("user" if cls.qname in self.user_q else "action")
            ev = self.emit_event(st, "construct", cls.name, {**args_for_event, "_obj": recv, "_kind": kind}, call, pre=d.snapshot())
        for p, t in bound.items():
            d.vars[prefix + p] = t
        self.inlined_functions.add(callee.qname)
        if not self.stack:
            self.site0 = (getattr(call, "lineno", 0), getattr(call, "col_offset", 0))
        self.stack.append((callee, prefix))
        try:
            raw = list(self.walker.block(body, st))
        finally:
            self.stack.pop()
            if not self.stack:
                self.site0 = None
        outs = []
        tmp = f"_r{k}"
        for st2, kind, node in raw:
            d2: AState = st2.data
            if kind in ("next", "fall", "return"):
                ret = recv if cls is not None else (d2.ret if kind == "return" and d2.ret is not None else "None")
                d2.ret = None
                if cls is not None:
                    for kk in [kk for kk in d2.vars if kk.startswith(recv + ".")]:
                        del d2.vars[kk]
                d2.vars[tmp] = ret
                self._drop_prefix(st2, prefix)
                if ret and ret.startswith("obj") is False and parse_call_term(ret) is None:
                    pass
                outs.append((st2, "next", tmp))
            elif kind == "raise":
                self._drop_prefix(st2, prefix)
                outs.append((st2, "raise", tmp))
            else:  # break/continue cannot escape a function
                outs.append((st2, "next", tmp))
        # merge equal states
        seen, res = {}, []
        for st2, kind, t in outs:
            key = (kind, state_key(st2)) if kind == "next" else None
            if key is not None and key in seen:
                self.absorb(seen[key], st2)
                continue
            if key is not None:
                seen[key] = st2
            res.append((st2, kind, t))
        return res

    def node_attr_store(self, d: AState, n: str, key: str, value: str) -> None:
        """`graph.nodes[n][key] = value` - remember the time attribute of a new node."""
        tk = "$tracks.features.time_key"
        if key == tk:
            d.time_eq(f"time({n})", value)
            return
        # copied from a mapping: for k, v in X.items(): nodes[n][k] = v
        if key.endswith("[0]") and value.endswith("[1]") and key[:-3] == value[:-3] and ".items()@" in key:
            X = key.split(".items()@")[0]
            items = dict_literal_items(X)
            tv = None
            if items is not None and tk in items:
                tv = items[tk]
            else:
                for f in d.facts:
                    if f[0] == "item" and f[1] == X and f[2] == tk:
                        tv = f[3]
                if tv is None:
                    tv = f"{X}[{tk}]"
            d.time_eq(f"time({n})", tv)

    def gc(self, d: AState) -> None:
        """Forget facts about values nothing live can name any more."""
        live = " \x00 ".join(d.vars.values())

        def dead(t, roots: bool = True) -> bool:
            if not isinstance(t, str):
                return False
            while t.startswith("time(") and t.endswith(")"):
                t = t[5:-1]
            if t in live:
                return False  # some live variable holds (a value containing) this term
            if "@" in t or "#" in t:
                return True
            return roots and any(r not in live for r in _ROOT.findall(t))

        for f in list(d.facts):
            # order facts between parameters stay (obligations at the end of a function read them)
            by_root = f[0] not in ("tlt", "tle")
            if any(dead(x, by_root) for x in (f[1:3] if f[0] == "item" else f[1:])):
                d.facts.discard(f)
        for k in [k for k, v in d.timeeq.items() if dead(k) or dead(v)]:
            del d.timeeq[k]
        for tab in (d.din, d.dout):
            for k in [k for k in tab if dead(k)]:
                del tab[k]
        self.renumber_epochs(d)

    def renumber_epochs(self, d: AState) -> None:
        """Epoch numbers only matter relative to each other: renumber densely so that
        paths with a different number of forgotten mutations can still merge."""
        used = set()
        for v in d.vars.values():
            used.update(int(x) for x in _EPOCH.findall(v))
        for f in d.facts:
            for x in f[1:]:
                if isinstance(x, str):
                    used.update(int(y) for y in _EPOCH.findall(x))
        for tab in (d.din, d.dout, d.timeeq):
            for k in tab:
                used.update(int(y) for y in _EPOCH.findall(k))
        for v in d.timeeq.values():
            used.update(int(y) for y in _EPOCH.findall(v))
        used.add(d.epoch)
        order = sorted(used)
        if order == list(range(len(order))):
            return
        m = {old: new for new, old in enumerate(order)}

        def rn(t):
            return _EPOCH.sub(lambda mo: "@%d" % m[int(mo.group(1))], t) if isinstance(t, str) else t

        d.vars = {k: rn(v) for k, v in d.vars.items()}
        d.facts = {tuple([f[0], *[rn(x) for x in f[1:]]]) for f in d.facts}
        d.din = {rn(k): v for k, v in d.din.items()}
        d.dout = {rn(k): v for k, v in d.dout.items()}
        d.timeeq = {rn(k): rn(v) for k, v in d.timeeq.items()}
        d.epoch = m[d.epoch]

    def _drop_prefix(self, st: PState, prefix: str) -> None:
        d: AState = st.data
        for k in [k for k in d.vars if k.startswith(prefix)]:
            del d.vars[k]
        self.gc(d)
        for k in [k for k, ns in st.cond_names.items() if any(n.startswith(prefix) for n in ns)]:
            st.conds.pop(k, None)
            st.cond_names.pop(k, None)
            st.cond_has_call.pop(k, None)


def state_key(st: PState):
    d: AState = st.data
    return (
        frozenset(d.facts),
        tuple(sorted(d.vars.items())),
        tuple(sorted(d.din.items())),
        tuple(sorted(d.dout.items())),
        d.epoch,
        d.dirty,
        (d.dirty_at.ctx[:1], d.dirty_at.name if not d.dirty_at.ctx else "") if d.dirty_at is not None else None,
        d.ret,
        tuple(sorted(st.conds.items())),
        tuple(sorted(d.timeeq.items())),
    )


def _own_loads(s: ast.stmt) -> set[str]:
    """Names read by the part of a statement evaluated at the statement itself."""
    from .cfg import header_expr

    h = header_expr(s)
    if h is None:
        return set()
    out = {x.id for x in ast.walk(h) if isinstance(x, ast.Name) and isinstance(x.ctx, ast.Load)}
    if isinstance(s, ast.AugAssign):
        out |= {x.id for x in ast.walk(s.target) if isinstance(x, ast.Name)}
    return out


def _root_name(e: ast.AST) -> str | None:
    while isinstance(e, (ast.Attribute, ast.Subscript, ast.Call)):
        e = e.value if not isinstance(e, ast.Call) else e.func
    return e.id if isinstance(e, ast.Name) else None


def _fresh_locals(fn: ast.FunctionDef) -> set[str]:
    """Locals bound only to freshly created containers (literals, comprehensions, copies)."""
    cand: dict[str, bool] = {}
    params = {a.arg for a in fn.args.posonlyargs + fn.args.args + fn.args.kwonlyargs}
    for n in ast.walk(fn):
        tgt, val = None, None
        if isinstance(n, ast.Assign) and len(n.targets) == 1 and isinstance(n.targets[0], ast.Name):
            tgt, val = n.targets[0].id, n.value
        elif isinstance(n, ast.AnnAssign) and isinstance(n.target, ast.Name) and n.value is not None:
            tgt, val = n.target.id, n.value
        if tgt is None:
            continue
        fresh = isinstance(
            val, (ast.List, ast.Dict, ast.Set, ast.ListComp, ast.DictComp, ast.SetComp, ast.Tuple, ast.Constant)
        ) or (
            isinstance(val, ast.Call)
            and (
                call_name(val) in ("list", "dict", "set", "copy", "deepcopy", "defaultdict", "zeros_like", "array", "DiGraph", "sorted", "tuple", "DataFrame", "astype", "tolist")
            )
        )
        cand[tgt] = cand.get(tgt, True) and fresh
    return {k for k, v in cand.items() if v and k not in params}


import re as _re

_EPOCH = _re.compile(r"@(\d+)")
_ROOT = _re.compile(r"\$[A-Za-z_?][A-Za-z0-9_]*")
_NODE_ATTR_STORE = _re.compile(r"^(\$tracks)\.graph\.nodes\[(.+)\]\[(.+)\]$")


def _replace_node(stmt: ast.stmt, old: ast.AST, new: ast.AST) -> ast.stmt:
    """Copy of stmt with node `old` replaced by `new` (parents on the path rebuilt, everything else shared)."""

    class R(ast.NodeTransformer):
        def visit(self, n):
            if n is old:
                return new
            return super().visit(n)

        def generic_visit(self, n):
            changed = False
            new_fields = {}
            for f, o in ast.iter_fields(n):
                if isinstance(o, list):
                    nl = []
                    for x in o:
                        nx_ = self.visit(x) if isinstance(x, ast.AST) else x
                        changed = changed or nx_ is not x
                        nl.append(nx_)
                    new_fields[f] = nl
                elif isinstance(o, ast.AST):
                    nx_ = self.visit(o)
                    changed = changed or nx_ is not o
                    new_fields[f] = nx_
                else:
                    new_fields[f] = o
            if not changed:
                return n
            nn = type(n)(**new_fields)
            ast.copy_location(nn, n)
            for a_ in ("_origin", "_dispatched", "_spelled", "_done"):
                if hasattr(n, a_):
                    setattr(nn, a_, getattr(n, a_))
            return nn

    return R().visit(stmt)


def _replace_call(stmt: ast.stmt, call: ast.Call, tmp: str) -> ast.stmt:
    """Copy of stmt (shallow where possible) with `call` replaced by Name(tmp)."""

    class R(ast.NodeTransformer):
        def visit(self, n):
            if n is call:
                nn = ast.copy_location(ast.Name(tmp, ast.Load()), n)
                nn._origin = getattr(n, "_origin", None)
                return nn
            return super().visit(n)

        def generic_visit(self, n):
            # rebuild parents on the path only; keep other nodes shared (identity matters)
            changed = False
            new_fields = {}
            for f, old in ast.iter_fields(n):
                if isinstance(old, list):
                    new_list = []
                    for x in old:
                        nx_ = self.visit(x) if isinstance(x, ast.AST) else x
                        changed = changed or nx_ is not x
                        new_list.append(nx_)
                    new_fields[f] = new_list
                elif isinstance(old, ast.AST):
                    nx_ = self.visit(old)
                    changed = changed or nx_ is not old
                    new_fields[f] = nx_
                else:
                    new_fields[f] = old
            if not changed:
                return n
            nn = type(n)(**new_fields)
            ast.copy_location(nn, n)
            if hasattr(n, "_origin"):
                nn._origin = n._origin
            return nn

    return R().visit(stmt)


# ====================================================================== transfer
from .model import calls_in  # noqa: E402


def _engine_transfer(self: Engine, st: PState, stmt: ast.stmt, _ret: bool) -> None:
    d: AState = st.data
    value_term = None
    if isinstance(stmt, (ast.Assign, ast.AnnAssign, ast.AugAssign)) and stmt.value is not None:
        value_term = self.term(stmt.value, d)
    elif isinstance(stmt, ast.Expr) and _ret:
        value_term = self.term(stmt.value, d)
    for c in calls_in(stmt):
        self.call_effect(st, c)
    if isinstance(stmt, ast.Assign):
        for t in stmt.targets:
            self.bind_target(t, value_term, st)
            if isinstance(t, ast.Name) and isinstance(stmt.value, (ast.Compare, ast.BoolOp)) or (
                isinstance(t, ast.Name) and isinstance(stmt.value, ast.UnaryOp) and isinstance(stmt.value.op, ast.Not)
            ):
                self.bool_defs[t.id] = stmt.value
                d.vars[f"__bdef.{t.id}"] = str(d.epoch)
            if isinstance(t, ast.Name) and isinstance(stmt.value, ast.Dict) and stmt.value.keys and all(isinstance(k_, ast.Constant) for k_ in stmt.value.keys):
                self.dict_defs[t.id] = stmt.value
            if isinstance(t, ast.Name) and isinstance(stmt.value, ast.DictComp) and len(stmt.value.generators) == 1 and not stmt.value.generators[0].ifs \
                    and isinstance(stmt.value.generators[0].target, ast.Name) and isinstance(stmt.value.key, ast.Name) and stmt.value.key.id == stmt.value.generators[0].target.id:
                self.table_defs[t.id] = stmt.value
                d.vars[f"__tdef.{t.id}"] = str(d.epoch)
            if isinstance(t, ast.Name) and isinstance(stmt.value, (ast.ListComp, ast.SetComp)) and len(stmt.value.generators) == 1 and stmt.value.generators[0].ifs:
                self.comp_defs[t.id] = stmt.value
                d.vars[f"__cdef.{t.id}"] = str(d.epoch)
    elif isinstance(stmt, ast.AnnAssign) and stmt.value is not None:
        self.bind_target(stmt.target, value_term, st)
    elif isinstance(stmt, ast.AugAssign):
        if isinstance(stmt.target, ast.Name):
            old = d.vars.get(stmt.target.id, f"g:{stmt.target.id}")
            d.vars[stmt.target.id] = f"({old} {type(stmt.op).__name__} {value_term})"
        else:
            self.store_effect(st, stmt.target, value_term)
    elif isinstance(stmt, ast.Expr) and _ret:
        d.ret = value_term
        if not self.stack:
            self.emit_event(st, "return", "", {"value": value_term}, stmt, pre=d.snapshot())
    elif isinstance(stmt, ast.Delete):
        for t in stmt.targets:
            if isinstance(t, ast.Subscript):
                bt = self.term(t.value, d)
                if self._tracks_rooted(bt):
                    self.mutation(st, "del", {"target": f"{bt}[{self.term(t.slice, d)}]"}, t, bump=False)
                else:
                    d.add("nokey", bt, self.term(t.slice, d))
                    d.add("dictmod", bt)
            elif isinstance(t, ast.Name):
                d.vars.pop(t.id, None)


def _engine_call_effect(self: Engine, st: PState, c: ast.Call) -> None:
    d: AState = st.data
    # f(...) where the local / parameter f holds a bound method reached from a parameter: the call written out
    if isinstance(c.func, ast.Name) and isinstance(d.vars.get(c.func.id), str) and _re.fullmatch(r"\$\w+(\.\w+){2,}", d.vars[c.func.id]) and not getattr(c, "_spelled", False):
        try:
            fexpr = ast.parse(d.vars[c.func.id][1:], mode="eval").body
        except SyntaxError:
            fexpr = None
        if fexpr is not None:
            call2 = ast.copy_location(ast.Call(func=fexpr, args=c.args, keywords=c.keywords), c)
            ast.fix_missing_locations(call2)
            for n_ in ast.walk(call2.func):
                n_._origin = self.entry
                ast.copy_location(n_, c)
            call2._origin = getattr(c, "_origin", None)
            call2._spelled = True
            return self.call_effect(st, call2)
    name = call_name(c)
    fn = c.func
    self.scan_query(st, c)
    if isinstance(fn, ast.Attribute):
        recv_t = self.term(fn.value, d)
        # raw graph mutation on the tracks graph
        if name in NX_MUTATORS and recv_t.endswith(".graph") and not recv_t.startswith("g:"):
            a = self.args_terms(c, d)
            self.graph_op(st, name, a, c)
            return
        if name == "emit" and isinstance(fn.value, ast.Attribute) and fn.value.attr in self.signals:
            a = self.args_terms(c, d)
            self.emit_event(st, "emit", fn.value.attr, {"arg": a[0] if a else None}, c)
            return
        dn = dotted(fn.value)
        if name in ("append", "extend", "insert") and dn is not None and dn.split(".")[-1] == "actions":
            root = dn.split(".")[0]
            if root.endswith("self"):
                a = self.args_terms(c, d)
                self.emit_event(st, "append", name, {"arg": a[-1] if a else None, "list": dn}, c)
                return
        # a local list that is built up element by element: its term is the tuple of what was appended so far
        if name in ("append", "extend") and isinstance(fn.value, ast.Name) and isinstance(d.vars.get(fn.value.id), str) and len(c.args) == 1:
            cur = d.vars[fn.value.id]
            if cur in ("()", "[]") or cur.startswith("[]@L") or is_tuple_term(cur):
                have = [] if not is_tuple_term(cur) else split_tuple(cur)
                a_t = self.term(c.args[0], d)
                add = [a_t] if name == "append" else (split_tuple(a_t) if is_tuple_term(a_t) else ([] if a_t in ("()", "[]") else None))
                if add is not None:
                    allx = have + add
                    d.vars[fn.value.id] = "(" + ", ".join(allx) + ("," if len(allx) == 1 else "") + ")" if allx else "()"
                    return
        if name == "remove" and isinstance(fn.value, ast.Name) and fn.value.id in d.vars:
            cur = d.vars[fn.value.id]
            p = parse_call_term(cur)
            a = self.args_terms(c, d)
            if p and p[0] == "succs" and a:
                d.vars[fn.value.id] = f"succs_minus({p[1][0]}, {a[0]})@{p[2]}"
            return
    tgt = self.resolve(c, d)
    if tgt and tgt[0] == "func":
        fi = tgt[1][0]
        if fi.cls is not None and fi.cls.qname == self.hist_cls.qname:
            a = self.args_terms(c, d)
            if fi.name in self.register_methods:
                self.emit_event(st, "hist", fi.name, {"arg": a[0] if a else None}, c)
            else:
                self.emit_event(st, "histcall", fi.name, {}, c)
            return
        if fi.name == "notify_annotators" and fi.cls is not None:
            a = self.args_terms(c, d)
            self.mutation(st, "notify", {"action": a[0] if a else None}, c)
            return
        if fi.cls is not None and self.P.is_subclass(fi.cls.qname, "Tracks") and fi.name in QUERY_API:
            return
        r, m, a_ = self.flags(fi)
        if r or m or a_:
            key = fi.short
            self.opaque_calls[key] = self.opaque_calls.get(key, 0) + 1
            if r:
                self.emit_event(st, "mayraise", fi.short, {"args": ", ".join(self.args_terms(c, d))}, c)
            if m:
                self.mutation(st, f"call:{fi.short}", {}, c)
        return
    if tgt and tgt[0] == "class":
        cls = tgt[1]
        if cls.qname in self.action_base:
            # constructed but not inlined (depth limit): conservative
            self.emit_event(st, "construct", cls.name, {"_kind": "opaque", "_obj": None}, c)
            self.mutation(st, f"construct:{cls.name}", {}, c)
        return
    if isinstance(fn, ast.Attribute) and name in MUTATOR_METHODS:
        recv_t = self.term(fn.value, d)
        if self._tracks_rooted(recv_t) and name not in ("sort", "reverse"):
            self.mutation(st, f"method:{name}", {"target": recv_t}, c)


def _engine_graph_op(self: Engine, st: PState, op: str, a: list[str], node: ast.AST) -> None:
    d: AState = st.data
    if op == "add_edge" and len(a) >= 2:
        s, t = a[0], a[1]
        self.mutation(st, "add_edge", {"source": s, "target": t}, node)
        d.add("edge", s, t)
        d.drop("noedge", s, t)
        lo, hi, ax = self.deg(d, "in", t)
        self.set_deg(d, "in", t, lo + 1, hi + 1, ax)
        lo, hi, ax = self.deg(d, "out", s)
        self.set_deg(d, "out", s, lo + 1, hi + 1, ax)
        d.add("node", s)
        d.add("node", t)
    elif op == "remove_edge" and len(a) >= 2:
        s, t = a[0], a[1]
        self.mutation(st, "remove_edge", {"source": s, "target": t}, node)
        d.drop("edge", s, t)
        d.drop("ax_edge", s, t)
        d.add("noedge", s, t)
        lo, hi, ax = self.deg(d, "in", t)
        self.set_deg(d, "in", t, lo - 1, hi - 1, ax)
        lo, hi, ax = self.deg(d, "out", s)
        self.set_deg(d, "out", s, lo - 1, hi - 1, ax)
    elif op == "add_node" and a:
        n = a[0]
        self.mutation(st, "add_node", {"node": n}, node)
        d.add("node", n)
        d.drop("nonode", n)
        d.add("fresh", n)
        self.set_deg(d, "in", n, 0, 0, False)
        self.set_deg(d, "out", n, 0, 0, False)
    elif op == "remove_node" and a:
        n = a[0]
        self.mutation(st, "remove_node", {"node": n}, node)
        d.drop("node", n)
        d.add("nonode", n)
        for f in list(d.facts):
            if f[0] in ("edge", "ax_edge") and n in f[1:]:
                d.facts.discard(f)
    else:
        self.mutation(st, op, {"args": ", ".join(a)}, node)


NODE_QUERIES = {"get_time", "predecessors", "successors", "get_track_id", "get_lineage_id", "get_pixels"}


def _engine_scan_query(self: Engine, st: PState, c: ast.Call) -> None:
    """Modelled implicit raisers: a graph lookup on an id not known to be a node."""
    d: AState = st.data
    name = call_name(c)
    n = None
    if isinstance(c.func, ast.Attribute) and name in ("predecessors", "successors", "in_degree", "out_degree", "in_edges", "out_edges") and self.is_graph(c.func.value, d):
        a = self.args_terms(c, d)
        n = a[0] if len(a) == 1 else None
    elif name in NODE_QUERIES:
        tgt = self.resolve(c, d)
        if tgt and tgt[0] == "func" and tgt[1][0].cls is not None and self.P.is_subclass(tgt[1][0].cls.qname, "Tracks"):
            a = self.args_terms(c, d)
            n = a[0] if a else None
    if n is None:
        return
    known = d.node_known(n)
    self.emit_event(st, "query", name, {"node": n, "known": known}, c)
    if not known and not d.has("nonode", n):
        # surviving the lookup proves the node exists from here on
        d.add("node", n)


def _engine_scan_queries(self: Engine, st: PState, e: ast.AST) -> None:
    for c in calls_in(e):
        self.scan_query(st, c)


Engine.transfer = _engine_transfer
Engine.call_effect = _engine_call_effect
Engine.graph_op = _engine_graph_op
Engine.scan_query = _engine_scan_query
Engine.scan_queries = _engine_scan_queries
