"""Shared analysis of action code: runs the abstract interpreter over every user-action
constructor (and on request over primitives, history and facade methods) and offers the
helpers the C01/C02/C03/C04/C05/C11/C20 rules have in common."""

from __future__ import annotations

import ast
import re
from dataclasses import dataclass

from .absint import AState, Engine, Event, expand_events
from .model import AnalysisError, ClassInfo, FuncInfo, Program, norm

_PREFIX = re.compile(r"_i[0-9a-f]{6}_")


def strip(s: str) -> str:
    return _PREFIX.sub("", s)


@dataclass
class PathResult:
    kind: str  # fall | return | raise
    data: AState
    node: ast.AST | None
    trail: list

    def sequences(self, keep=None, extra=None, limit: int | None = None):
        if limit is not None:
            return expand_events(self.data.events, keep, limit=limit, extra=extra)
        return expand_events(self.data.events, keep, extra=extra)

    @property
    def last(self) -> Event | None:
        ev = self.data.events
        return ev[-1] if ev and isinstance(ev[-1], Event) else None


class ActionAnalysis:
    def __init__(self, P: Program, loop_iters: int = 1):
        self.P = P
        self.loop_iters = loop_iters
        self._cache: dict[str, tuple[Engine, list[PathResult]]] = {}
        self.user_actions = P.user_actions()
        self.primitives = P.primitives()
        if len(self.user_actions) < 5:
            raise AnalysisError(f"only {len(self.user_actions)} user actions found (floor 5)")
        if len(self.primitives) < 6:
            raise AnalysisError(f"only {len(self.primitives)} primitives found (floor 6)")

    def run(self, f: FuncInfo, bind: dict | None = None) -> tuple[Engine, list[PathResult]]:
        key = f.qname + repr(sorted((bind or {}).items()))
        if key not in self._cache:
            E = Engine(self.P, f, loop_iters=self.loop_iters, bind=bind)
            res = [PathResult(k, st.data, n, st.trail) for st, k, n in E.run()]
            self._cache[key] = (E, res)
        return self._cache[key]

    def init_of(self, c: ClassInfo) -> FuncInfo:
        f = self.P.lookup_method(c.qname, "__init__")
        if f is None:
            raise AnalysisError(f"{c.name} has no __init__")
        return f

    # ---- the `_top_level` role
    def top_param(self, c: ClassInfo) -> str | None:
        """A boolean constructor parameter (default True) that is tested in the constructor:
        the flag that says whether this action is the user's own step or a sub-step."""
        init = c.methods.get("__init__")
        if init is None:
            return None
        tested = set()
        for n in ast.walk(init.node):
            if isinstance(n, (ast.If, ast.IfExp, ast.While)):
                for x in ast.walk(n.test):
                    if isinstance(x, ast.Name):
                        tested.add(x.id)
        cands = []
        for p in init.params[1:]:
            d = init.param_default(p)
            if isinstance(d, ast.Constant) and d.value is True:
                cands.append(p)
        # prefer a flag that call sites set to False when nesting; else one that is tested
        nested_kw = self.nested_keyword_falses(c)
        for p in cands:
            if p in nested_kw:
                return p
        for p in cands:
            if p in tested and ("top" in p or "level" in p or "record" in p or "history" in p):
                return p
        return None

    def nested_keyword_falses(self, c: ClassInfo) -> set[str]:
        out = set()
        for ua in self.user_actions:
            init = ua.methods.get("__init__")
            if init is None:
                continue
            for n in ast.walk(init.node):
                if isinstance(n, ast.Call) and isinstance(n.func, ast.Name) and n.func.id == c.name:
                    for k in n.keywords:
                        if k.arg and isinstance(k.value, ast.Constant) and k.value.value is False:
                            out.add(k.arg)
        return out


def describe_mut(ev: Event | None, at: Event | None = None) -> str:
    """Which sub-edit of the analysed constructor made the state dirty (named by the
    callee entered from the constructor body, not by line)."""
    if ev is None:
        return "?"
    top = ev.xctx[0].split(".")[0] if ev.xctx else f"a direct {ev.name}"
    if at is not None and ev.xctx and at.xctx and ev.xctx[0] == at.xctx[0]:
        same_site = getattr(ev, "_site0", None) == getattr(at, "_site0", None)
        if same_site:
            return f"its own {ev.name}"
    return f"sub-edit {top}"


def raise_key(ev: Event) -> str:
    """Identify a raise by exception class and the CLASS whose code raises it (stable under
    extraction of helpers, renaming of locals, rewording of messages and guards)."""
    origin = ev.origin
    if origin is not None and origin.cls is not None:
        where = origin.cls.name
    elif origin is not None:
        where = origin.name
    else:
        where = "?"
    txt = strip(ev.args.get("stmt", ""))
    m = re.match(r"(raise \w+|assert)", txt)
    head = m.group(1) if m else txt[:40]
    return f"{head} in {where}"


GUARD_VOCAB = (
    ("outdeg", r"outdeg|out_degree|successors|succs\("),
    ("indeg", r"indeg|in_degree|predecessors|preds\(|in_edges|pred1\("),
    ("time", r"time"),
    ("edge", r"has_edge"),
    ("node", r"has_node"),
    ("seg", r"segmentation"),
    ("trackid", r"tid\(|track_id|tracklet"),
    ("key", r"haskey| not in | in "),
    ("none", r"is None|is not None"),
)


def guard_signature(text: str) -> str:
    """What a guard is ABOUT, in a small fixed vocabulary - stable under re-spelling of the guard (out_degree(x) == 2,
    len(successors(x)) > 1, a local holding the degree), different for raises that test different things."""
    hits = [name for name, rx in GUARD_VOCAB if re.search(rx, text)]
    return "+".join(hits) if hits else "-"


def trail_text(trail: list, limit: int = 25) -> list[str]:
    return [f"line {ln}: {'' if o else 'not '}({strip(k)[:110]})" for ln, k, o in trail[-limit:]]


def cond_outcome(seq: list[Event], param: str):
    """Outcome of the test of the bare flag `param` at depth 0 on this sequence, or None."""
    for e in seq:
        if e.kind == "cond" and e.xdepth == 0 and (e.name == param or e.args.get("term") == f"${param}"):
            return e.args["outcome"]
    return None
