"""E4 - interprocedural write-effect and return-alias summaries over access paths.

For every function the analysis computes
  effects : {(param, path, kind)}   storage reachable from a parameter that the function may
                                    write (kind 'content' or 'order'), through any callee
  returns : {(param, path, fresh)}  parameter storage the return value may alias; `fresh` is
                                    the number of leading levels that are private copies
Values are sets of locations (param, path, fresh).  A write through a location with fresh > 0
touches only the private copy; descending one level (attribute, item, iteration, view call)
uses up one level of freshness.  Paths are truncated at depth 5.
"""

from __future__ import annotations

import ast
from dataclasses import dataclass, field

from .model import FuncInfo, Program, call_name, norm

MUTATORS = {
    "append", "extend", "insert", "remove", "pop", "clear", "update", "setdefault", "popitem",
    "add", "discard", "add_node", "add_edge", "remove_node", "remove_edge", "add_nodes_from",
    "add_edges_from", "remove_nodes_from", "remove_edges_from", "fill", "itemset", "resize",
    "put", "intersection_update", "difference_update", "symmetric_difference_update",
    "__setitem__", "__delitem__", "clear_edges", "setflags",
}
ORDER_ONLY = {"sort", "reverse"}
# calls that give a private copy: name -> number of fresh levels
COPIES = {
    "list": 1, "dict": 1, "set": 1, "tuple": 1, "sorted": 1, "frozenset": 1, "reversed": 1,
    "copy": 1, "subgraph": 1, "DataFrame": 9, "deepcopy": 9, "array": 9, "asarray": 0,
    "astype": 9, "tolist": 9, "zeros_like": 9, "ones_like": 9, "where": 9, "isin": 9,
    "unique": 9, "concatenate": 9, "stack": 9, "nonzero": 9, "node_link_data": 3, "dumps": 9,  # node_link_data: dict -> list -> per-element dict are new, the attribute VALUES are shared
    "str": 9, "int": 9, "float": 9, "len": 9, "bool": 9, "max": 9, "min": 9, "sum": 9,
    "enumerate": 0, "zip": 0, "iter": 0, "next": 0, "filter": 0, "map": 0,
}
GRAPH_COPY_LEVELS = 4  # nx.Graph.copy(): graph object, node/edge view, (id, attrs) item, attribute dict
# third-party callees that may receive tracks storage and are trusted not to write it
TRUSTED_EXTERNAL = {
    "geff.write", "networkx.node_link_data", "networkx.ancestors", "numpy.save", "numpy.isin",
    "numpy.where", "numpy.array", "numpy.asarray", "numpy.nonzero", "numpy.sum", "numpy.max",
    "numpy.unique", "numpy.ones_like", "numpy.zeros_like", "numpy.prod", "numpy.stack",
    "numpy.c_", "numpy.iinfo", "numpy.expand_dims", "skimage.util.map_array", "json.dump",
    "pandas.DataFrame", "pandas.merge", "tifffile.imwrite", "networkx.get_node_attributes",
    "networkx.weakly_connected_components", "skimage.measure.centroid", "skimage.measure.regionprops",
    "numpy.logical_and", "numpy.concatenate", "numpy.column_stack", "numpy.array_equal",
    "networkx.DiGraph", "funtracks.utils.setup_zarr_array", "funtracks.utils.setup_zarr_group",
}
KNOWN_EXTERNAL_MUTATORS = {
    "networkx.relabel_nodes": (0, "copy"),  # mutates arg 0 unless copy=True (default True)
    "networkx.set_node_attributes": (0, None),
    "networkx.set_edge_attributes": (0, None),
    "numpy.put": (0, None), "numpy.copyto": (0, None), "numpy.place": (0, None),
    "numpy.putmask": (0, None), "random.shuffle": (0, None), "numpy.random.shuffle": (0, None),
}
MAXLEN = 5


def trunc(path: tuple) -> tuple:
    return path if len(path) <= MAXLEN else path[:MAXLEN] + ("*",)


@dataclass
class Summary:
    effects: set = field(default_factory=set)  # (param, path, kind, witness)
    returns: set = field(default_factory=set)  # (param, path, fresh)
    ext_calls: set = field(default_factory=set)  # (callee, param, path)
    ret_tuple: dict = field(default_factory=dict)  # index -> {(param, path, fresh)} for `return (a, b, ..)`

    def key(self):
        return (
            frozenset((p, pa, k) for p, pa, k, _ in self.effects), frozenset(self.returns),
            frozenset((i, frozenset(v)) for i, v in self.ret_tuple.items()),
        )


class Effects:
    def __init__(self, P: Program):
        self.P = P
        self.summ: dict[str, Summary] = {q: Summary() for q in P.functions}
        self.envs = {q: P.local_env(f) for q, f in P.functions.items()}
        self.by_name: dict[str, list[FuncInfo]] = {}
        for f in P.functions.values():
            if f.cls is not None and f.parent is None:
                self.by_name.setdefault(f.name, []).append(f)
        self.rounds = 0
        self._solve()

    # ------------------------------------------------------------------
    def _solve(self) -> None:
        changed = True
        while changed and self.rounds < 12:
            changed = False
            self.rounds += 1
            for q, f in self.P.functions.items():
                new = self._analyse(f)
                if new.key() != self.summ[q].key():
                    # monotone: keep what was known
                    new.effects |= self.summ[q].effects
                    new.returns |= self.summ[q].returns
                    new.ext_calls |= self.summ[q].ext_calls
                    for i, v in self.summ[q].ret_tuple.items():
                        new.ret_tuple.setdefault(i, set()).update(v)
                    if new.key() != self.summ[q].key():
                        self.summ[q] = new
                        changed = True

    def _analyse(self, f: FuncInfo) -> Summary:
        S = Summary()
        env = self.envs[f.qname]
        vals: dict[str, set] = {}
        params = f.params
        for p in params:
            vals[p] = {(p, (), 0)}
        if f.parent is not None:  # closure: sees the parent's parameters
            for p in f.parent.params:
                vals.setdefault(p, {(p, (), 0)})
        an = _FuncAnalyser(self, f, env, vals, S)
        for _ in range(3):  # flow-insensitive within the function: iterate to a fixpoint
            before = {k: set(v) for k, v in vals.items()}
            an.run()
            if before == vals:
                break
        return S

    # ------------------------------------------------------------------ queries
    def effects_on(self, f: FuncInfo, param: str, kinds=("content", "order")):
        return sorted(
            ((pa, k, w) for p, pa, k, w in self.summ[f.qname].effects if p == param and k in kinds),
            key=lambda x: (x[0], x[1], x[2]),
        )

    def writers_of(self, attr: str):
        """functions (not via callees) that syntactically write storage named `attr`"""
        out = []
        for q, s in self.summ.items():
            for p, pa, k, w in s.effects:
                if attr in pa and w.startswith(self.P.functions[q].module.rel):
                    out.append((self.P.functions[q], p, pa, k, w))
        return out


class _FuncAnalyser:
    def __init__(self, E: Effects, f: FuncInfo, env, vals, S: Summary):
        self.E, self.f, self.env, self.vals, self.S = E, f, env, vals, S
        self.P = E.P

    def run(self) -> None:
        for node in ast.walk(self.f.node):
            if isinstance(node, (ast.FunctionDef, ast.Lambda)) and node is not self.f.node:
                continue
            self.stmt(node)

    # ---- values
    def val(self, e: ast.expr | None) -> set:
        if e is None:
            return set()
        if isinstance(e, ast.Name):
            return set(self.vals.get(e.id, ()))
        if isinstance(e, ast.Attribute):
            base = self.val(e.value)
            out = set()
            # property that returns an alias
            t = self.P.type_of(e.value, self.env, self.f)
            if t and t in self.P.classes:
                m = self.P.lookup_method(t, e.attr)
                if m is not None and "property" in m.decorators():
                    for p, pa, fr in self.E.summ[m.qname].returns:
                        if p == m.params[0]:
                            for bp, bpa, bfr in base:
                                out.add((bp, trunc(bpa + pa), max(fr, 0)))
                    return out
            for p, pa, fr in base:
                out.add((p, trunc(pa + (e.attr,)), max(fr - 1, 0)))
            return out
        if isinstance(e, ast.Subscript):
            return {(p, trunc(pa + ("[*]",)), max(fr - 1, 0)) for p, pa, fr in self.val(e.value)}
        if isinstance(e, ast.Starred):
            return self.val(e.value)
        if isinstance(e, (ast.Tuple, ast.List, ast.Set)):
            out = set()
            for x in e.elts:
                for p, pa, fr in self.val(x):
                    out.add((p, pa, fr + 1))  # a fresh container holding shared elements
            return out
        if isinstance(e, ast.IfExp):
            return self.val(e.body) | self.val(e.orelse)
        if isinstance(e, ast.BoolOp):
            out = set()
            for v in e.values:
                out |= self.val(v)
            return out
        if isinstance(e, ast.NamedExpr):
            v = self.val(e.value)
            if isinstance(e.target, ast.Name):
                self.vals.setdefault(e.target.id, set()).update(v)
            return v
        if isinstance(e, ast.Call):
            return self.call_val(e)
        if isinstance(e, (ast.ListComp, ast.SetComp, ast.GeneratorExp)):
            self.bind_comprehension(e)
            return {(p, pa, fr + 1) for p, pa, fr in self.val(e.elt)}
        if isinstance(e, ast.DictComp):
            self.bind_comprehension(e)
            return {(p, pa, fr + 1) for p, pa, fr in self.val(e.value)}
        if isinstance(e, ast.Dict):
            out = set()
            for v in e.values:
                for p, pa, fr in self.val(v):
                    out.add((p, pa, fr + 1))
            return out
        if isinstance(e, ast.Await):
            return self.val(e.value)
        return set()

    def bind_comprehension(self, e) -> None:
        for g in e.generators:
            self.bind_iter(g.target, g.iter)

    def bind_iter(self, target: ast.expr, it: ast.expr) -> None:
        elems = {(p, trunc(pa + ("[*]",)), max(fr - 1, 0)) for p, pa, fr in self.val(it)}
        self.bind(target, elems)

    def bind(self, target: ast.expr, v: set) -> None:
        if isinstance(target, ast.Name):
            self.vals.setdefault(target.id, set()).update(v)
        elif isinstance(target, (ast.Tuple, ast.List)):
            for x in target.elts:
                self.bind(x.value if isinstance(x, ast.Starred) else x,
                          {(p, trunc(pa + ("[*]",)), max(fr - 1, 0)) for p, pa, fr in v})

    def call_val(self, c: ast.Call) -> set:
        name = call_name(c)
        tgt = self.P.resolve_call(c, self.env, self.f, count=False)
        if tgt and tgt[0] == "func":
            out = set()
            for callee in tgt[1]:
                binding = self.bind_args(c, callee)
                for p, pa, fr in self.E.summ[callee.qname].returns:
                    for bp, bpa, bfr in binding.get(p, ()):
                        out.add((bp, trunc(bpa + pa), fr + bfr if not pa else fr))
            return out
        if tgt and tgt[0] == "class":
            return set()
        recv = self.val(c.func.value) if isinstance(c.func, ast.Attribute) else set()
        if isinstance(c.func, ast.Attribute) and name == "copy":
            t = self.P.type_of(c.func.value, self.env, self.f)
            lv = GRAPH_COPY_LEVELS if (t or "").endswith("Graph") or "graph" in norm(c.func.value).lower() else 1
            return {(p, pa, fr + lv) for p, pa, fr in recv}
        if name in COPIES:
            lv = COPIES[name]
            src = set()
            for a in c.args[:1]:
                src |= self.val(a)
            if isinstance(c.func, ast.Attribute) and not c.args:
                src = recv
            elif isinstance(c.func, ast.Attribute) and name in ("subgraph", "astype", "tolist"):
                src = recv
            if lv >= 9:
                return set()
            if name in ("enumerate", "zip", "iter", "next", "filter", "map"):
                out = set()
                for a in c.args:
                    out |= self.val(a)
                return out
            return {(p, pa, fr + lv) for p, pa, fr in src}
        if isinstance(c.func, ast.Attribute):
            # view-returning methods of containers/graphs: the result lives inside the receiver
            if name in ("items", "values", "keys", "nodes", "edges", "get", "successors", "predecessors",
                        "in_edges", "out_edges", "out_degree", "in_degree", "compute", "flatten", "reshape", "ravel", "view"):
                return {(p, trunc(pa + ("[*]",)) if name not in ("reshape", "ravel", "view", "compute") else pa, max(fr - 1, 0) if name not in ("reshape", "ravel", "view", "compute") else fr) for p, pa, fr in recv}
            if name in ("pop", "setdefault", "popitem"):
                return {(p, trunc(pa + ("[*]",)), max(fr - 1, 0)) for p, pa, fr in recv}
        return set()

    def bind_args(self, c: ast.Call, callee: FuncInfo) -> dict[str, set]:
        params = list(callee.params)
        out: dict[str, set] = {}
        if callee.cls is not None and "staticmethod" not in callee.decorators() and params:
            if isinstance(c.func, ast.Attribute):
                if isinstance(c.func.value, ast.Call) and call_name(c.func.value) == "super":
                    out[params[0]] = set(self.vals.get(self.f.params[0], ())) if self.f.params else set()
                else:
                    out[params[0]] = self.val(c.func.value)
            params = params[1:]
        for p, a in zip(params, c.args, strict=False):
            out.setdefault(p, set()).update(self.val(a))
        for k in c.keywords:
            if k.arg:
                out.setdefault(k.arg, set()).update(self.val(k.value))
        return out

    # ---- effects
    def write(self, locs: set, kind: str, node: ast.AST, extra: tuple = ()) -> None:
        for p, pa, fr in locs:
            if fr > 0:
                continue
            if p not in self.f.params and not (self.f.parent and p in self.f.parent.params):
                continue
            self.S.effects.add((p, trunc(pa + extra), kind, f"{self.f.module.rel}:{getattr(node, 'lineno', 0)}"))

    def stmt(self, node: ast.AST) -> None:
        if isinstance(node, ast.Assign):
            if self.assign_tuple_call(node):
                return
            v = self.val(node.value)
            for t in node.targets:
                self.assign(t, v, node)
        elif isinstance(node, ast.AnnAssign) and node.value is not None:
            self.assign(node.target, self.val(node.value), node)
        elif isinstance(node, ast.AugAssign):
            if isinstance(node.target, ast.Name):
                # x += ... on an alias of shared storage mutates in place for lists / arrays
                locs = self.val(node.target)
                self.write(locs, "content", node)
            else:
                self.assign(node.target, set(), node)
        elif isinstance(node, ast.Delete):
            for t in node.targets:
                if isinstance(t, (ast.Subscript, ast.Attribute)):
                    self.write(self.val(t.value), "content", node, ("[*]",) if isinstance(t, ast.Subscript) else (t.attr,))
        elif isinstance(node, (ast.For, ast.AsyncFor)):
            self.bind_iter(node.target, node.iter)
        elif isinstance(node, (ast.With, ast.AsyncWith)):
            for it in node.items:
                if it.optional_vars is not None:
                    self.bind(it.optional_vars, self.val(it.context_expr))
        elif isinstance(node, ast.Return) and node.value is not None:
            if isinstance(node.value, ast.Tuple):
                for i, x in enumerate(node.value.elts):
                    self.S.ret_tuple.setdefault(i, set()).update(l for l in self.val(x) if l[0] in self.f.params)
            for p, pa, fr in self.val(node.value):
                if p in self.f.params:
                    self.S.returns.add((p, pa, fr))
        elif isinstance(node, ast.Call):
            self.call(node)

    def assign_tuple_call(self, node: ast.Assign) -> bool:
        """a, b = f(...) where f returns a tuple literal: bind element-wise."""
        if len(node.targets) != 1 or not isinstance(node.targets[0], (ast.Tuple, ast.List)) or not isinstance(node.value, ast.Call):
            return False
        tgt = self.P.resolve_call(node.value, self.env, self.f, count=False)
        if not (tgt and tgt[0] == "func"):
            return False
        callee = tgt[1][0]
        rt = self.E.summ[callee.qname].ret_tuple
        elts = node.targets[0].elts
        if not rt or len(rt) != len(elts):
            return False
        binding = self.bind_args(node.value, callee)
        for i, x in enumerate(elts):
            out = set()
            for p, pa, fr in rt.get(i, ()):
                for bp, bpa, bfr in binding.get(p, ()):
                    out.add((bp, trunc(bpa + pa), fr + bfr if not pa else fr))
            self.assign(x, out, node)
        self.call(node.value)
        return True

    def assign(self, t: ast.expr, v: set, node: ast.AST) -> None:
        if isinstance(t, ast.Name):
            self.vals.setdefault(t.id, set()).update(v)
        elif isinstance(t, (ast.Tuple, ast.List)):
            self.bind(t, v)
        elif isinstance(t, ast.Attribute):
            self.write(self.val(t.value), "content", node, (t.attr,))
        elif isinstance(t, ast.Subscript):
            self.write(self.val(t.value), "content", node, ("[*]",))

    def call(self, c: ast.Call) -> None:
        name = call_name(c)
        tgt = self.P.resolve_call(c, self.env, self.f, count=False)
        callees: list[FuncInfo] = []
        if tgt and tgt[0] == "func":
            callees = list(tgt[1])
            # dynamic dispatch: overriding definitions in subclasses
            for callee in list(callees):
                if callee.cls is not None:
                    callees += [m for m in self.P.overriders(callee.cls.qname, callee.name) if m not in callees]
        elif tgt and tgt[0] == "class":
            init = self.P.lookup_method(tgt[1].qname, "__init__")
            if init is not None:
                binding = {init.params[0]: set()}
                binding.update(self._ctor_binding(c, init))
                self.apply(init, binding, c)
            return
        elif tgt and tgt[0] == "ext":
            self.external(tgt[1], c)
            return
        elif isinstance(c.func, ast.Attribute):
            recv = self.val(c.func.value)
            if name in MUTATORS:
                self.write(recv, "content", c)
                return
            if name in ORDER_ONLY:
                self.write(recv, "order", c)
                return
            if recv and name in self.E.by_name and name not in ("get", "items", "keys", "values", "copy", "update"):
                callees = self.E.by_name[name]
        for callee in callees:
            self.apply(callee, self.bind_args(c, callee), c)

    def _ctor_binding(self, c: ast.Call, init: FuncInfo) -> dict[str, set]:
        out: dict[str, set] = {}
        for p, a in zip(init.params[1:], c.args, strict=False):
            out.setdefault(p, set()).update(self.val(a))
        for k in c.keywords:
            if k.arg:
                out.setdefault(k.arg, set()).update(self.val(k.value))
        return out

    def apply(self, callee: FuncInfo, binding: dict[str, set], c: ast.Call) -> None:
        for p, pa, kind, w in self.E.summ[callee.qname].effects:
            for bp, bpa, bfr in binding.get(p, ()):
                depth_used = len(pa)
                if bfr > depth_used:
                    continue  # the write lands inside the private copy
                if bp in self.f.params or (self.f.parent and bp in self.f.parent.params):
                    self.S.effects.add((bp, trunc(bpa + pa), kind, w))

    def external(self, qual: str, c: ast.Call) -> None:
        base = qual
        for k, (argi, flag) in KNOWN_EXTERNAL_MUTATORS.items():
            if base == k or base.endswith("." + k.split(".", 1)[1]) and base.split(".")[0] == k.split(".")[0]:
                if flag:
                    kw = next((x for x in c.keywords if x.arg == flag), None)
                    if kw is None or not (isinstance(kw.value, ast.Constant) and kw.value.value is False):
                        return
                if argi < len(c.args):
                    self.write(self.val(c.args[argi]), "content", c)
                return
        for a in list(c.args) + [k.value for k in c.keywords]:
            for p, pa, fr in self.val(a):
                if fr == 0 and p in self.f.params:
                    self.S.ext_calls.add((qual, p, pa))
