"""Syntactic inlining of private helper methods for the shape rules.

`effective_body(P, f)` returns a copy of f's AST in which every statement-level call `<recv>._helper(args)` of a
private method of the data model (defined once, no early return with a value, called for its effects) is replaced by
the helper's body, with `self` replaced by the receiver expression and the parameters by the argument expressions.
A primitive whose `_apply` was moved into `Tracks._insert_node(...)` then reads to the rules exactly as before."""

from __future__ import annotations

import ast
import copy

from .model import FuncInfo, Program, norm


def _subst(node: ast.AST, mapping: dict[str, ast.expr]) -> ast.AST:
    class S(ast.NodeTransformer):
        def visit_Name(self, n):
            if n.id in mapping and isinstance(n.ctx, ast.Load):
                return ast.copy_location(copy.deepcopy(mapping[n.id]), n)
            return n

    return S().visit(node)


def effective_body(P: Program, f: FuncInfo, owner_class: str = "Tracks", depth: int = 2) -> ast.FunctionDef:
    fn = copy.deepcopy(f.node)
    env = P.local_env(f)

    def expand(stmts, d):
        out = []
        for s_ in stmts:
            for fld in ("body", "orelse", "finalbody"):
                sub = getattr(s_, fld, None)
                if isinstance(sub, list) and sub and isinstance(sub[0], ast.stmt):
                    setattr(s_, fld, expand(sub, d))
            call = s_.value if isinstance(s_, ast.Expr) and isinstance(s_.value, ast.Call) else None
            if call is not None and isinstance(call.func, ast.Attribute) and call.func.attr.startswith("_") and d > 0:
                tgt = P.resolve_call(call, env, f, count=False)
                h = tgt[1][0] if tgt and tgt[0] == "func" else None
                if h is not None and h.cls is not None and P.is_subclass(h.cls.qname, owner_class) and h.name not in ("_set_node_attr", "_set_nodes_attr", "_set_edge_attr", "_set_edges_attr") \
                        and not any(isinstance(r, ast.Return) and r.value is not None for r in ast.walk(h.node)) \
                        and not any(isinstance(r, ast.Return) for st in h.node.body[:-1] for r in ast.walk(st)):
                    params = [p_ for p_ in h.params if p_ != "self"]
                    mapping: dict[str, ast.expr] = {"self": call.func.value}
                    for p_, a_ in zip(params, call.args, strict=False):
                        mapping[p_] = a_
                    for kw in call.keywords:
                        if kw.arg:
                            mapping[kw.arg] = kw.value
                    for p_ in params:
                        if p_ not in mapping:
                            dflt = h.param_default(p_)
                            if dflt is None:
                                break
                            mapping[p_] = dflt
                    else:
                        body = [b for b in copy.deepcopy(h.node.body) if not (isinstance(b, ast.Expr) and isinstance(b.value, ast.Constant))]
                        # only if the helper does not rebind its parameters
                        stores = {x.id for b in body for x in ast.walk(b) if isinstance(x, ast.Name) and isinstance(x.ctx, ast.Store)}
                        if not (stores & set(mapping)):
                            new = [ast.copy_location(_subst(b, mapping), s_) for b in body]
                            for n_ in new:
                                ast.fix_missing_locations(n_)
                            out.extend(expand(new, d - 1))
                            continue
            out.append(s_)
        return out

    fn.body = expand(fn.body, depth)
    ast.fix_missing_locations(fn)
    return fn


def only_called_from(P: Program, h: FuncInfo, allowed: set[str]) -> bool:
    """every call site `x.<h.name>(...)` in the package is inside a function of `allowed`"""
    callers = []
    for g in P.functions.values():
        if g is h:
            continue
        if any(isinstance(c, ast.Call) and isinstance(c.func, ast.Attribute) and c.func.attr == h.name for c in ast.walk(g.node)):
            callers.append(g.qname)
    return bool(callers) and all(q in allowed for q in callers)
