"""E7 - obligations, evidence, known findings, replay files, exit codes."""

from __future__ import annotations

import hashlib
import json
import os
import time
from dataclasses import asdict, dataclass, field
from pathlib import Path

from .model import AnalysisError, FuncInfo

VERIF = Path(__file__).resolve().parent.parent
KNOWN = VERIF / "known_findings.json"


@dataclass
class Obligation:
    rule: str
    func: str
    site: str
    construct: str
    status: str  # discharged | violated | undecided
    detail: str = ""
    via: str = ""  # facts | axiom:AX-... | exception:<id> | table | summary ...
    path: list = field(default_factory=list)

    @property
    def key(self) -> str:
        return f"{self.rule}|{self.func}|{self.construct}"


class Report:
    def __init__(self, prop: str, tier: str, explanation: str = ""):
        self.prop = prop
        self.tier = tier
        self.t0 = time.time()
        self.obligations: list[Obligation] = []
        self.explanation = explanation
        self.decides: list[str] = []
        self.not_decided: list[str] = []
        self.assumptions: list[str] = []
        self.trusted: list[str] = []
        self.counters: dict[str, int] = {}
        self.axioms_used: dict[str, int] = {}
        self.exceptions_applied: list[str] = []
        self.notes: list[str] = []
        self._seen: set[str] = set()
        self._unmet: list[str] = []
        self.only_key: str | None = None

    # ---- recording
    def count(self, name: str, n: int = 1) -> None:
        self.counters[name] = self.counters.get(name, 0) + n

    def _add(self, ob: Obligation) -> None:
        # one obligation per (key, status): many paths may re-establish the same one
        tag = ob.key + "|" + ob.status + "|" + ob.via
        if tag in self._seen:
            self.count("path_instances_merged")
            return
        self._seen.add(tag)
        self.obligations.append(ob)
        if ob.via.startswith("axiom:"):
            ax = ob.via.split(":", 1)[1]
            self.axioms_used[ax] = self.axioms_used.get(ax, 0) + 1
        if ob.via.startswith("exception:"):
            self.exceptions_applied.append(f"{ob.via[10:]} @ {ob.func}: {ob.construct}")

    def ok(self, rule, func, site, construct, detail="", via="facts") -> None:
        self._add(Obligation(rule, _fn(func), _site(func, site), construct, "discharged", detail, via))

    def fail(self, rule, func, site, construct, detail="", path=None) -> None:
        self._add(
            Obligation(rule, _fn(func), _site(func, site), construct, "violated", detail, "", path or [])
        )

    def undecided(self, rule, func, site, construct, detail="") -> None:
        self._add(Obligation(rule, _fn(func), _site(func, site), construct, "undecided", detail))

    def check(self, cond: bool, rule, func, site, construct, detail="", via="facts", path=None):
        if cond:
            self.ok(rule, func, site, construct, detail, via)
        else:
            self.fail(rule, func, site, construct, detail, path)
        return cond

    def floor(self, rule: str, what: str, found: int, minimum: int) -> None:
        """Minimum number of instances a rule must have found.  Evaluated when the run
        finishes: an unmet floor is an ANALYSIS-ERROR (the analysis lost its subject) unless a
        rule already reported a violation on the changed code."""
        self.count(f"floor:{rule}:{what}", found)
        if found < minimum:
            self._unmet.append(f"{rule}: found {found} {what}, expected at least {minimum}")

    # ---- finishing
    def finish(self) -> int:
        if self._unmet and not any(o.status == "violated" for o in self.obligations):
            raise AnalysisError("; ".join(self._unmet) + " - the analysis lost its subject")
        self.notes += [f"floor not met after violations were recorded: {u}" for u in self._unmet]
        known = _load_known()
        listed = {
            (k["property"], k["key"]): k for k in known.get("findings", [])
        }
        viol = [o for o in self.obligations if o.status == "violated"]
        if self.only_key is not None:
            viol = [o for o in viol if _hash(o.key) == self.only_key or o.key == self.only_key]
        unlisted, known_hit = [], []
        for o in viol:
            if (self.prop, o.key) in listed:
                known_hit.append((o, listed[(self.prop, o.key)]))
            else:
                unlisted.append(o)
        for o, k in known_hit:
            print(f"KNOWN-FINDING: property={self.prop} {o.rule} {o.func} @ {o.site}: {k['what_fails']}")
        stale = [
            k for (p, key), k in listed.items()
            if p == self.prop and not any(o.key == key for o in viol)
        ]
        for k in stale:
            # a listed finding that no longer fires is reported (not an alarm): it was
            # repaired or the code moved; the list is never edited at run time.
            print(f"NOTE: property={self.prop} listed known finding no longer reported: {k['key']}")
        rdir = (Path("/tmp/verif-scratch-replay") if os.environ.get("VERIF_NO_EVIDENCE") else VERIF / "replay") / self.prop
        for o in unlisted:
            rdir.mkdir(parents=True, exist_ok=True)
            rp = rdir / f"{_hash(o.key)}.json"
            rp.write_text(json.dumps({"property": self.prop, **asdict(o), "key": o.key}, indent=1))
            print(f"VIOLATION property={self.prop} replay={rp}")
            print(f"  rule {o.rule} at {o.site} in {o.func}: {o.construct}")
            if o.detail:
                print(f"  {o.detail}")
            for step in o.path[:40]:
                print(f"    path: {step}")
        self._write_evidence(len(unlisted), len(known_hit))
        n_ok = sum(1 for o in self.obligations if o.status == "discharged")
        print(
            f"{self.prop} [{self.tier}] obligations={len(self.obligations)} discharged={n_ok} "
            f"violations={len(unlisted)} known_findings={len(known_hit)} "
            f"undecided={sum(1 for o in self.obligations if o.status == 'undecided')} "
            f"wall={time.time() - self.t0:.2f}s"
        )
        return 1 if unlisted else 0

    def _write_evidence(self, n_viol: int, n_known: int) -> None:
        obs = self.obligations
        n_ok = sum(1 for o in obs if o.status == "discharged")
        samples = []
        by_rule: dict[str, int] = {}
        for o in obs:
            by_rule[o.rule] = by_rule.get(o.rule, 0) + 1
            if by_rule[o.rule] <= 4 or o.status != "discharged":
                samples.append(
                    {
                        "rule": o.rule,
                        "site": o.site,
                        "function": o.func,
                        "obligation": o.construct,
                        "verdict": o.status,
                        "via": o.via,
                        "detail": o.detail[:300],
                    }
                )
        expl = self.explanation.strip()
        if self.decides:
            expl += " DECIDES: " + "; ".join(self.decides) + "."
        if self.not_decided:
            expl += " DOES NOT DECIDE: " + "; ".join(self.not_decided) + "."
        ev = {
            "property_id": self.prop,
            "tier": self.tier,
            "seed": int(os.environ.get("VERIF_SEED", "0") or 0),
            "level": "other",
            "coverage": {
                "explanation": expl,
                "obligations": len(obs),
                "discharged": n_ok,
                "evaluations": len(obs) + self.counters.get("path_instances_merged", 0),
                "distinct_nontrivial": len({o.key for o in obs}),
                "rule": "one obligation per (rule, function, normalised construct) found in "
                "/repo/src on this run; path instances of the same obligation are merged; "
                "an obligation is non-trivial when it names a concrete construct of the tree",
                "obligations_by_rule": by_rule,
                "undecided": sum(1 for o in obs if o.status == "undecided"),
                "known_findings_reported": n_known,
                "counters": self.counters,
                "axioms_used": self.axioms_used,
                "exceptions_applied": self.exceptions_applied,
                "checker_cmd": f"/verif/check {self.prop} --tier {self.tier}",
                "trusted_base": sorted(set(self.trusted)) or ["python ast module"],
                "samples": samples[:120],
                "notes": self.notes[:40],
                "exhaustive": False,
            },
            "assumptions": self.assumptions,
            "wall_s": round(time.time() - self.t0, 3),
            "violations": n_viol,
        }
        if os.environ.get("VERIF_NO_EVIDENCE"):
            return
        ed = VERIF / "evidence"
        ed.mkdir(exist_ok=True)
        (ed / f"{self.prop}.json").write_text(json.dumps(ev, indent=1, default=str))


def _fn(f) -> str:
    return f.short if isinstance(f, FuncInfo) else str(f)


def _site(func, site) -> str:
    if isinstance(site, str):
        return site
    if isinstance(func, FuncInfo):
        return func.at(site) if site is not None else func.loc
    return str(site)


def _hash(key: str) -> str:
    return hashlib.sha1(key.encode()).hexdigest()[:12]


def _load_known() -> dict:
    if KNOWN.is_file():
        return json.loads(KNOWN.read_text())
    return {"findings": [], "fixed": []}
