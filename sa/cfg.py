"""E2a - statement-level control-flow graphs, dominance and small dataflow helpers.

One CFG per function.  Nodes are ints; node payloads are the `ast` statements (simple
statements) or the controlling expression of a compound statement (kind 'test' / 'for').
Two distinguished exits: EXIT (normal return / fall off the end) and RAISE (explicit
`raise`, failing `assert`).  Implicit exceptions are not modelled here.
"""

from __future__ import annotations

import ast
from dataclasses import dataclass, field

import networkx as nx

ENTRY, EXIT, RAISE = 0, 1, 2


@dataclass
class Node:
    id: int
    kind: str  # entry exit raise stmt test for with return raisestmt assert break continue
    ast: ast.AST | None = None
    loop: int | None = None  # id of enclosing loop header


@dataclass
class CFG:
    func: ast.FunctionDef
    nodes: dict[int, Node] = field(default_factory=dict)
    g: nx.DiGraph = field(default_factory=nx.DiGraph)
    of_ast: dict[int, int] = field(default_factory=dict)  # id(ast stmt) -> node id

    # ---- queries
    def succ(self, n: int):
        return list(self.g.successors(n))

    def pred(self, n: int):
        return list(self.g.predecessors(n))

    def node_of(self, stmt: ast.AST) -> int | None:
        return self.of_ast.get(id(stmt))

    _dom: dict | None = None
    _pdom: dict | None = None

    def idom(self) -> dict[int, int]:
        if self._dom is None:
            self._dom = nx.immediate_dominators(self.g, ENTRY)
        return self._dom

    def dominates(self, a: int, b: int) -> bool:
        """a dominates b (every path ENTRY->b passes a).  Unreachable b: True."""
        idom = self.idom()
        if b not in idom:
            return True
        x = b
        while True:
            if x == a:
                return True
            if x == ENTRY or idom.get(x, x) == x:
                return a == x
            x = idom[x]

    def reachable(self, a: int, b: int, avoiding: set[int] = frozenset()) -> bool:
        """Is there a path a ->+ b that avoids the nodes in `avoiding`?"""
        seen, todo = set(), [s for s in self.g.successors(a)]
        while todo:
            x = todo.pop()
            if x in seen or x in avoiding:
                continue
            if x == b:
                return True
            seen.add(x)
            todo.extend(self.g.successors(x))
        return False

    def reach_set(self, a: int, avoiding: set[int] = frozenset()) -> set[int]:
        seen, todo = set(), [s for s in self.g.successors(a)]
        while todo:
            x = todo.pop()
            if x in seen or x in avoiding:
                continue
            seen.add(x)
            todo.extend(self.g.successors(x))
        return seen

    def stmts(self):
        return [n for n in self.nodes.values() if n.ast is not None]

    def node_containing(self, expr: ast.AST) -> int | None:
        """id of the flow-graph node at which `expr` is evaluated (the header of a compound statement, or the simple statement)"""
        for n in self.nodes.values():
            if n.ast is None:
                continue
            if n.ast is expr:
                return n.id
            h = header_expr(n.ast)
            if h is not None and any(x is expr for x in ast.walk(h)):
                return n.id
        return None


class _Builder:
    def __init__(self, func: ast.FunctionDef):
        self.cfg = CFG(func)
        self.n = 3
        for i, k in ((ENTRY, "entry"), (EXIT, "exit"), (RAISE, "raise")):
            self.cfg.nodes[i] = Node(i, k)
            self.cfg.g.add_node(i)
        self.loops: list[tuple[int, list[int]]] = []  # (header, break sources)
        self.handlers: list[list[int]] = []  # stack of handler entry nodes

    def new(self, kind: str, node: ast.AST | None) -> int:
        i = self.n
        self.n += 1
        self.cfg.nodes[i] = Node(i, kind, node, self.loops[-1][0] if self.loops else None)
        self.cfg.g.add_node(i)
        if node is not None:
            self.cfg.of_ast[id(node)] = i
        return i

    def edge(self, a: int, b: int, label: str = "next") -> None:
        self.cfg.g.add_edge(a, b, label=label)

    def link(self, frontier: list[tuple[int, str]], b: int) -> None:
        for a, lab in frontier:
            self.edge(a, b, lab)

    def block(self, stmts: list[ast.stmt], frontier: list[tuple[int, str]]):
        for s in stmts:
            if not frontier:
                break
            frontier = self.stmt(s, frontier)
        return frontier

    def raise_target(self) -> int:
        return RAISE

    def stmt(self, s: ast.stmt, frontier):
        if isinstance(s, ast.If):
            t = self.new("test", s)
            self.link(frontier, t)
            a = self.block(s.body, [(t, "true")])
            b = self.block(s.orelse, [(t, "false")]) if s.orelse else [(t, "false")]
            return a + b
        if isinstance(s, (ast.For, ast.While)):
            h = self.new("for" if isinstance(s, ast.For) else "test", s)
            self.link(frontier, h)
            self.loops.append((h, []))
            body_out = self.block(s.body, [(h, "true")])
            for a, _ in body_out:
                self.edge(a, h, "back")
            _, breaks = self.loops.pop()
            out = self.block(s.orelse, [(h, "false")]) if s.orelse else [(h, "false")]
            return out + [(b, "break") for b in breaks]
        if isinstance(s, ast.Break):
            n = self.new("break", s)
            self.link(frontier, n)
            if self.loops:
                self.loops[-1][1].append(n)
            return []
        if isinstance(s, ast.Continue):
            n = self.new("continue", s)
            self.link(frontier, n)
            if self.loops:
                self.edge(n, self.loops[-1][0], "back")
            return []
        if isinstance(s, ast.Return):
            n = self.new("return", s)
            self.link(frontier, n)
            self.edge(n, EXIT, "return")
            return []
        if isinstance(s, ast.Raise):
            n = self.new("raisestmt", s)
            self.link(frontier, n)
            if self.handlers:
                for h in self.handlers[-1]:
                    self.edge(n, h, "exc")
            else:
                self.edge(n, RAISE, "raise")
            return []
        if isinstance(s, ast.Assert):
            n = self.new("assert", s)
            self.link(frontier, n)
            self.edge(n, RAISE, "false")
            return [(n, "true")]
        if isinstance(s, (ast.With, ast.AsyncWith)):
            n = self.new("with", s)
            self.link(frontier, n)
            return self.block(s.body, [(n, "next")])
        if isinstance(s, ast.Try):
            hs = [self.new("handler", h) for h in s.handlers]
            self.handlers.append(hs)
            start = self.new("try", s)
            self.link(frontier, start)
            for h in hs:  # an exception may occur anywhere in the body
                self.edge(start, h, "exc")
            body_out = self.block(s.body, [(start, "next")])
            self.handlers.pop()
            for a, _ in list(body_out):
                for h in hs:
                    self.edge(a, h, "exc")
            body_out = self.block(s.orelse, body_out) if s.orelse else body_out
            out = list(body_out)
            for h, hn in zip(s.handlers, hs, strict=True):
                out += self.block(h.body, [(hn, "next")])
            if s.finalbody:
                out = self.block(s.finalbody, out)
            return out
        if isinstance(s, (ast.FunctionDef, ast.AsyncFunctionDef, ast.ClassDef)):
            n = self.new("def", s)
            self.link(frontier, n)
            return [(n, "next")]
        n = self.new("stmt", s)
        self.link(frontier, n)
        return [(n, "next")]


def build_cfg(func: ast.FunctionDef) -> CFG:
    b = _Builder(func)
    out = b.block(func.body, [(ENTRY, "next")])
    b.link(out, EXIT)
    return b.cfg


# ---------------------------------------------------------------------- def/use helpers
def stores(node: ast.AST) -> set[str]:
    """Names (and dotted self attributes) bound by a statement / loop header."""
    out: set[str] = set()
    if isinstance(node, (ast.For, ast.AsyncFor)):
        tgts = [node.target]
    elif isinstance(node, ast.Assign):
        tgts = node.targets
    elif isinstance(node, (ast.AugAssign, ast.AnnAssign)):
        tgts = [node.target] if not (isinstance(node, ast.AnnAssign) and node.value is None) else []
    elif isinstance(node, (ast.With, ast.AsyncWith)):
        tgts = [i.optional_vars for i in node.items if i.optional_vars is not None]
    elif isinstance(node, (ast.FunctionDef, ast.ClassDef)):
        return {node.name}
    elif isinstance(node, (ast.Import, ast.ImportFrom)):
        return {(a.asname or a.name).split(".")[0] for a in node.names}
    else:
        tgts = []
    for t in tgts:
        for x in ast.walk(t):
            if isinstance(x, ast.Name) and isinstance(x.ctx, ast.Store):
                out.add(x.id)
    # walrus anywhere in the controlling expression / statement
    hdr = header_expr(node)
    for x in ast.walk(hdr) if hdr is not None else []:
        if isinstance(x, ast.NamedExpr) and isinstance(x.target, ast.Name):
            out.add(x.target.id)
    return out


def header_expr(node: ast.AST) -> ast.AST | None:
    """The part of a CFG node's ast that is evaluated AT that node."""
    if isinstance(node, (ast.If, ast.While)):
        return node.test
    if isinstance(node, (ast.For, ast.AsyncFor)):
        return node.iter
    if isinstance(node, (ast.With, ast.AsyncWith)):
        return ast.Tuple([i.context_expr for i in node.items], ast.Load())
    if isinstance(node, (ast.Try, ast.ExceptHandler, ast.FunctionDef, ast.ClassDef)):
        return None
    return node


def loads(node: ast.AST) -> set[str]:
    hdr = header_expr(node)
    if hdr is None:
        return set()
    out = set()
    for x in ast.walk(hdr):
        if isinstance(x, ast.Name) and isinstance(x.ctx, ast.Load):
            out.add(x.id)
    if isinstance(node, ast.AugAssign):
        for x in ast.walk(node.target):
            if isinstance(x, ast.Name):
                out.add(x.id)
    return out


def reaching_definitions(cfg: CFG) -> dict[int, dict[str, set[int]]]:
    """IN sets: node -> var -> set of defining node ids (ENTRY = parameter/outer)."""
    gen: dict[int, set[str]] = {i: stores(n.ast) if n.ast is not None else set() for i, n in cfg.nodes.items()}
    params = {a.arg for a in cfg.func.args.posonlyargs + cfg.func.args.args + cfg.func.args.kwonlyargs}
    IN: dict[int, dict[str, set[int]]] = {i: {} for i in cfg.nodes}
    OUT: dict[int, dict[str, set[int]]] = {i: {} for i in cfg.nodes}
    OUT[ENTRY] = {p: {ENTRY} for p in params}
    work = list(cfg.nodes)
    while work:
        n = work.pop(0)
        if n != ENTRY:
            new_in: dict[str, set[int]] = {}
            for p in cfg.pred(n):
                for v, ds in OUT[p].items():
                    new_in.setdefault(v, set()).update(ds)
            IN[n] = new_in
            out = {v: set(ds) for v, ds in new_in.items()}
            for v in gen[n]:
                out[v] = {n}
        else:
            out = OUT[ENTRY]
        if out != OUT[n]:
            OUT[n] = out
            for s in cfg.succ(n):
                if s not in work:
                    work.append(s)
    return IN
