"""E1 - program model of /repo/src/funtracks built from source text only.

Nothing in here imports or executes funtracks.  Every module under the package root is
parsed with `ast`; classes, functions, imports, a light type environment and call
resolution are derived from the trees.  Roles (primitive, user action, annotator, history,
tracks classes) are discovered from the class hierarchy, never from file paths.
"""

from __future__ import annotations

import ast
import builtins
import hashlib
import os
from dataclasses import dataclass, field
from pathlib import Path

REPO = Path(os.environ.get("VERIF_REPO", "/repo"))
PKG = "funtracks"


class _DesugarMatch(ast.NodeTransformer):
    """`match` statements whose patterns are literals, singletons, alternatives of those, class patterns without
    sub-patterns, captures and wildcards are rewritten into the equivalent if / elif chain (the flow-graph builder and
    the rules know `if`).  Other patterns are left alone."""

    n = 0

    def _test(self, subj: ast.expr, pat: ast.pattern):
        """-> (test expr or None for irrefutable, [binding statements]) or False if unsupported"""
        if isinstance(pat, ast.MatchValue):
            return ast.Compare(left=subj, ops=[ast.Eq()], comparators=[pat.value]), []
        if isinstance(pat, ast.MatchSingleton):
            return ast.Compare(left=subj, ops=[ast.Is()], comparators=[ast.Constant(pat.value)]), []
        if isinstance(pat, ast.MatchAs) and pat.pattern is None:
            binds = [ast.Assign(targets=[ast.Name(pat.name, ast.Store())], value=subj)] if pat.name else []
            return None, binds
        if isinstance(pat, ast.MatchAs) and pat.pattern is not None:
            r = self._test(subj, pat.pattern)
            if r is False:
                return False
            return r[0], r[1] + ([ast.Assign(targets=[ast.Name(pat.name, ast.Store())], value=subj)] if pat.name else [])
        if isinstance(pat, ast.MatchOr):
            parts = [self._test(subj, p_) for p_ in pat.patterns]
            if any(r is False or r[1] or r[0] is None for r in parts):
                return False
            return ast.BoolOp(ast.Or(), [r[0] for r in parts]), []
        if isinstance(pat, ast.MatchClass) and not pat.patterns and not pat.kwd_patterns:
            return ast.Call(func=ast.Name("isinstance", ast.Load()), args=[subj, pat.cls], keywords=[]), []
        return False

    def visit_Match(self, node: ast.Match):
        self.generic_visit(node)
        _DesugarMatch.n += 1
        tmp = f"_match_subject_{node.lineno}"
        simple = isinstance(node.subject, ast.Name)
        subj = node.subject if simple else ast.Name(tmp, ast.Load())
        arms = []
        for case in node.cases:
            r = self._test(subj, case.pattern)
            if r is False:
                return node
            test, binds = r
            if case.guard is not None:
                if binds:
                    return node
                test = case.guard if test is None else ast.BoolOp(ast.And(), [test, case.guard])
            arms.append((test, binds + case.body))
        chain = None
        for test, body in reversed(arms):
            if test is None:
                chain = body
            else:
                chain = [ast.If(test=test, body=body, orelse=chain or [])]
        out = ([] if simple else [ast.Assign(targets=[ast.Name(tmp, ast.Store())], value=node.subject)]) + (chain or [])
        for st in out:
            for n_ in ast.walk(st):
                if not hasattr(n_, "lineno"):
                    ast.copy_location(n_, node)
        return out


class _SplitConditionalEffects(ast.NodeTransformer):
    """`stmt(A(..) if c else B(..))`  ->  `if c: stmt(A(..))  else: stmt(B(..))` for simple statements.  The analyses are
    statement based: without the split both arms' calls would count as executed, and a chosen value would be an
    opaque term.  Only applied to the action packages; positions are kept."""

    SIMPLE = (ast.Expr, ast.Assign, ast.AnnAssign, ast.AugAssign, ast.Return)

    def _first(self, stmt):
        for n in ast.walk(stmt):
            if isinstance(n, (ast.Lambda, ast.ListComp, ast.SetComp, ast.DictComp, ast.GeneratorExp)):
                continue
            if isinstance(n, ast.IfExp):
                has_call = any(isinstance(x, ast.Call) for arm in (n.body, n.orelse) for x in ast.walk(arm))
                eq_choice = isinstance(n.test, ast.Compare) and len(n.test.ops) == 1 and isinstance(n.test.ops[0], (ast.Eq, ast.NotEq)) and not has_call
                if eq_choice:
                    continue  # `b if a == n else a`: a value-level choice the interpreter names as one term (the other child)
                return n
        return None

    def _inside_scope(self, stmt, target) -> bool:
        for n in ast.walk(stmt):
            if isinstance(n, (ast.Lambda, ast.ListComp, ast.SetComp, ast.DictComp, ast.GeneratorExp)) and any(x is target for x in ast.walk(n)):
                return True
        return False

    def _split(self, stmt, depth=0):
        if not isinstance(stmt, self.SIMPLE) or depth > 3:
            return [stmt]
        ie = self._first(stmt)
        if ie is None or self._inside_scope(stmt, ie):
            return [stmt]

        def with_arm(arm):
            import copy as _copy

            class Rep(ast.NodeTransformer):
                def visit_IfExp(self, n):
                    return _copy.deepcopy(arm) if n is ie_copy[0] else self.generic_visit(n)

            new = _copy.deepcopy(stmt)
            # locate the copy of `ie` by position in walk order
            idx = [i for i, n in enumerate(ast.walk(stmt)) if n is ie][0]
            ie_copy = [list(ast.walk(new))[idx]]
            return Rep().visit(new)

        a, b = with_arm(ie.body), with_arm(ie.orelse)
        node = ast.If(test=ie.test, body=self._split(a, depth + 1), orelse=self._split(b, depth + 1))
        return [ast.copy_location(node, stmt)]

    def _unroll_extend(self, s):
        """`X.extend([E for v in IT if C])` with calls in E  ->  `for v in IT: if C: X.append(E)` (same order of effects)"""
        if not (isinstance(s, ast.Expr) and isinstance(s.value, ast.Call) and isinstance(s.value.func, ast.Attribute) and s.value.func.attr == "extend"
                and len(s.value.args) == 1 and isinstance(s.value.args[0], (ast.ListComp, ast.GeneratorExp)) and len(s.value.args[0].generators) == 1):
            return s
        comp = s.value.args[0]
        if not any(isinstance(x, ast.Call) for x in ast.walk(comp.elt)):
            return s
        g = comp.generators[0]
        app = ast.Expr(ast.Call(func=ast.Attribute(value=s.value.func.value, attr="append", ctx=ast.Load()), args=[comp.elt], keywords=[]))
        body = [app]
        for c in reversed(g.ifs):
            body = [ast.If(test=c, body=body, orelse=[])]
        loop = ast.For(target=g.target, iter=g.iter, body=body, orelse=[], type_comment=None)
        for n in ast.walk(loop):
            if not hasattr(n, "lineno"):
                ast.copy_location(n, comp.elt if n is app or n is app.value else s)
        return ast.copy_location(loop, s)

    def _unroll_filtered_list(self, s):
        """`xs = [E for T in <literal rows> if C]`  ->  `xs = []` + `for T in rows: if C: xs.append(E)`"""
        val = s.value if isinstance(s, ast.Assign) else None
        # tuple(<generator>) / list(<generator>) build the same sequence
        if isinstance(val, ast.Call) and isinstance(val.func, ast.Name) and val.func.id in ("tuple", "list") and len(val.args) == 1 and not val.keywords \
                and isinstance(val.args[0], (ast.GeneratorExp, ast.ListComp)):
            val = val.args[0]
        if not (isinstance(s, ast.Assign) and len(s.targets) == 1 and isinstance(s.targets[0], ast.Name) and isinstance(val, (ast.ListComp, ast.GeneratorExp))
                and (isinstance(val, ast.ListComp) or val is not s.value)
                and len(val.generators) == 1 and val.generators[0].ifs and isinstance(val.generators[0].iter, (ast.Tuple, ast.List, ast.Name))):
            return [s]
        comp, g = val, val.generators[0]
        init = ast.copy_location(ast.Assign(targets=s.targets, value=ast.copy_location(ast.List(elts=[], ctx=ast.Load()), s)), s)
        app = ast.Expr(ast.Call(func=ast.Attribute(value=ast.Name(s.targets[0].id, ast.Load()), attr="append", ctx=ast.Load()), args=[comp.elt], keywords=[]))
        body = [app]
        for c in reversed(g.ifs):
            body = [ast.If(test=c, body=body, orelse=[])]
        loop = ast.For(target=g.target, iter=g.iter, body=body, orelse=[], type_comment=None)
        for n in ast.walk(loop):
            if not hasattr(n, "lineno"):
                ast.copy_location(n, s)
        return [init, ast.copy_location(loop, s)]

    def _block(self, body):
        out = []
        pre = []
        for s in body:
            pre.extend(self._unroll_filtered_list(s))
        for s in pre:
            s = self._unroll_extend(s)
            s = self.generic_visit(s) if not isinstance(s, self.SIMPLE) else s
            out.extend(self._split(s))
        return out

    def generic_visit(self, node):
        for fld in ("body", "orelse", "finalbody"):
            b = getattr(node, fld, None)
            if isinstance(b, list) and b and isinstance(b[0], ast.stmt):
                setattr(node, fld, self._block(b))
        for h in getattr(node, "handlers", []) or []:
            h.body = self._block(h.body)
        return node


class AnalysisError(Exception):
    """The analysis lost its subject (parse failure, vanished anchor, floor not met)."""


def u(node: ast.AST | None) -> str:
    return "" if node is None else ast.unparse(node)


def norm(node: ast.AST | str) -> str:
    """Normalised text of a construct: layout-, quote- and comment-independent."""
    if isinstance(node, str):
        return " ".join(node.split())
    return " ".join(ast.unparse(node).split())


class _PlainLocalAnnotations(ast.NodeTransformer):
    """`x: T = v` inside a function body is the assignment `x = v` (the annotation is kept in `_ann` for the type
    environment): a rule that looks for the definition of a local must not depend on whether it carries an annotation.
    Class-level annotated assignments (fields) and `self.x: T = v` are left alone."""

    def __init__(self):
        self.depth = 0

    def visit_FunctionDef(self, node):
        self.depth += 1
        self.generic_visit(node)
        self.depth -= 1
        return node

    visit_AsyncFunctionDef = visit_FunctionDef

    def visit_ClassDef(self, node):
        d, self.depth = self.depth, 0
        self.generic_visit(node)
        self.depth = d
        return node

    def visit_AnnAssign(self, node):
        if self.depth and node.value is not None and isinstance(node.target, ast.Name):
            new = ast.copy_location(ast.Assign(targets=[node.target], value=node.value, type_comment=None), node)
            new._ann = node.annotation
            return new
        return node


@dataclass
class Module:
    name: str
    path: Path
    tree: ast.Module
    source: str
    imports: dict[str, str] = field(default_factory=dict)  # local name -> qualified target
    is_pkg: bool = False

    @property
    def rel(self) -> str:
        try:
            return str(self.path.relative_to(REPO))
        except ValueError:
            return str(self.path)


@dataclass
class FuncInfo:
    qname: str  # module.Class.func / module.func / module.func.<locals>.inner
    name: str
    module: Module
    cls: ClassInfo | None
    node: ast.FunctionDef
    parent: FuncInfo | None = None
    locals_: dict[str, FuncInfo] = field(default_factory=dict)

    @property
    def short(self) -> str:
        return f"{self.cls.name}.{self.name}" if self.cls else self.name

    @property
    def loc(self) -> str:
        return f"{self.module.rel}:{self.node.lineno}"

    def at(self, node: ast.AST) -> str:
        return f"{self.module.rel}:{getattr(node, 'lineno', self.node.lineno)}"

    @property
    def params(self) -> list[str]:
        a = self.node.args
        return [x.arg for x in a.posonlyargs + a.args + a.kwonlyargs]

    def decorators(self) -> set[str]:
        return {u(d).split(".")[-1].split("(")[0] for d in self.node.decorator_list}

    def param_default(self, name: str) -> ast.expr | None:
        a = self.node.args
        pos = a.posonlyargs + a.args
        defaults = [None] * (len(pos) - len(a.defaults)) + list(a.defaults)
        for p, d in zip(pos, defaults, strict=True):
            if p.arg == name:
                return d
        for p, d in zip(a.kwonlyargs, a.kw_defaults, strict=True):
            if p.arg == name:
                return d
        return None


@dataclass
class ClassInfo:
    qname: str
    name: str
    module: Module
    node: ast.ClassDef
    base_qnames: list[str] = field(default_factory=list)  # resolved (internal or ext:...)
    methods: dict[str, FuncInfo] = field(default_factory=dict)
    attr_types: dict[str, str] = field(default_factory=dict)  # attr -> type string

    @property
    def loc(self) -> str:
        return f"{self.module.rel}:{self.node.lineno}"


class Program:
    def __init__(self, repo: Path | None = None):
        self.repo = Path(repo) if repo else REPO
        self.src = self.repo / "src" / PKG
        if not self.src.is_dir():
            raise AnalysisError(f"package root {self.src} not found")
        self.modules: dict[str, Module] = {}
        self.classes: dict[str, ClassInfo] = {}
        self.functions: dict[str, FuncInfo] = {}
        self.constants: dict[str, ast.expr] = {}  # module-level NAME = <expr>
        self.unresolved_calls = 0
        self.resolved_calls = 0
        self._parse_all()
        self._index()
        self._resolve_bases()
        self._attr_types()

    # ------------------------------------------------------------------ parsing
    def _parse_all(self) -> None:
        for path in sorted(self.src.rglob("*.py")):
            rel = path.relative_to(self.src.parent).with_suffix("")
            parts = list(rel.parts)
            is_pkg = parts[-1] == "__init__"
            if is_pkg:
                parts = parts[:-1]
            name = ".".join(parts)
            text = path.read_text()
            try:
                tree = ast.parse(text, filename=str(path))
            except SyntaxError as e:  # pragma: no cover
                raise AnalysisError(f"cannot parse {path}: {e}") from e
            if any(isinstance(x, ast.Match) for x in ast.walk(tree)):
                tree = _DesugarMatch().visit(tree)
                ast.fix_missing_locations(tree)
            tree = _PlainLocalAnnotations().visit(tree)
            if ".user_actions" in name or ".actions" in name:
                tree = _SplitConditionalEffects().visit(tree)
                ast.fix_missing_locations(tree)
            self.modules[name] = Module(name, path, tree, text, is_pkg=is_pkg)
        if len(self.modules) < 30:
            raise AnalysisError(f"only {len(self.modules)} modules parsed under {self.src}")

    def digest(self) -> str:
        h = hashlib.sha256()
        for name in sorted(self.modules):
            h.update(name.encode())
            h.update(self.modules[name].source.encode())
        return h.hexdigest()[:16]

    def _abs_import(self, mod: Module, node: ast.ImportFrom) -> str:
        if node.level == 0:
            return node.module or ""
        parts = mod.name.split(".")
        if not mod.is_pkg:
            parts = parts[:-1]
        if node.level > 1:
            parts = parts[: len(parts) - (node.level - 1)]
        base = ".".join(parts)
        return f"{base}.{node.module}" if node.module else base

    def _index(self) -> None:
        for mod in self.modules.values():
            for node in ast.walk(mod.tree):
                if isinstance(node, ast.Import):
                    for a in node.names:
                        mod.imports[a.asname or a.name.split(".")[0]] = (
                            a.name if a.asname else a.name.split(".")[0]
                        )
                elif isinstance(node, ast.ImportFrom):
                    base = self._abs_import(mod, node)
                    for a in node.names:
                        mod.imports[a.asname or a.name] = f"{base}.{a.name}"
            for node in mod.tree.body:
                if isinstance(node, ast.ClassDef):
                    self._index_class(mod, node)
                elif isinstance(node, ast.FunctionDef):
                    self._index_func(mod, None, node, None, f"{mod.name}.{node.name}")
                elif isinstance(node, ast.Assign) and len(node.targets) == 1:
                    t = node.targets[0]
                    if isinstance(t, ast.Name):
                        self.constants[f"{mod.name}.{t.id}"] = node.value

    def _index_class(self, mod: Module, node: ast.ClassDef) -> None:
        ci = ClassInfo(f"{mod.name}.{node.name}", node.name, mod, node)
        self.classes[ci.qname] = ci
        for b in node.body:
            if isinstance(b, ast.FunctionDef):
                fi = self._index_func(mod, ci, b, None, f"{ci.qname}.{b.name}")
                ci.methods.setdefault(b.name, fi)

    def _index_func(self, mod, cls, node, parent, qname) -> FuncInfo:
        fi = FuncInfo(qname, node.name, mod, cls, node, parent)
        self.functions[qname] = fi
        for sub in ast.walk(node):
            if sub is node:
                continue
            if isinstance(sub, ast.FunctionDef) and self._direct_parent_func(node, sub):
                inner = self._index_func(
                    mod, cls, sub, fi, f"{qname}.<locals>.{sub.name}"
                )
                fi.locals_[sub.name] = inner
        return fi

    @staticmethod
    def _direct_parent_func(outer: ast.FunctionDef, inner: ast.FunctionDef) -> bool:
        # inner is nested in outer with no other FunctionDef in between
        def find(n, depth):
            for c in ast.iter_child_nodes(n):
                if c is inner:
                    return depth
                if isinstance(c, (ast.FunctionDef, ast.Lambda, ast.ClassDef)):
                    d = find(c, depth + 1)
                else:
                    d = find(c, depth)
                if d is not None:
                    return d
            return None

        return find(outer, 0) == 0

    # ------------------------------------------------------------------ name resolution
    def resolve(self, qname: str, _seen: frozenset = frozenset()) -> str:
        """Follow re-exports until a class/function/module/constant (or external name)."""
        if qname in self.classes or qname in self.functions or qname in self.modules:
            return qname
        if qname in self.constants:
            return qname
        if qname in _seen:
            return qname
        if not qname.startswith(PKG + ".") and qname != PKG:
            return "ext:" + qname
        modname, _, name = qname.rpartition(".")
        mod = self.modules.get(modname)
        if mod is not None and name in mod.imports:
            return self.resolve(mod.imports[name], _seen | {qname})
        return qname

    def resolve_name(self, mod: Module, name: str) -> str | None:
        """Resolve a bare name used in module `mod`."""
        local = f"{mod.name}.{name}"
        if local in self.classes or local in self.functions or local in self.constants:
            return local
        if name in mod.imports:
            return self.resolve(mod.imports[name])
        return None

    def resolve_expr_name(self, mod: Module, expr: ast.expr) -> str | None:
        """Resolve Name / dotted Attribute chains that denote classes, functions, modules."""
        if isinstance(expr, ast.Name):
            return self.resolve_name(mod, expr.id)
        if isinstance(expr, ast.Attribute):
            base = self.resolve_expr_name(mod, expr.value)
            if base is None:
                return None
            if base.startswith("ext:"):
                return f"{base}.{expr.attr}"
            if base in self.modules:
                return self.resolve(f"{base}.{expr.attr}")
            if base in self.classes:
                return f"{base}.{expr.attr}"
        return None

    def _resolve_bases(self) -> None:
        for ci in self.classes.values():
            for b in ci.node.bases:
                tgt = b.value if isinstance(b, ast.Subscript) else b
                q = self.resolve_expr_name(ci.module, tgt)
                ci.base_qnames.append(q or f"ext:{u(tgt)}")

    def mro(self, cq: str) -> list[ClassInfo]:
        out, todo, seen = [], [cq], set()
        while todo:
            c = todo.pop(0)
            if c in seen or c not in self.classes:
                continue
            seen.add(c)
            out.append(self.classes[c])
            todo.extend(self.classes[c].base_qnames)
        return out

    def is_subclass(self, cq: str, base_name: str) -> bool:
        """True if class `cq` has an ancestor (or is) a class named `base_name`."""
        return any(c.name == base_name for c in self.mro(cq))

    def subclasses(self, base_name: str, strict: bool = True) -> list[ClassInfo]:
        out = []
        for ci in self.classes.values():
            if self.is_subclass(ci.qname, base_name) and not (strict and ci.name == base_name):
                out.append(ci)
        return sorted(out, key=lambda c: c.qname)

    def class_named(self, name: str) -> ClassInfo:
        hits = [c for c in self.classes.values() if c.name == name]
        if len(hits) != 1:
            raise AnalysisError(f"expected exactly one class named {name}, found {len(hits)}")
        return hits[0]

    def func_named(self, name: str, cls: str | None = None) -> FuncInfo:
        hits = [
            f
            for f in self.functions.values()
            if f.name == name and f.parent is None and (f.cls.name if f.cls else None) == cls
        ]
        if len(hits) != 1:
            raise AnalysisError(
                f"expected exactly one function {cls + '.' if cls else ''}{name}, found {len(hits)}"
            )
        return hits[0]

    def find_funcs(self, name: str) -> list[FuncInfo]:
        return [f for f in self.functions.values() if f.name == name]

    def lookup_method(self, cq: str, name: str) -> FuncInfo | None:
        for c in self.mro(cq):
            if name in c.methods:
                return c.methods[name]
        return None

    def overriders(self, cq: str, name: str) -> list[FuncInfo]:
        """All definitions of method `name` in strict subclasses of class cq."""
        out = []
        base = self.classes[cq].name
        for ci in self.subclasses(base):
            if name in ci.methods:
                out.append(ci.methods[name])
        return out

    # ------------------------------------------------------------------ light types
    def ann_type(self, mod: Module, ann: ast.expr | None) -> str | None:
        """Type string for an annotation: internal class qname, 'ext:...', or a builtin."""
        if ann is None:
            return None
        if isinstance(ann, ast.Constant) and isinstance(ann.value, str):
            try:
                ann = ast.parse(ann.value, mode="eval").body
            except SyntaxError:
                return None
        if isinstance(ann, ast.BinOp) and isinstance(ann.op, ast.BitOr):
            left = self.ann_type(mod, ann.left)
            right = self.ann_type(mod, ann.right)
            return left if left not in (None, "None") else right
        if isinstance(ann, ast.Constant) and ann.value is None:
            return "None"
        if isinstance(ann, ast.Subscript):
            return self.ann_type(mod, ann.value)
        if isinstance(ann, (ast.Name, ast.Attribute)):
            if isinstance(ann, ast.Name) and ann.id in (
                "list", "dict", "set", "tuple", "int", "str", "float", "bool",
            ):
                return ann.id
            return self.resolve_expr_name(mod, ann)
        return None

    def _attr_types(self) -> None:
        # three passes so that types assigned from other classes' attributes settle
        for _ in range(3):
            for ci in self.classes.values():
                for b in ci.node.body:
                    if isinstance(b, ast.AnnAssign) and isinstance(b.target, ast.Name):
                        t = self.ann_type(ci.module, b.annotation)
                        if t:
                            ci.attr_types.setdefault(b.target.id, t)
                for m in ci.methods.values():
                    if "property" in m.decorators():
                        t = self.ann_type(ci.module, m.node.returns)
                        if t:
                            ci.attr_types.setdefault(m.name, t)
                    env = self.param_env(m)
                    for n in ast.walk(m.node):
                        tgt = None
                        if isinstance(n, ast.AnnAssign):
                            tgt, t = n.target, self.ann_type(ci.module, n.annotation)
                        elif isinstance(n, ast.Assign) and len(n.targets) == 1:
                            tgt, t = n.targets[0], self.type_of(n.value, env, m)
                        else:
                            continue
                        if (
                            isinstance(tgt, ast.Attribute)
                            and isinstance(tgt.value, ast.Name)
                            and tgt.value.id == "self"
                            and t
                            and t != "None"
                        ):
                            if isinstance(n, ast.AnnAssign):
                                ci.attr_types[tgt.attr] = t  # explicit narrowing wins
                            else:
                                ci.attr_types.setdefault(tgt.attr, t)

    def attr_type(self, cq: str, attr: str) -> str | None:
        for c in self.mro(cq):
            if attr in c.attr_types:
                return c.attr_types[attr]
        return None

    def param_env(self, f: FuncInfo) -> dict[str, str]:
        env: dict[str, str] = {}
        a = f.node.args
        allp = a.posonlyargs + a.args + a.kwonlyargs
        for i, p in enumerate(allp):
            if i == 0 and f.cls is not None and "staticmethod" not in f.decorators():
                if "classmethod" in f.decorators():
                    env[p.arg] = "type:" + f.cls.qname
                else:
                    env[p.arg] = f.cls.qname
                continue
            t = self.ann_type(f.module, p.annotation)
            if t:
                env[p.arg] = t
        return env

    def local_env(self, f: FuncInfo) -> dict[str, str]:
        """Flow-insensitive types of parameters and locals with an obvious type."""
        env = self.param_env(f)
        if f.parent is not None:
            env = {**self.local_env(f.parent), **env}
        for _ in range(2):
            for n in ast.walk(f.node):
                if isinstance(n, ast.AnnAssign) and isinstance(n.target, ast.Name):
                    t = self.ann_type(f.module, n.annotation)
                    if t:
                        env[n.target.id] = t
                elif isinstance(n, ast.Assign) and getattr(n, "_ann", None) is not None and self.ann_type(f.module, n._ann):
                    env[n.targets[0].id] = self.ann_type(f.module, n._ann)
                elif isinstance(n, ast.Assign) and len(n.targets) == 1:
                    if isinstance(n.targets[0], ast.Name):
                        t = self.type_of(n.value, env, f)
                        if t and t != "None":
                            env.setdefault(n.targets[0].id, t)
                    elif isinstance(n.targets[0], (ast.Tuple, ast.List)) and isinstance(n.value, (ast.Tuple, ast.List)) and len(n.targets[0].elts) == len(n.value.elts):
                        # a, b = x, y
                        for tg, vl in zip(n.targets[0].elts, n.value.elts, strict=True):
                            if isinstance(tg, ast.Name):
                                t = self.type_of(vl, env, f)
                                if t and t != "None":
                                    env.setdefault(tg.id, t)
                elif isinstance(n, ast.NamedExpr) and isinstance(n.target, ast.Name):
                    t = self.type_of(n.value, env, f)
                    if t and t != "None":
                        env.setdefault(n.target.id, t)
                elif isinstance(n, (ast.For, ast.comprehension)):
                    # `for annotator in self.annotators` - element type of list[...] subclasses
                    if isinstance(n.target, ast.Name):
                        it = self.type_of(n.iter, env, f)
                        et = self.element_type(it)
                        if et:
                            env.setdefault(n.target.id, et)
        return env

    def element_type(self, t: str | None) -> str | None:
        if t and t in self.classes:
            for c in self.mro(t):
                for b in c.node.bases:
                    if isinstance(b, ast.Subscript) and u(b.value) == "list":
                        return self.ann_type(c.module, b.slice)
        return None

    def type_of(self, expr: ast.expr, env: dict[str, str], f: FuncInfo) -> str | None:
        if isinstance(expr, ast.Name):
            if expr.id in env:
                return env[expr.id]
            q = self.resolve_name(f.module, expr.id)
            if q in self.classes:
                return "type:" + q
            if q and q.startswith("ext:"):
                return "mod:" + q
            return None
        if isinstance(expr, ast.Attribute):
            t = self.type_of(expr.value, env, f)
            if t and t in self.classes:
                return self.attr_type(t, expr.attr)
            if t and t.startswith("mod:"):
                return "mod:" + t[4:] + "." + expr.attr
            return None
        if isinstance(expr, ast.Call):
            tgt = self.resolve_call(expr, env, f, count=False)
            if tgt and tgt[0] == "class":
                return tgt[1].qname
            if tgt and tgt[0] == "func":
                fi = tgt[1][0]
                return self.ann_type(fi.module, fi.node.returns)
            return None
        if isinstance(expr, ast.IfExp):
            return self.type_of(expr.body, env, f) or self.type_of(expr.orelse, env, f)
        return None

    # ------------------------------------------------------------------ call resolution
    def resolve_call(self, call: ast.Call, env: dict[str, str], f: FuncInfo, count=True):
        """-> ('class', ClassInfo) | ('func', [FuncInfo,...]) | ('ext', 'numpy.where') |
        ('method', attrname) for an unresolved method call | None"""
        r = self._resolve_call(call, env, f)
        if count:
            if r is None or r[0] == "method":
                self.unresolved_calls += 1
            else:
                self.resolved_calls += 1
        return r

    def _resolve_call(self, call: ast.Call, env, f: FuncInfo):
        fn = call.func
        if isinstance(fn, ast.Name):
            p = f
            while p is not None:
                if fn.id in p.locals_:
                    return ("func", [p.locals_[fn.id]])
                p = p.parent
            if fn.id in env and env[fn.id].startswith("type:"):
                cq = env[fn.id][5:]
                return ("class", self.classes[cq])
            q = self.resolve_name(f.module, fn.id)
            if q in self.classes:
                return ("class", self.classes[q])
            if q in self.functions:
                return ("func", [self.functions[q]])
            if q and q.startswith("ext:"):
                return ("ext", q[4:])
            if q is None and hasattr(builtins, fn.id):
                return ("ext", "builtins." + fn.id)
            return None
        if isinstance(fn, ast.Attribute):
            # super().method(...)
            if (
                isinstance(fn.value, ast.Call)
                and isinstance(fn.value.func, ast.Name)
                and fn.value.func.id == "super"
                and f.cls is not None
            ):
                for c in self.mro(f.cls.qname)[1:]:
                    if fn.attr in c.methods:
                        return ("func", [c.methods[fn.attr]])
                return ("ext", f"super.{fn.attr}")
            t = self.type_of(fn.value, env, f)
            if t and t.startswith("type:"):
                t = t[5:]
            if t and t in self.classes:
                m = self.lookup_method(t, fn.attr)
                if m is not None:
                    return ("func", [m])
                return ("method", fn.attr)
            if t and t.startswith("mod:"):
                return ("ext", t[8:] + "." + fn.attr if t.startswith("mod:ext:") else t[4:] + "." + fn.attr)
            q = self.resolve_expr_name(f.module, fn)
            if q in self.classes:
                return ("class", self.classes[q])
            if q in self.functions:
                return ("func", [self.functions[q]])
            if q and q.startswith("ext:"):
                return ("ext", q[4:])
            return ("method", fn.attr)
        return None

    # ------------------------------------------------------------------ roles
    def primitives(self) -> list[ClassInfo]:
        out = [c for c in self.subclasses("BasicAction") if "_apply" in c.methods or "inverse" in c.methods]
        return out

    def user_actions(self) -> list[ClassInfo]:
        prims = {c.name for c in self.primitives()}
        groups = {c.name for c in self.subclasses("ActionGroup")}
        out = []
        for c in self.subclasses("ActionGroup"):
            init = c.methods.get("__init__")
            if init is None:
                continue
            # constructions may live in helper methods of the class that the constructor calls
            found = False
            for m in c.methods.values():
                for n in ast.walk(m.node):
                    if isinstance(n, ast.Call):
                        nm = n.func.id if isinstance(n.func, ast.Name) else None
                        if nm in prims or nm in groups:
                            found = True
                            break
                if found:
                    break
            if found:
                out.append(c)
        return out

    def annotators(self) -> list[ClassInfo]:
        return self.subclasses("GraphAnnotator")

    def history_class(self) -> ClassInfo:
        tracks = self.class_named("Tracks")
        t = self.attr_type(tracks.qname, "action_history")
        if t not in self.classes:
            raise AnalysisError("cannot find the class instantiated into Tracks.action_history")
        return self.classes[t]


def calls_in(node: ast.AST) -> list[ast.Call]:
    """Calls inside `node` in (approximate) evaluation order: post-order, left to right,
    not descending into nested function definitions or lambdas."""
    out: list[ast.Call] = []

    def visit(n: ast.AST) -> None:
        for c in ast.iter_child_nodes(n):
            if isinstance(c, (ast.FunctionDef, ast.AsyncFunctionDef, ast.Lambda, ast.ClassDef)):
                continue
            visit(c)
        if isinstance(n, ast.Call):
            out.append(n)

    visit(node)
    return out


def call_name(call: ast.Call) -> str | None:
    fn = call.func
    if isinstance(fn, ast.Name):
        return fn.id
    if isinstance(fn, ast.Attribute):
        return fn.attr
    return None


def arg_of(call: ast.Call, fi: FuncInfo | None, name: str, pos: int | None = None) -> ast.expr | None:
    """Argument bound to parameter `name` of callee `fi` at `call` (None if defaulted).
    For methods/constructors `self` is skipped.  `pos` overrides positional index."""
    for k in call.keywords:
        if k.arg == name:
            return k.value
    if fi is not None:
        params = fi.params
        if fi.cls is not None and "staticmethod" not in fi.decorators():
            params = params[1:]
        if name in params:
            i = params.index(name)
            if i < len(call.args) and not any(isinstance(a, ast.Starred) for a in call.args[: i + 1]):
                return call.args[i]
        return None
    if pos is not None and pos < len(call.args):
        return call.args[pos]
    return None
