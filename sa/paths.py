"""E2b - condition-consistent path enumeration over the structured AST of one function.

A path is a sequence of simple statements and branch decisions.  Two syntactically
identical tests (after normalising `is not`/`!=`/`not in`/`not`, and splitting `and`/`or`)
over names that were not re-bound in between take the same outcome on one path.  Loops
are unrolled `loop_iters` times (0..k iterations are all produced).  Nothing is executed:
the walker only drives rule-specific hooks that keep abstract state.
"""

from __future__ import annotations

import ast
import copy
from dataclasses import dataclass, field

from .cfg import stores
from .model import AnalysisError, norm


def atom_key(test: ast.expr) -> tuple[str, bool, ast.expr]:
    """-> (normalised positive text, polarity, positive-form expr)."""
    if isinstance(test, ast.UnaryOp) and isinstance(test.op, ast.Not):
        k, p, e = atom_key(test.operand)
        return k, not p, e
    if isinstance(test, ast.Compare) and len(test.ops) == 1:
        op = test.ops[0]
        flip = {ast.IsNot: ast.Is, ast.NotEq: ast.Eq, ast.NotIn: ast.In}
        for neg, pos in flip.items():
            if isinstance(op, neg):
                e = ast.Compare(test.left, [pos()], test.comparators)
                return norm(e), False, e
    return norm(test), True, test


@dataclass
class PState:
    data: object
    conds: dict[str, bool] = field(default_factory=dict)
    cond_names: dict[str, frozenset] = field(default_factory=dict)
    cond_has_call: dict[str, bool] = field(default_factory=dict)
    trail: list = field(default_factory=list)
    imprecise: bool = False

    def fork(self) -> PState:
        return PState(
            self.data.copy() if hasattr(self.data, "copy") else copy.deepcopy(self.data),
            dict(self.conds),
            dict(self.cond_names),
            dict(self.cond_has_call),
            list(self.trail),
            self.imprecise,
        )

    def rebind(self, names) -> None:
        names = set(names)
        if not names:
            return
        for k in [k for k, ns in self.cond_names.items() if ns & names]:
            self.conds.pop(k, None)
            self.cond_names.pop(k, None)
            self.cond_has_call.pop(k, None)

    def invalidate_calls(self) -> None:
        """Forget outcomes of tests that contain calls (state may have changed)."""
        for k in [k for k, c in self.cond_has_call.items() if c]:
            self.conds.pop(k, None)
            self.cond_names.pop(k, None)
            self.cond_has_call.pop(k, None)

    def signature(self) -> str:
        return " & ".join(f"{'' if v else 'not '}({k})" for k, v in self.conds.items())


def _leaves(test: ast.expr):
    if isinstance(test, ast.BoolOp):
        for v in test.values:
            yield from _leaves(v)
    elif isinstance(test, ast.UnaryOp) and isinstance(test.op, ast.Not) and isinstance(test.operand, ast.BoolOp):
        yield from _leaves(test.operand)
    else:
        yield test


class Hooks:
    """Override what you need.  `st.data` is yours."""

    def absorb(self, kept: "PState", dropped: "PState") -> None:
        """`dropped` has the same merge key as `kept` and is discarded; keep what you need."""

    def merge_key(self, st: "PState", after: ast.stmt):
        """Hashable key of the abstract state, or None to never merge."""
        return None

    def on_stmt(self, st: PState, stmt: ast.stmt):
        """Simple statement.  Return None, or a list of (PState, kind) with kind in
        {'next','raise','return'} to fork (e.g. an inlined callee that may raise)."""
        return None

    def on_cond(self, st: PState, expr: ast.expr, outcome: bool):
        """A leaf test took `outcome`.  Return False to prune the path as infeasible."""
        return True

    def known(self, st: PState, expr: ast.expr):
        """Optionally decide a leaf test from abstract state: True/False/None."""
        return None

    def on_for(self, st: PState, node: ast.For, iteration: int) -> None:
        """Loop target is (re)bound for iteration `iteration` (0-based)."""

    def on_for_done(self, st: PState, node: ast.For, iterations: int) -> None:
        pass

    def trip_bounds(self, st: PState, node: ast.For):
        """(min, max) number of iterations known from abstract state; max None = unknown."""
        return 0, None

    def on_with(self, st: PState, node: ast.With) -> None:
        pass

    def on_raise(self, st: PState, node: ast.stmt) -> None:
        pass

    def on_return(self, st: PState, node: ast.Return) -> None:
        pass


class PathWalker:
    def __init__(self, hooks: Hooks, loop_iters: int = 1, max_paths: int = 200000):
        self.h = hooks
        self.loop_iters = loop_iters
        self.max_paths = max_paths
        self.count = 0
        self.merged = 0
        self.atom_uses: dict[str, int] = {}

    def run(self, func: ast.FunctionDef, data) -> list[tuple[PState, str, ast.AST | None]]:
        out = []
        self.register_tests(func.body)
        for st, kind, node in self.block(func.body, PState(data)):
            if kind == "next":
                kind = "fall"
            out.append((st, kind, node))
            self.count += 1
            if self.count > self.max_paths:
                raise AnalysisError(f"path budget exceeded in {func.name}")
        return out

    # ------------------------------------------------------------------
    def block(self, stmts, st):
        """Walk a statement list.  States that reach the same statement boundary with an
        equal merge key are one path from there on (join points do not multiply paths)."""
        cur = [st]
        for s in stmts:
            nxt = []
            for st1 in cur:
                for st2, kind, node in self.stmt(s, st1):
                    if kind == "next":
                        nxt.append(st2)
                    else:
                        yield st2, kind, node
            cur = self.merge(nxt, s)
            if not cur:
                return
        for st1 in cur:
            yield st1, "next", None

    def merge(self, states, after):
        if len(states) < 2:
            return states
        seen, out = {}, []
        for st in states:
            k = self.h.merge_key(st, after)
            if k is None:
                out.append(st)
                continue
            if k in seen:
                self.merged += 1
                self.h.absorb(seen[k], st)
                continue
            seen[k] = st
            out.append(st)
        return out

    def register_tests(self, stmts) -> None:
        """Count how often each test atom occurs: only repeated atoms need remembering."""
        for s in stmts:
            for n in ast.walk(s):
                if isinstance(n, (ast.If, ast.While, ast.Assert)):
                    for leaf in _leaves(n.test):
                        k, _, _ = atom_key(leaf)
                        self.atom_uses[k] = self.atom_uses.get(k, 0) + 1

    def branch(self, test: ast.expr, st: PState):
        """yield (outcome, state) for every consistent outcome of `test`."""
        if isinstance(test, ast.BoolOp):
            is_and = isinstance(test.op, ast.And)

            def rec(vals, s):
                if not vals:
                    yield is_and, s
                    return
                for o, s2 in self.branch(vals[0], s):
                    if o != is_and:
                        yield o, s2
                    else:
                        yield from rec(vals[1:], s2)

            yield from rec(test.values, st)
            return
        if isinstance(test, ast.UnaryOp) and isinstance(test.op, ast.Not) and isinstance(
            test.operand, ast.BoolOp
        ):
            for o, s in self.branch(test.operand, st):
                yield (not o), s
            return
        if isinstance(test, ast.Constant):
            yield bool(test.value), st
            return
        key, pol, pos = atom_key(test)
        if key in st.conds:
            yield (st.conds[key] == pol), st
            return
        decided = self.h.known(st, pos)
        outcomes = (True, False) if decided is None else (bool(decided),)
        for i, pos_outcome in enumerate(outcomes):
            s = st.fork() if i < len(outcomes) - 1 else st
            if self.atom_uses.get(key, 2) >= 2:
                s.conds[key] = pos_outcome
                names = frozenset(
                    x.id for x in ast.walk(pos) if isinstance(x, ast.Name)
                )
                s.cond_names[key] = names
                s.cond_has_call[key] = any(isinstance(x, ast.Call) for x in ast.walk(pos))
            s.trail.append((getattr(test, "lineno", 0), key, pos_outcome))
            for x in ast.walk(pos):  # walrus in a test
                if isinstance(x, ast.NamedExpr) and isinstance(x.target, ast.Name):
                    s.rebind([x.target.id])
            if self.h.on_cond(s, pos, pos_outcome) is False:
                continue
            yield (pos_outcome == pol), s

    def stmt(self, s: ast.stmt, st: PState):
        if isinstance(s, ast.If):
            for o, st2 in self.branch(s.test, st):
                yield from self.block(s.body if o else s.orelse, st2)
            return
        if isinstance(s, (ast.For, ast.AsyncFor)):
            yield from self.loop(s, st, 0)
            return
        if isinstance(s, ast.While):
            yield from self.wloop(s, st, 0)
            return
        if isinstance(s, ast.Return):
            res = self.h.on_return(st, s)
            if res is None:
                yield st, "return", s
            else:
                for st2, kind in res:
                    yield st2, ("return" if kind == "next" else kind), s
            return
        if isinstance(s, ast.Raise):
            self.h.on_raise(st, s)
            yield st, "raise", s
            return
        if isinstance(s, ast.Assert):
            for o, st2 in self.branch(s.test, st):
                if o:
                    yield st2, "next", None
                else:
                    self.h.on_raise(st2, s)
                    yield st2, "raise", s
            return
        if isinstance(s, ast.Break):
            yield st, "break", s
            return
        if isinstance(s, ast.Continue):
            yield st, "continue", s
            return
        if isinstance(s, (ast.With, ast.AsyncWith)):
            self.h.on_with(st, s)
            st.rebind(stores(s))
            yield from self.block(s.body, st)
            return
        if isinstance(s, ast.Try):
            yield from self.try_(s, st)
            return
        if isinstance(s, (ast.FunctionDef, ast.AsyncFunctionDef, ast.ClassDef, ast.Pass)):
            yield st, "next", None
            return
        if isinstance(s, ast.Match):
            st.imprecise = True
            for case in s.cases:
                yield from self.block(case.body, st.fork())
            yield st, "next", None
            return
        res = self.h.on_stmt(st, s)
        st.rebind(stores(s))
        if res is None:
            yield st, "next", None
        else:
            for st2, kind in res:
                if st2 is not st:
                    st2.rebind(stores(s))
                yield st2, kind, s

    def loop(self, s: ast.For, st: PState, i: int, bounds=None):
        if bounds is None:
            lo, hi = self.h.trip_bounds(st, s)
            exact = lo is not None and hi is not None and lo == hi
            cap = self.loop_iters if not exact else max(self.loop_iters, min(hi, 4))
            hi = cap if hi is None else min(hi, cap)
            lo = min(lo or 0, hi)
            bounds = (lo, hi)
        lo, hi = bounds
        if i >= lo:
            # exit now (after i iterations)
            st_exit = st.fork() if i < hi else st
            self.h.on_for_done(st_exit, s, i)
            if s.orelse:
                yield from self.block(s.orelse, st_exit)
            else:
                yield st_exit, "next", None
        if i >= hi:
            return
        st.rebind(stores(s))
        self.h.on_for(st, s, i)
        for st2, kind, node in self.block(s.body, st):
            if kind in ("next", "continue"):
                yield from self.loop(s, st2, i + 1, bounds)
            elif kind == "break":
                self.h.on_for_done(st2, s, i + 1)
                yield st2, "next", None
            else:
                yield st2, kind, node

    def wloop(self, s: ast.While, st: PState, i: int):
        if i >= self.loop_iters:
            st.imprecise = True
            if s.orelse:
                yield from self.block(s.orelse, st)
            else:
                yield st, "next", None
            return
        for o, st2 in self.branch(s.test, st):
            if not o:
                if s.orelse:
                    yield from self.block(s.orelse, st2)
                else:
                    yield st2, "next", None
                continue
            for st3, kind, node in self.block(s.body, st2):
                if kind in ("next", "continue"):
                    # the test is re-evaluated: forget its recorded outcome
                    for sub in ast.walk(s.test):
                        if isinstance(sub, ast.expr):
                            k, _, _ = atom_key(sub)
                            st3.conds.pop(k, None)
                    yield from self.wloop(s, st3, i + 1)
                elif kind == "break":
                    yield st3, "next", None
                else:
                    yield st3, kind, node

    def try_(self, s: ast.Try, st: PState):
        entry = st.fork()
        outs = []
        for st2, kind, node in self.block(s.body, st):
            if kind == "raise" and s.handlers:
                for h in s.handlers:
                    st3 = st2.fork()
                    if h.name:
                        st3.rebind([h.name])
                    outs.extend(self.block(h.body, st3))
            elif kind == "next" and s.orelse:
                outs.extend(self.block(s.orelse, st2))
            else:
                outs.append((st2, kind, node))
        for h in s.handlers:  # an implicit exception somewhere in the body
            st3 = entry.fork()
            st3.imprecise = True
            if h.name:
                st3.rebind([h.name])
            outs.extend(self.block(h.body, st3))
        for st2, kind, node in outs:
            if s.finalbody:
                for st3, k2, n2 in self.block(s.finalbody, st2):
                    yield (st3, kind, node) if k2 == "next" else (st3, k2, n2)
            else:
                yield st2, kind, node
