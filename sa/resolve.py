"""Small def-use resolver used by the shape rules so that they look THROUGH harmless
refactorings: local variables that are assigned once, same-class helper methods that just
return an expression, module-level constants, loop-free tuple unpacking."""

from __future__ import annotations

import ast

from .model import FuncInfo, Program, call_name, norm


class Resolver:
    def __init__(self, P: Program, f: FuncInfo, max_depth: int = 6):
        self.P, self.f, self.max_depth = P, f, max_depth
        self._defs: dict[str, list[ast.expr]] = {}
        for s in ast.walk(f.node):
            if isinstance(s, ast.Assign):
                for t in s.targets:
                    self._bind(t, s.value)
            elif isinstance(s, ast.AnnAssign) and s.value is not None:
                self._bind(s.target, s.value)
            elif isinstance(s, ast.NamedExpr):
                self._bind(s.target, s.value)
        self.params = set(f.params)
        # locals that are changed in place after their definition are objects, not values: never expand them
        self._mutated: set[str] = set()
        for s in ast.walk(f.node):
            if isinstance(s, ast.Call) and isinstance(s.func, ast.Attribute) and isinstance(s.func.value, ast.Name) and s.func.attr in (
                "append", "extend", "add", "update", "insert", "remove", "discard", "pop", "clear", "sort", "setdefault", "popitem", "reverse"):
                self._mutated.add(s.func.value.id)
            if isinstance(s, (ast.Assign, ast.AugAssign, ast.Delete)):
                for t in (s.targets if isinstance(s, (ast.Assign, ast.Delete)) else [s.target]):
                    if isinstance(t, ast.Subscript) and isinstance(t.value, ast.Name):
                        self._mutated.add(t.value.id)
                    if isinstance(s, ast.AugAssign) and isinstance(t, ast.Name):
                        self._mutated.add(t.id)

    def _bind(self, t: ast.expr, v: ast.expr) -> None:
        if isinstance(t, ast.Name):
            self._defs.setdefault(t.id, []).append(v)
        elif isinstance(t, (ast.Tuple, ast.List)) and isinstance(v, (ast.Tuple, ast.List)) and len(t.elts) == len(v.elts):
            for a, b in zip(t.elts, v.elts, strict=True):
                self._bind(a, b)
        elif isinstance(t, (ast.Tuple, ast.List)):
            for i, a in enumerate(t.elts):
                if isinstance(a, ast.Name):
                    self._defs.setdefault(a.id, []).append(ast.Subscript(v, ast.Constant(i), ast.Load()))

    def single_def(self, name: str) -> ast.expr | None:
        d = self._defs.get(name, [])
        if len(d) != 1 or name in self.params:
            return None
        if name in self._mutated and not isinstance(d[0], (ast.Attribute, ast.Name, ast.Subscript)):
            return None  # a fresh object that is filled in place is not its initialiser; an alias of existing storage still is
        return d[0]

    def helper_return(self, call: ast.Call):
        """`self._helper(args)` where the helper's body ends in one return: (helper, return expr, binding)"""
        if not (isinstance(call.func, ast.Attribute) and isinstance(call.func.value, ast.Name) and call.func.value.id == "self" and self.f.cls):
            return None
        m = self.P.lookup_method(self.f.cls.qname, call.func.attr)
        if m is None or m is self.f:
            return None
        rets = [r for r in ast.walk(m.node) if isinstance(r, ast.Return) and r.value is not None]
        return (m, rets) if rets else None

    def expand(self, e: ast.expr | None, depth: int = 0) -> ast.expr | None:
        """A copy of `e` in which single-assignment locals are replaced by their definitions."""
        if e is None or depth > self.max_depth:
            return e
        R = self

        class T(ast.NodeTransformer):
            def visit_Name(self, n):
                if isinstance(n.ctx, ast.Load):
                    d = R.single_def(n.id)
                    if d is not None:
                        return R.expand(_copy(d), depth + 1)
                    q = R.P.resolve_name(R.f.module, n.id)
                    if q and q in R.P.constants and isinstance(R.P.constants[q], (ast.Tuple, ast.List, ast.Constant)):
                        return _copy(R.P.constants[q])
                return n

        return T().visit(_copy(e))

    def text(self, e: ast.expr | None) -> str:
        x = self.expand(e)
        return norm(x) if x is not None else ""

    def returns_text(self, call: ast.Call) -> list[str]:
        """Expanded return expressions of a same-class helper called with this call."""
        hr = self.helper_return(call)
        if hr is None:
            return []
        m, rets = hr
        sub = Resolver(self.P, m, self.max_depth)
        return [sub.text(r.value) for r in rets]


def _copy(n: ast.AST) -> ast.AST:
    """deep copy of an AST that does not follow foreign attributes"""
    if isinstance(n, ast.AST):
        new = type(n)()
        for f, v in ast.iter_fields(n):
            if isinstance(v, list):
                setattr(new, f, [_copy(x) for x in v])
            else:
                setattr(new, f, _copy(v))
        for a in ("lineno", "col_offset", "end_lineno", "end_col_offset"):
            if hasattr(n, a):
                setattr(new, a, getattr(n, a))
        return new
    return n
